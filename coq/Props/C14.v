(* Props/C14.v — the block store behaves like a height-indexed map, atomically and durably.
   Statements only; every proof is [exact <lemma of Proofs/StoreProofs.v>]. *)
From Coq Require Import String NArith List Bool.
From Verif Require Import Base.KV Base.Keys Model.Store Proofs.StoreProofs.
Import ListNotations.
Open Scope string_scope.

(* For every history of operations, reopenings, crashes inside operations and transient write faults
   inside operations (a datastore write attempt of the operation returns an error, the store lives on),
   over all heights, hashes, values and metadata keys (saved headers with equal hashes having equal
   heights): every result the store returns is the result of the height-indexed-map specification,
   where each crashed operation either happened entirely or not at all, and each operation that met
   a write fault returned an error and left the map EXACTLY as it was (a_fault_step: nothing of a
   failed operation is ever visible, now, to a retry, or after a reopen); and the final image
   represents the final specification state (relation R: per key kind, exactly the latest value
   written by an operation that did not fail). *)
Theorem C14_refines_full : forall h : list item,
  hash_consistentb (saves h) = true ->
  exists happened,
    outputs h = snd (a_run a_init h happened) /\
    R (final h) (fst (a_run a_init h happened)).
Proof. exact store_refines. Qed.
Print Assumptions C14_refines_full.

(* records of different kinds never overwrite one another: the key builders are jointly injective *)
Theorem C14_keys_disjoint_full : forall a b : keykind, key_of a = key_of b -> a = b.
Proof. exact key_of_inj. Qed.
Print Assumptions C14_keys_disjoint_full.

(* the recorded height only grows — for all histories (write faults included), no hypothesis *)
Theorem C14_height_monotone_full : forall h1 h2 : list item,
  exists n1 n2, c_height (final h1) = Some n1 /\ c_height (final (h1 ++ h2)) = Some n2 /\ (n1 <= n2)%N.
Proof. exact height_monotone. Qed.
Print Assumptions C14_height_monotone_full.

(* a read by hash returns a block with that hash (the one currently at its height) or not-found,
   and not-found only when no stored block has that hash *)
Theorem C14_by_hash_full : forall (h : list item) (hash : string),
  hash_consistentb (saves h) = true ->
  match snd (step (final h) (OGetByHash hash)) with
  | RBlock hd d => hhash hd = hash /\ snd (step (final h) (OGetBlock (hheight hd))) = RBlock hd d
  | RErr => forall n hd d, snd (step (final h) (OGetBlock n)) = RBlock hd d -> hhash hd <> hash
  | _ => False
  end.
Proof. exact by_hash_sound. Qed.
Print Assumptions C14_by_hash_full.

(* a block save is all-or-nothing under a crash *)
Theorem C14_save_atomic_full : forall (m : img) hd d s k,
  crash_after k m (fst (step m (OSave hd d s))) = m \/
  crash_after k m (fst (step m (OSave hd d s))) = apply_writes m (fst (step m (OSave hd d s))).
Proof. exact save_atomic. Qed.
Print Assumptions C14_save_atomic_full.

(* ---- transient write faults (the store stays open) ------------------------------------------------ *)
(* an operation whose write attempt number k exists and fails returns an error and leaves the database exactly
   what it was — for every image, operation and k *)
Theorem C14_fault_no_effect_full : forall (m : img) (o : op) (k : nat),
  (k < length (fst (step m o)))%nat -> istep m (IFault o k) = (m, Some RErr).
Proof. exact fault_no_effect. Qed.
Print Assumptions C14_fault_no_effect_full.

(* an operation that makes fewer than k+1 write attempts is not touched by the armed fault *)
Theorem C14_fault_not_met_full : forall (m : img) (o : op) (k : nat),
  (length (fst (step m o)) <= k)%nat -> istep m (IFault o k) = istep m (IOp o).
Proof. exact fault_not_met. Qed.
Print Assumptions C14_fault_not_met_full.

(* everything acknowledged survives: a SetHeight(n) that returned without error (plain, or with a fault armed that
   it did not meet) is durable — after ANY continuation of operations, reopenings, crashes and faults the recorded
   height is at least n *)
Theorem C14_acked_height_durable_full : forall (h1 : list item) (i : item) (h2 : list item) (n : N),
  item_op i = Some (OSetHeight n) -> snd (istep (final h1) i) = Some RUnit ->
  exists n', c_height (final (h1 ++ i :: h2)) = Some n' /\ (n <= n')%N.
Proof. exact acked_height_durable. Qed.
Print Assumptions C14_acked_height_durable_full.

(* a height that Height() reported is never lost by any continuation (reopen, crash, write fault) *)
Theorem C14_reported_height_durable_full : forall (h1 h2 : list item) (n : N),
  snd (step (final h1) OHeight) = RHeight n ->
  exists n', c_height (final (h1 ++ h2)) = Some n' /\ (n <= n')%N.
Proof. exact reported_height_durable. Qed.
Print Assumptions C14_reported_height_durable_full.

(* ---- SetHeight never lowers and always raises, on every height --------------------------------------- *)
(* one SetHeight(n) on ANY image whose height record is readable - for all n and all recorded heights cur, on either
   side of any byte boundary (255/256, 65535/65536, 2^32-1/2^32, ...): no error, and the recorded height afterwards is
   max cur n *)
Theorem C14_set_height_max_full : forall (m : img) (n cur : N),
  c_height m = Some cur ->
  snd (istep m (IOp (OSetHeight n))) = Some RUnit /\
  c_height (fst (istep m (IOp (OSetHeight n)))) = Some (N.max cur n).
Proof. exact set_height_max. Qed.
Print Assumptions C14_set_height_max_full.

(* the same as the caller sees it, after ANY history of operations, reopenings, crashes and write faults: Height()
   reports some cur, and SetHeight(n); Height() returns no error and reports max cur n *)
Theorem C14_set_height_then_height_full : forall (h : list item) (n : N),
  exists cur, snd (step (final h) OHeight) = RHeight cur /\
    outputs (h ++ [IOp (OSetHeight n); IOp OHeight]) = (outputs h ++ [Some RUnit; Some (RHeight (N.max cur n))])%list.
Proof. exact set_height_then_height. Qed.
Print Assumptions C14_set_height_then_height_full.

(* the height record (8 bytes, little-endian): decoding what encodeHeight wrote gives the height back, for every
   uint64; hence different heights are different records *)
Theorem C14_height_codec_full : forall n : N, (n < 2 ^ 64)%N -> dec_height (enc_height n) = Some n.
Proof. exact height_codec. Qed.
Print Assumptions C14_height_codec_full.

Theorem C14_height_record_injective_full : forall a b : N,
  (a < 2 ^ 64)%N -> (b < 2 ^ 64)%N -> enc_height a = enc_height b -> a = b.
Proof. exact enc_height_inj. Qed.
Print Assumptions C14_height_record_injective_full.

(* a block save is exactly ONE atomic write - for every image, header, data and signature record (the model never
   inspects the data: whatever its size) - and header, data, signature record and hash index are all inside it *)
Theorem C14_save_one_batch_full : forall (m : img) hd d s,
  exists ps, fst (step m (OSave hd d s)) = [WBatch ps] /\
    In (Put (header_key (hheight hd)) (VHeader hd)) ps /\ In (Put (data_key (hheight hd)) (VData d)) ps /\
    In (Put (sig_key (hheight hd)) (VSig s)) ps /\ In (Put (index_key (hhash hd)) (VHeight (hheight hd))) ps.
Proof. exact save_one_batch. Qed.
Print Assumptions C14_save_one_batch_full.

(* ---- the hash index under key normalisation (GenerateKey and ds.NewKey both apply path.Clean) ---------- *)
(* what reaches the database for the index entry of a hash is key_clean ("/i/" ++ <text of the hash>).  With the
   code's text (uppercase hex) normalisation changes nothing: the key IS index_key hash, for every non-empty hash *)
Theorem C14_index_key_normal_full : forall hash : string,
  hash <> "" -> index_text_key (hex hash) = index_key hash.
Proof. exact index_key_normal. Qed.
Print Assumptions C14_index_key_normal_full.

(* and it identifies no two hashes - for ALL byte strings a caller can pass (any length, the empty one included):
   index entries of different hashes never alias one another, a read by one hash never sees the entry of another *)
Theorem C14_index_key_injective_after_normalisation_full : forall a b : string,
  index_text_key (hex a) = index_text_key (hex b) -> a = b.
Proof. exact index_key_clean_inj. Qed.
Print Assumptions C14_index_key_injective_after_normalisation_full.

(* why: ANY injective textual form of the hash that is always one clean path element (not empty, no '/', no '.')
   gives keys that normalisation keeps apart; the hypothesis is needed - ex_normalisation_identifies_slash_texts *)
Theorem C14_index_text_key_injective_full : forall enc : string -> string,
  (forall a b, enc a = enc b -> a = b) -> (forall a, one_element (enc a) = true) ->
  forall a b, index_text_key (enc a) = index_text_key (enc b) -> a = b.
Proof. exact index_text_key_inj. Qed.
Print Assumptions C14_index_text_key_injective_full.

(* a read by a hash that no header ever handed to SaveBlockData has - whatever bytes the caller passes, after any
   history of operations, reopenings, crashes and write faults - finds nothing: neither a block nor a signature *)
Theorem C14_by_hash_unwritten_not_found_full : forall (h : list item) (hash : string),
  hash_consistentb (saves h) = true ->
  (forall hd, In hd (saves h) -> hhash hd <> hash) ->
  snd (step (final h) (OGetByHash hash)) = RErr /\ snd (step (final h) (OGetSigByHash hash)) = RErr.
Proof. exact by_hash_unwritten. Qed.
Print Assumptions C14_by_hash_unwritten_not_found_full.

(* a signature read by hash returns the signature record of the block read by that hash, or not-found with it *)
Theorem C14_sig_by_hash_full : forall (h : list item) (hash : string),
  hash_consistentb (saves h) = true ->
  match snd (step (final h) (OGetSigByHash hash)) with
  | RSig s => exists hd d, snd (step (final h) (OGetByHash hash)) = RBlock hd d /\ hhash hd = hash /\
                           snd (step (final h) (OGetSig (hheight hd))) = RSig s
  | RErr => snd (step (final h) (OGetByHash hash)) = RErr
  | _ => False
  end.
Proof. exact sig_by_hash_sound. Qed.
Print Assumptions C14_sig_by_hash_full.

(* ---- non-vacuity: a concrete history meeting the hypotheses, with an overwrite at one height by a
   header of a different hash, a crash inside a save, a reopen, and the node's metadata keys ------- *)
Definition hA := {| hid := 1; hheight := 5; hhash := "aa" |}.
Definition hB := {| hid := 2; hheight := 5; hhash := "bb" |}.
Definition hC := {| hid := 3; hheight := 6; hhash := "cc" |}.
Definition hD := {| hid := 4; hheight := 6; hhash := "dd" |}.
Definition ex_history : list item :=
  [ IOp (OSave hA 1 1); IOp (OSetHeight 5); ICrash (OSave hB 2 2) 0; IOp (OGetByHash "aa");
    IOp (OSave hB 2 2); IReopen; IOp (OGetByHash "aa"); IOp (OGetByHash "bb"); ICrash (OSave hC 3 3) 1;
    IOp (OSetHeight 3); IOp OHeight; IOp (OSetMeta "last-submitted-header-height" 7); IOp (OGetMeta "d");
    (* write faults: a failed SetHeight is invisible, its retry writes; a fault armed on a no-op SetHeight is not met;
       a failed save, state update and metadata write leave the old values *)
    IFault (OSetHeight 9) 0; IOp OHeight; IOp (OSetHeight 9); IReopen; IOp OHeight; IFault (OSetHeight 4) 0;
    IFault (OSave hD 4 4) 0; IOp (OGetBlock 6); IFault (OUpdState 1) 0; IOp OGetState;
    IFault (OSetMeta "d" 2) 0; IOp (OGetMeta "d"); IFault (OSetMeta "d" 2) 1; IOp (OGetMeta "d") ].

Example ex_meets_hypothesis : hash_consistentb (saves ex_history) = true.
Proof. vm_compute. reflexivity. Qed.

Example ex_outputs :
  outputs ex_history =
  [ Some RUnit; Some RUnit; None; Some (RBlock hA 1); Some RUnit; None; Some RErr; Some (RBlock hB 2); None;
    Some RUnit; Some (RHeight 5); Some RUnit; Some RErr;
    Some RErr; Some (RHeight 5); Some RUnit; None; Some (RHeight 9); Some RUnit;
    Some RErr; Some (RBlock hC 3); Some RErr; Some RErr;
    Some RErr; Some RErr; Some RUnit; Some (RBytes 2) ].
Proof. vm_compute. reflexivity. Qed.

(* the hypotheses of the fault theorems are met: the fault of [IFault (OSetHeight 9) 0] is met after the first 13 items,
   the acknowledged retry is durable over the rest of the history *)
Example ex_fault_met : (0 < length (fst (step (final (firstn 13 ex_history)) (OSetHeight 9))))%nat.
Proof. vm_compute. constructor. Qed.
Example ex_ack : item_op (IOp (OSetHeight 9)) = Some (OSetHeight 9)
  /\ snd (istep (final (firstn 15 ex_history)) (IOp (OSetHeight 9))) = Some RUnit
  /\ (firstn 15 ex_history ++ IOp (OSetHeight 9) :: skipn 16 ex_history)%list = ex_history.
Proof. vm_compute. repeat split; reflexivity. Qed.

Example node_meta_keys_clean :
  forallb clean_meta ["d"; "l"; "last-submitted-header-height"; "last-submitted-data-height"; "rhb/12/h"; "rhb/12/d"] = true
  /\ forallb (fun k => negb (clean_meta k)) [""; "a//b"; "../h/1"; "a/"; "./x"] = true.
Proof. vm_compute. split; reflexivity. Qed.

(* key normalisation: doubled slashes and dot elements vanish, so two DIFFERENT texts with '/' in them can be one key
   (which is why a textual form of the hash must be one clean element: C14_index_text_key_injective_full); the hex
   text of a hash is one, its key is untouched, the empty hash has the key "/i" *)
Example ex_normalisation_identifies_slash_texts :
  index_text_key "ab//cd/ef" = index_text_key "ab/cd//ef" /\ "ab//cd/ef" <> "ab/cd//ef" /\
  index_text_key "/abcd" = index_text_key "abcd/" /\ index_text_key "ab/./cd" = index_text_key "ab///cd" /\
  one_element "ab//cd/ef" = false /\ one_element "" = false /\ one_element ".." = false.
Proof. vm_compute. repeat split; try reflexivity; discriminate. Qed.
Example ex_index_key_is_normal :
  index_text_key (hex "//.") = "/i/2F2F2E" /\ index_key "//." = "/i/2F2F2E" /\ one_element (hex "//.") = true /\
  index_text_key (hex "") = "/i" /\
  key_clean "/m/../h/1" = "/h/1" /\ key_clean "/" = "/" /\ key_clean "/a/b/../../.." = "/".
Proof. vm_compute. repeat split; reflexivity. Qed.
(* the hypotheses of C14_by_hash_unwritten_not_found_full are met: after ex_history the hash "ab" was never saved *)
Example ex_unwritten : forall hd, In hd (saves ex_history) -> hhash hd <> "ab".
Proof. intros hd H. vm_compute in H. repeat (destruct H as [<-|H]; [discriminate|]). contradiction. Qed.

(* the order of the encoded height records as byte strings is NOT the order of the heights (the low byte comes first):
   across a multiple of 256 it is wrong in both directions - which is why SetHeight must compare the decoded numbers,
   as the model does; on these very heights the model raises and does not lower *)
Example ex_record_order_is_not_height_order :
  lex_leb (enc_height 256) (enc_height 255) = true /\ (256 <=? 255)%N = false /\
  lex_leb (enc_height 65535) (enc_height 65536) = false /\ (65535 <=? 65536)%N = true /\
  lex_leb (enc_height 4294967296) (enc_height 4294967295) = true.
Proof. vm_compute. repeat split; reflexivity. Qed.
Example ex_set_height_across_byte_boundaries :
  outputs [ IOp (OSetHeight 255); IOp (OSetHeight 256); IOp OHeight; IOp (OSetHeight 255); IOp OHeight;
            IOp (OSetHeight 65536); IOp (OSetHeight 65535); IOp OHeight; IReopen;
            IOp (OSetHeight 4294967295); IOp (OSetHeight 4294967296); IOp OHeight;
            ICrash (OSetHeight 4294967297) 0; IOp OHeight; ICrash (OSetHeight 4294967297) 1; IOp OHeight;
            IOp (OSetHeight 18446744073709551615); IOp (OSetHeight 18446744073709551360); IOp OHeight ] =
  [ Some RUnit; Some RUnit; Some (RHeight 256); Some RUnit; Some (RHeight 256);
    Some RUnit; Some RUnit; Some (RHeight 65536); None;
    Some RUnit; Some RUnit; Some (RHeight 4294967296);
    None; Some (RHeight 4294967296); None; Some (RHeight 4294967297);
    Some RUnit; Some RUnit; Some (RHeight 18446744073709551615) ].
Proof. vm_compute. reflexivity. Qed.
Example ex_height_codec : enc_height 256 = [0; 1; 0; 0; 0; 0; 0; 0]%N /\ dec_height (enc_height 18446744073709551615) = Some 18446744073709551615%N
  /\ dec_height [1; 2; 3]%N = None.
Proof. vm_compute. repeat split; reflexivity. Qed.

(* THE CALLER'S OBJECTS.  SaveBlockData takes pointers and the reads hand pointers back; between two calls the caller
   may modify, in place, the header / data object it passed to its latest save or was given by its latest read
   (Model/StoreCaller.v: CMutSaved, CMutRead - what publishBlockInternal does between the early and the final save of
   a block).  For EVERY history with such modifications anywhere in it: what the store returns and the database it
   leaves are those of the calls alone; two callers making the same calls get the same results whatever they do to
   their objects; and the refinement theorem holds as it stands - every read returns what the latest acknowledged
   write STORED, never what the caller's object has become since. *)
From Verif Require Import Model.StoreCaller Proofs.StoreCallerProofs.
Theorem C14_caller_objects_invisible_full : forall h : list citem,
  coutputs h = outputs (erase h) /\ cfinal h = final (erase h).
Proof. exact caller_objects_invisible. Qed.
Print Assumptions C14_caller_objects_invisible_full.

Theorem C14_same_calls_same_results_full : forall h1 h2 : list citem,
  erase h1 = erase h2 -> coutputs h1 = coutputs h2 /\ cfinal h1 = cfinal h2.
Proof. exact same_calls_same_results. Qed.
Print Assumptions C14_same_calls_same_results_full.

Theorem C14_refines_under_caller_modifications_full : forall h : list citem,
  hash_consistentb (saves (erase h)) = true ->
  exists happened,
    coutputs h = snd (a_run a_init (erase h) happened) /\
    R (cfinal h) (fst (a_run a_init (erase h) happened)).
Proof. exact store_refines_caller. Qed.
Print Assumptions C14_refines_under_caller_modifications_full.

(* non-vacuity: the early save of hA, the caller sets another signature on the very object (hA' : same hash, other
   bytes) and other data, reads; reads and modifies what it was given, reads again; all reads return what was saved *)
Definition hA' := {| hid := 11; hheight := 5; hhash := "aa" |}.
Definition ex_caller_history : list citem :=
  [ CI (IOp (OSave hA 1 1)); CMutSaved (Some hA') (Some 2%N); CI (IOp (OGetBlock 5)); CI (IOp (OGetHeader 5));
    CMutRead (Some hA') None; CI (IOp (OGetByHash "aa")); CMutRead (Some hB) (Some 3%N); CI (IOp (OGetBlock 5));
    CI IReopen; CI (IOp (OGetBlock 5)) ].
Example ex_caller_outputs :
  coutputs ex_caller_history =
  [ Some RUnit; Some (RBlock hA 1); Some (RHeader hA); Some (RBlock hA 1); Some (RBlock hA 1); None; Some (RBlock hA 1) ]
  /\ modifications ex_caller_history = 3%nat
  /\ hash_consistentb (saves (erase ex_caller_history)) = true
  /\ c_saved (fst (crun c_init ex_caller_history)) = {| o_hdr := Some hA'; o_data := Some 2%N |}.
Proof. vm_compute. repeat split; reflexivity. Qed.

(* REFINEMENT FROM TRANSLATED CODE.  [step m (OSetHeight n)] and [step m (OSave h d s)] are what DefaultStore.SetHeight and
   DefaultStore.SaveBlockData do — the Go functions themselves (pkg/store/store.go, with Height, GetHeader, encodeHeight,
   decodeHeight inside them), translated from /repo's source on every run and evaluated by Model/GoLite.v against a
   scripted datastore whose calls are logged (Check/GoLiteStore.v, for ALL worlds).  For EVERY durable image:
   SetHeight puts the height record := n exactly when the model writes it (n numerically above the recorded height) and
   fails exactly when the model answers RErr; SaveBlockData performs, inside ONE datastore batch committed once and
   last, the primitive writes of [save_prims] — same keys, same order — and nothing outside the batch; a save that
   reports an error has committed nothing. *)
From Verif Require Proofs.GoLiteStoreRefine Check.GoLiteStore Model.GoLite.
Theorem C14_translated_set_height_refines_step_full : forall (m : img) (n : N),
  exists o, GoLiteStore.run_calls GoLiteStore.set_height_name (GoLiteStore.height_store (GoLiteStoreRefine.get_of m) true)
                                  [GoLiteStore.ctx; GoLite.VN n] = Some o /\
            flat_map GoLiteStoreRefine.direct_put (snd o) = GoLiteStoreRefine.model_puts (fst (step m (OSetHeight n))) /\
            (fst o = [GoLite.VErr true] <-> snd (step m (OSetHeight n)) = RErr).
Proof. exact GoLiteStoreRefine.translated_setheight_refines_step. Qed.
Print Assumptions C14_translated_set_height_refines_step_full.

Theorem C14_translated_save_refines_step_full : forall (m : img) (h : hdr) (d s : N),
  let w := GoLiteStoreRefine.saveworld_of m h in
  exists o, GoLiteStore.run_calls GoLiteStore.save_name (GoLiteStore.save_store w)
                                  [GoLiteStore.ctx; GoLiteStore.header_arg w; GoLiteStore.data_arg w; GoLiteStore.sig_arg] = Some o /\
            fst o = [GoLite.VNil] /\
            flat_map GoLiteStoreRefine.batch_shape (snd o) = map prim_shape (save_prims m h d s) /\
            flat_map GoLiteStoreRefine.direct_put (snd o) = [] /\
            filter GoLiteStoreRefine.is_commit (snd o) = [GoLiteStore.commit_call] /\
            List.last (snd o) GoLite.VUnit = GoLiteStore.commit_call.
Proof. exact GoLiteStoreRefine.translated_save_refines_step. Qed.
Print Assumptions C14_translated_save_refines_step_full.

Theorem C14_translated_failed_save_commits_nothing_full : forall w,
  fst (GoLiteStore.save_expect w) = [GoLite.VErr true] ->
  filter GoLiteStoreRefine.is_commit (snd (GoLiteStore.save_expect w)) = [] \/ GoLiteStore.v_commit_ok w = false.
Proof. exact GoLiteStoreRefine.failed_save_commits_nothing. Qed.
Print Assumptions C14_translated_failed_save_commits_nothing_full.
