(* Props/C12.v — wire encodings round-trip, hashes are stable, decoders are total.
   Statements only; every proof is [exact <lemma of Proofs/WireProofs.v>].

   Vocabulary (Model/Wire.v): [marshal_T v] is T.MarshalBinary (None = the error proto.Marshal returns for a
   chain id that is not UTF-8), [enc_T v] the bytes, [dec_T bs] is T.UnmarshalBinary on a fresh receiver
   (None = error).  Byte strings are [list N]; Go's nil and empty slices are the same value.
   [wf_T v] (Proofs/WireProofs.v) says exactly: integers fit in uint64, the chain id is valid UTF-8, every
   byte string (and every nested encoding) is shorter than 2^64 bytes, the time is (int64 seconds,
   0 <= nanos < 10^9), a present public key is in canonical form ([pk_canon k = Some k]).
   [pk_canon] — crypto.UnmarshalPublicKey followed by crypto.MarshalPublicKey — is universally quantified. *)
From Coq Require Import NArith ZArith List Bool.
From Verif Require Import Model.Wire Model.WireReuse Model.WireCache Model.WireStore Proofs.WireProofs Proofs.WireReuseProofs Proofs.WireCacheProofs Proofs.WireStoreProofs.
Import ListNotations.
Open Scope N_scope.

(* ---- varint, the base of everything ---- *)
Theorem C12_varint_roundtrip_full : forall n rest, n < two64 -> dec_varint (enc_varint n ++ rest) = Some (n, rest).
Proof. exact dec_enc_varint. Qed.
Print Assumptions C12_varint_roundtrip_full.

(* ---- encode then decode yields the same value: Header, Metadata, Data, State, Batch ---- *)
Theorem C12_header_roundtrip_full : forall h, wf_header h ->
  marshal_header h = Some (enc_header h) /\ dec_header (enc_header h) = Some h.
Proof. exact header_roundtrip. Qed.
Print Assumptions C12_header_roundtrip_full.

Theorem C12_metadata_roundtrip_full : forall m, wf_metadata m ->
  marshal_metadata m = Some (enc_metadata m) /\ dec_metadata (enc_metadata m) = Some m.
Proof. exact metadata_roundtrip. Qed.
Print Assumptions C12_metadata_roundtrip_full.

Theorem C12_data_roundtrip_full : forall d, wf_data d ->
  marshal_data d = Some (enc_data d) /\ dec_data (enc_data d) = Some d.
Proof. exact data_roundtrip. Qed.
Print Assumptions C12_data_roundtrip_full.

Theorem C12_state_roundtrip_full : forall s, wf_state s ->
  marshal_state s = Some (enc_state s) /\ dec_state (enc_state s) = Some s.
Proof. exact state_roundtrip. Qed.
Print Assumptions C12_state_roundtrip_full.

Theorem C12_batch_roundtrip_full : forall txs, Forall sz txs -> dec_batch (enc_batch txs) = Some txs.
Proof. exact batch_roundtrip. Qed.
Print Assumptions C12_batch_roundtrip_full.

(* the batch-cursor list (block/manager.go convertBatchDataToBytes / bytesToBatchData), entries < 2^32 bytes *)
Theorem C12_cursor_roundtrip_full : forall l, Forall (fun e => len e < two32) l -> dec_cursor (enc_cursor l) = Some l.
Proof. exact cursor_roundtrip. Qed.
Print Assumptions C12_cursor_roundtrip_full.

(* ---- SignedHeader / SignedData: exact round trip, header/data, signature and signer included, for every
   well-formed value and every public-key table.  (Before the repair fc1d21b of types/serialization.go a
   signer with an address but no key came back empty: see the Examples before_the_repair_* below.) ---- *)
Theorem C12_signed_header_roundtrip_full : forall pk_canon s, wf_signed_header pk_canon s ->
  marshal_signed_header s = Some (enc_signed_header s) /\
  dec_signed_header pk_canon (enc_signed_header s) = Some s.
Proof. exact signed_header_roundtrip. Qed.
Print Assumptions C12_signed_header_roundtrip_full.

Theorem C12_signed_data_roundtrip_full : forall pk_canon s, wf_signed_data pk_canon s ->
  marshal_signed_data s = Some (enc_signed_data s) /\
  dec_signed_data pk_canon (enc_signed_data s) = Some s.
Proof. exact signed_data_roundtrip. Qed.
Print Assumptions C12_signed_data_roundtrip_full.

(* ---- hashes and signatures survive the round trip, for ANY hash function and ANY verification function:
   the hash preimage, the signed payload, the signature and the public key of the decoded value are those
   of the original. ---- *)
Theorem C12_hash_and_signature_stable_full :
  forall (sha : bytes -> bytes) (verify : bytes -> bytes -> bytes -> bool) pk_canon s s',
  wf_signed_header pk_canon s -> dec_signed_header pk_canon (enc_signed_header s) = Some s' ->
  sha (header_hash_preimage (sh_header s')) = sha (header_hash_preimage (sh_header s)) /\
  verify (sg_pk (sh_signer s')) (header_sig_payload (sh_header s')) (sh_sig s') =
  verify (sg_pk (sh_signer s)) (header_sig_payload (sh_header s)) (sh_sig s).
Proof. exact hash_and_signature_stable. Qed.
Print Assumptions C12_hash_and_signature_stable_full.

Theorem C12_data_hash_and_signature_stable_full :
  forall (sha : bytes -> bytes) (verify : bytes -> bytes -> bytes -> bool) pk_canon s s',
  wf_signed_data pk_canon s -> dec_signed_data pk_canon (enc_signed_data s) = Some s' ->
  sha (data_hash_preimage (sd_data s')) = sha (data_hash_preimage (sd_data s)) /\
  sha (commitment_preimage (sd_data s')) = sha (commitment_preimage (sd_data s)) /\
  verify (sg_pk (sd_signer s')) (data_sig_payload (sd_data s')) (sd_sig s') =
  verify (sg_pk (sd_signer s)) (data_sig_payload (sd_data s)) (sd_sig s).
Proof. exact data_hash_and_signature_stable. Qed.
Print Assumptions C12_data_hash_and_signature_stable_full.

(* ---- the data commitment depends on the ordered transaction list only, and distinct lists have distinct
   preimages ---- *)
Theorem C12_commitment_full :
  (forall d1 d2, d_txs d1 = d_txs d2 -> commitment_preimage d1 = commitment_preimage d2) /\
  (forall d1 d2, Forall sz (d_txs d1) -> Forall sz (d_txs d2) ->
                 commitment_preimage d1 = commitment_preimage d2 -> d_txs d1 = d_txs d2).
Proof. exact (conj commitment_txs_only commitment_injective). Qed.
Print Assumptions C12_commitment_full.

(* ---- decoders are total and stable: arbitrary bytes either fail cleanly ([None]) or yield a value that
   re-encodes and decodes to itself.  Totality is by construction (every decoder is a Coq function);
   [sizes_*] only says the decoded byte strings are shorter than 2^64 bytes. ---- *)
Theorem C12_header_decode_stable_full : forall bs, dec_header bs = None \/
  exists h, dec_header bs = Some h /\
            (sizes_header h -> marshal_header h = Some (enc_header h) /\ dec_header (enc_header h) = Some h).
Proof. exact header_decode_total_stable. Qed.
Print Assumptions C12_header_decode_stable_full.

Theorem C12_metadata_decode_stable_full : forall bs, dec_metadata bs = None \/
  exists m, dec_metadata bs = Some m /\
            (sizes_metadata m -> marshal_metadata m = Some (enc_metadata m) /\ dec_metadata (enc_metadata m) = Some m).
Proof. exact metadata_decode_total_stable. Qed.
Print Assumptions C12_metadata_decode_stable_full.

Theorem C12_data_decode_stable_full : forall bs, dec_data bs = None \/
  exists d, dec_data bs = Some d /\
            (sizes_data d -> marshal_data d = Some (enc_data d) /\ dec_data (enc_data d) = Some d).
Proof. exact data_decode_total_stable. Qed.
Print Assumptions C12_data_decode_stable_full.

Theorem C12_batch_decode_stable_full : forall bs, dec_batch bs = None \/
  exists l, dec_batch bs = Some l /\ (Forall sz l -> dec_batch (enc_batch l) = Some l).
Proof. exact batch_decode_total_stable. Qed.
Print Assumptions C12_batch_decode_stable_full.
Theorem C12_state_decode_stable_full : forall bs, dec_state bs = None \/
  exists s, dec_state bs = Some s /\
            (sizes_state s -> marshal_state s = Some (enc_state s) /\ dec_state (enc_state s) = Some s).
Proof. exact state_decode_total_stable. Qed.
Print Assumptions C12_state_decode_stable_full.

(* for the signed types the key table must be idempotent: re-marshalling a parsed key gives bytes that parse
   to the same key (true of crypto.MarshalPublicKey/UnmarshalPublicKey; hypothesis, stated here) *)
Theorem C12_signed_header_decode_stable_full : forall pk_canon,
  (forall raw c, pk_canon raw = Some c -> pk_canon c = Some c) ->
  forall bs, dec_signed_header pk_canon bs = None \/
  exists s, dec_signed_header pk_canon bs = Some s /\
            (sizes_signed_header s -> marshal_signed_header s = Some (enc_signed_header s) /\
                                      dec_signed_header pk_canon (enc_signed_header s) = Some s).
Proof. exact signed_header_decode_total_stable. Qed.
Print Assumptions C12_signed_header_decode_stable_full.

Theorem C12_signed_data_decode_stable_full : forall pk_canon,
  (forall raw c, pk_canon raw = Some c -> pk_canon c = Some c) ->
  forall bs, dec_signed_data pk_canon bs = None \/
  exists s, dec_signed_data pk_canon bs = Some s /\
            (sizes_signed_data s -> marshal_signed_data s = Some (enc_signed_data s) /\
                                    dec_signed_data pk_canon (enc_signed_data s) = Some s).
Proof. exact signed_data_decode_total_stable. Qed.
Print Assumptions C12_signed_data_decode_stable_full.

(* the fuel of the three loops of the model is never what makes a decoder fail: with more fuel than input
   bytes the result does not depend on the fuel (message loop, group-skipping loop, cursor loop) *)
Theorem C12_fuel_full :
  (forall f1 f2 bs, (length bs <= f1)%nat -> (length bs <= f2)%nat -> parse_fuel f1 bs = parse_fuel f2 bs) /\
  (forall f1 f2 st lvl bs, (length bs < f1)%nat -> (length bs < f2)%nat -> skip_group f1 st lvl bs = skip_group f2 st lvl bs) /\
  (forall f1 f2 bs, (length bs <= f1)%nat -> (length bs <= f2)%nat -> dec_cursor_fuel f1 bs = dec_cursor_fuel f2 bs).
Proof. exact (conj parse_fuel_indep (conj skip_group_fuel_indep cursor_fuel_indep)). Qed.
Print Assumptions C12_fuel_full.
(* Stability of the cursor list (decode bs = Some l -> decode (encode l) = Some l) is NOT proved: tested only. *)

(* ---- decoding into a receiver that is NOT fresh (Model/WireReuse.v).  [into_T r bs] is
   r.UnmarshalBinary(bs) for an arbitrary receiver r: (the receiver afterwards, no error returned).
   The value a used receiver holds after a successful decode is the value a fresh receiver would hold, and a
   failed decode is reported as such: Header, Metadata, Data, State (block-store path) leave the receiver
   untouched on failure; a SignedHeader whose public key does not parse returns the error with Header and
   Signature already stored (Example signed_header_half_written_on_key_error). ---- *)
Theorem C12_decode_independent_of_receiver_full :
  (forall r bs, into_header r bs = match dec_header bs with Some v => (v, true) | None => (r, false) end) /\
  (forall r bs, into_metadata r bs = match dec_metadata bs with Some v => (v, true) | None => (r, false) end) /\
  (forall r bs, into_data r bs = match dec_data bs with Some v => (v, true) | None => (r, false) end) /\
  (forall r bs, into_state r bs = match dec_state bs with Some v => (v, true) | None => (r, false) end) /\
  (forall pk_canon r bs, match dec_signed_header pk_canon bs with
                         | Some s => into_signed_header pk_canon r bs = (s, true)
                         | None => snd (into_signed_header pk_canon r bs) = false end).
Proof. exact decode_independent_of_receiver. Qed.
Print Assumptions C12_decode_independent_of_receiver_full.

(* SignedData: the same, under the guard that the bytes carry a Data field (field 1).  What is missing:
   SignedData.FromProto skips Data when the field is absent (serialization.go:383), so such bytes leave the
   receiver's OLD Data in place (second theorem: the exact result).  Every encoding of a value carries
   the field (third theorem), so encode-then-decode is not affected; this is a dependence on the receiver
   for hand-made bytes only and is not claimed as a violation of C12. *)
Theorem C12_signed_data_decode_independent_of_receiver_partial : forall pk_canon r bs,
  sd_data_present bs = true ->
  match dec_signed_data pk_canon bs with
  | Some s => into_signed_data pk_canon r bs = (s, true)
  | None => snd (into_signed_data pk_canon r bs) = false
  end.
Proof. exact into_signed_data_fresh. Qed.
Print Assumptions C12_signed_data_decode_independent_of_receiver_partial.

Theorem C12_signed_data_absent_data_field_full : forall pk_canon r bs,
  sd_data_present bs = false ->
  match dec_signed_data pk_canon bs with
  | Some s => into_signed_data pk_canon r bs = (sd_with_data s (sd_data r), true)
  | None => snd (into_signed_data pk_canon r bs) = false
  end.
Proof. exact into_signed_data_absent. Qed.
Print Assumptions C12_signed_data_absent_data_field_full.

Theorem C12_signed_data_encodings_carry_data_full : forall pk_canon s,
  wf_signed_data pk_canon s -> sd_data_present (enc_signed_data s) = true.
Proof. exact sd_data_present_enc. Qed.
Print Assumptions C12_signed_data_encodings_carry_data_full.

(* ---- receiver-reuse histories.  [reuse_history ops r0 live steps]: the receiver starts as ANY value r0
   ([live]: it is a copy of a value somebody still holds), the byte strings are decoded into it one after
   the other, after every successful decode the caller copies the value out; the observation after each
   step is (no error?, the receiver, every value copied out so far).
   For every list of well-formed values, decoding their encodings one after the other into the same receiver:
   every decode succeeds, the receiver holds the value that was encoded, and the values obtained before are
   all still there, each equal to the value that was encoded ([value_obs]) — whatever the receiver held
   before.  In the model a decoded value is a mathematical value and cannot change; that is the point: the
   harness compares, step by step, what the values copied out of the REAL receiver look like with this. ---- *)
Theorem C12_reuse_roundtrip_full :
  (forall r0 live vs, Forall wf_header vs ->
     map obs_deep (reuse_history ops_header r0 live (map enc_header vs)) = value_obs (if live then [r0] else []) vs) /\
  (forall r0 live vs, Forall wf_metadata vs ->
     map obs_deep (reuse_history ops_metadata r0 live (map enc_metadata vs)) = value_obs (if live then [r0] else []) vs) /\
  (forall r0 live vs, Forall wf_data vs ->
     map obs_deep (reuse_history ops_data r0 live (map enc_data vs)) = value_obs (if live then [r0] else []) vs) /\
  (forall r0 live vs, Forall wf_state vs ->
     map obs_deep (reuse_history ops_state r0 live (map enc_state vs)) = value_obs (if live then [r0] else []) vs) /\
  (forall pk_canon r0 live vs, Forall (wf_signed_header pk_canon) vs ->
     map obs_deep (reuse_history (ops_signed_header pk_canon) r0 live (map enc_signed_header vs)) = value_obs (if live then [r0] else []) vs) /\
  (forall pk_canon r0 live vs, Forall (wf_signed_data pk_canon) vs ->
     map obs_deep (reuse_history (ops_signed_data pk_canon) r0 live (map enc_signed_data vs)) = value_obs (if live then [r0] else []) vs).
Proof. exact reuse_roundtrip_all. Qed.
Print Assumptions C12_reuse_roundtrip_full.

(* for ARBITRARY byte strings (failed decodes and half-written receivers included) and every wire type:
   a value obtained earlier is never changed by a later decode into the same receiver — in any run, the
   list of kept values of a later observation extends that of an earlier one *)
Theorem C12_earlier_values_unchanged_full : forall T (ops : reuse_ops T) r0 live steps l1 o1 l2,
  reuse_history ops r0 live steps = l1 ++ o1 :: l2 ->
  forall o2, In o2 l2 -> exists l, obs_kept o2 = obs_kept o1 ++ l.
Proof. exact earlier_values_unchanged. Qed.
Print Assumptions C12_earlier_values_unchanged_full.

(* the kept values above are copies that share no struct with the receiver.  A PLAIN Go value copy
   ([kept := *r]) is the same thing for the types without a pointer field (Header, SignedHeader, Metadata,
   State) ... *)
Theorem C12_plain_copies_full : forall T (into : T -> bytes -> T * bool) r0 live steps o,
  In o (reuse_history (no_pointer into) r0 live steps) -> obs_shallow o = obs_kept o.
Proof. exact plain_copies_no_pointer. Qed.
Print Assumptions C12_plain_copies_full.

(* ... and for Data / SignedData it differs from it in the Metadata at most: types.Data embeds *Metadata,
   a plain copy shares that struct with the receiver, and Data.FromProto (serialization.go:264-270) writes
   through a non-nil receiver pointer (Example plain_data_copy_sees_later_metadata: what the pinned tree
   does; the harness compares the plain copies with the model, the Go oracle judges the struct-level copies
   only — see checks/reg_c12.py) *)
Theorem C12_plain_copies_of_data_full :
  (forall r0 live steps o, In o (reuse_history ops_data r0 live steps) ->
     map (op_strip ops_data) (obs_shallow o) = map (op_strip ops_data) (obs_kept o)) /\
  (forall pk_canon r0 live steps o, In o (reuse_history (ops_signed_data pk_canon) r0 live steps) ->
     map (op_strip (ops_signed_data pk_canon)) (obs_shallow o) = map (op_strip (ops_signed_data pk_canon)) (obs_kept o)).
Proof. exact plain_copies_data. Qed.
Print Assumptions C12_plain_copies_of_data_full.

(* ---- the cache-file path (Model/WireCache.v; /repo/pkg/cache/cache.go SaveToDisk / LoadFromDisk).  A cache is
   three maps (items by height and — only after a load — by string, seen hashes, DA-included heights); the
   folder is four files; gob stores every item as its MarshalBinary bytes and rebuilds it with UnmarshalBinary
   on a new value (the codecs of the theorems above).  [cache_eq a b]: the two caches agree on every key of
   every map (nothing Get/IsSeen/GetDAIncludedHeight or a later save can tell apart; Go maps have no order).
   [items_wf wf c]: every item held by c is well formed (for such items MarshalBinary cannot fail).

   SaveToDisk then LoadFromDisk into a new cache: the save succeeds; the folder afterwards is the same WHATEVER
   IT HELD BEFORE ([d'] does not depend on [d0]: every one of the four files is replaced on every save, an
   empty map included); the load succeeds and yields the cache that was saved. ---- *)
Theorem C12_cache_file_roundtrip_full :
  (forall pk_canon (c : ccache wsigned_header), items_wf (wf_signed_header pk_canon) c ->
     exists d', (forall d0, save sh_enc c d0 = (d', true)) /\
                exists c', load_fresh (dec_signed_header pk_canon) d' = (c', true) /\ cache_eq c' c) /\
  (forall (c : ccache wdata), items_wf wf_data c ->
     exists d', (forall d0, save data_enc c d0 = (d', true)) /\
                exists c', load_fresh dec_data d' = (c', true) /\ cache_eq c' c).
Proof. exact cache_file_roundtrip_all. Qed.
Print Assumptions C12_cache_file_roundtrip_full.

(* histories over ONE folder.  [cstep] is one step (SetItem / DeleteItem / SetSeen / SetDAIncluded on the current
   cache object, SaveToDisk, restart = new object + LoadFromDisk, new object without load, LoadFromDisk into the
   current object); [cexec] runs a list of steps.  From ANY state [st] (any cache object with well-formed items,
   any folder content — whatever earlier saves or anything else left there): save; then any steps that are not
   a save (deleting items, new objects, loads, ...); then a restart.  The save and the restart's load succeed and
   the loaded cache is the cache as it was when it was saved. *)
Theorem C12_cache_load_returns_last_save_full :
  (forall pk_canon (st : cstate wsigned_header) mid,
     items_wf (wf_signed_header pk_canon) (cs_cache st) -> forallb (fun o => negb (is_save o)) mid = true ->
     snd (cstep sh_enc (dec_signed_header pk_canon) st OSave) = true /\
     let st3 := cexec sh_enc (dec_signed_header pk_canon) (fst (cstep sh_enc (dec_signed_header pk_canon) st OSave)) mid in
     snd (cstep sh_enc (dec_signed_header pk_canon) st3 OLoad) = true /\
     cache_eq (cs_cache (fst (cstep sh_enc (dec_signed_header pk_canon) st3 OLoad))) (cs_cache st)) /\
  (forall (st : cstate wdata) mid,
     items_wf wf_data (cs_cache st) -> forallb (fun o => negb (is_save o)) mid = true ->
     snd (cstep data_enc dec_data st OSave) = true /\
     let st3 := cexec data_enc dec_data (fst (cstep data_enc dec_data st OSave)) mid in
     snd (cstep data_enc dec_data st3 OLoad) = true /\
     cache_eq (cs_cache (fst (cstep data_enc dec_data st3 OLoad))) (cs_cache st)).
Proof. exact cache_load_returns_last_save_all. Qed.
Print Assumptions C12_cache_load_returns_last_save_full.

(* the same with the hypothesis on the INPUTS of the history only: a node that starts with a new cache and no
   folder and only ever stores well-formed items ([op_wf]).  After ANY steps [pre] — saves into the folder,
   restarts, merges included — a save succeeds, and a restart after any save-free steps [mid] gets back the
   cache as it was saved (items that were loaded from the folder earlier are covered: the invariant
   "every item in the cache and every item in the folder survives the trip through its bytes" is kept by
   every step, Proofs/WireCacheProofs.v cstep_good). *)
Theorem C12_cache_history_full :
  (forall pk_canon pre mid, Forall (op_wf (wf_signed_header pk_canon)) pre -> forallb (fun o => negb (is_save o)) mid = true ->
     let st := cexec sh_enc (dec_signed_header pk_canon) {| cs_cache := cempty _; cs_dir := dir_none |} pre in
     snd (cstep sh_enc (dec_signed_header pk_canon) st OSave) = true /\
     let st3 := cexec sh_enc (dec_signed_header pk_canon) (fst (cstep sh_enc (dec_signed_header pk_canon) st OSave)) mid in
     snd (cstep sh_enc (dec_signed_header pk_canon) st3 OLoad) = true /\
     cache_eq (cs_cache (fst (cstep sh_enc (dec_signed_header pk_canon) st3 OLoad))) (cs_cache st)) /\
  (forall pre mid, Forall (op_wf wf_data) pre -> forallb (fun o => negb (is_save o)) mid = true ->
     let st := cexec data_enc dec_data {| cs_cache := cempty _; cs_dir := dir_none |} pre in
     snd (cstep data_enc dec_data st OSave) = true /\
     let st3 := cexec data_enc dec_data (fst (cstep data_enc dec_data st OSave)) mid in
     snd (cstep data_enc dec_data st3 OLoad) = true /\
     cache_eq (cs_cache (fst (cstep data_enc dec_data st3 OLoad))) (cs_cache st)).
Proof. exact cache_history_all. Qed.
Print Assumptions C12_cache_history_full.

(* [cache_eq] is what the getters see, and the observation list [crun] that the harness compares step by step is
   the list of the states of [cexec] (any codec) *)
Theorem C12_cache_observations_full :
  (forall T (a b : ccache T), cache_eq a b ->
     (forall h, get_item a h = get_item b h) /\ (forall s, is_seen a s = is_seen b s) /\ (forall s, da_height a s = da_height b s)) /\
  (forall T enc dec ph ps ops (st : cstate T) pre o post, ops = pre ++ o :: post ->
     nth_error (crun enc dec ph ps st ops) (length pre) =
     Some (cobserve ph ps (fst (cstep enc dec (cexec enc dec st pre) o)) (snd (cstep enc dec (cexec enc dec st pre) o)))).
Proof. exact (conj (@cache_eq_getters) (@crun_nth)). Qed.
Print Assumptions C12_cache_observations_full.

(* ---- the block-store path (Model/WireStore.v; /repo/pkg/store/store.go UpdateState / GetState / SaveBlockData /
   GetHeader / GetBlockData / GetSignature).  The node keeps ONE store object over ONE datastore and reads the same
   keys again and again.  [sstep pk db o] is one call: (the datastore afterwards, what the call returned);
   [sexec] runs a list of calls; [store_history pk d0 ops] is the list of (result, datastore) after every call of
   a history that starts with a store opened over a datastore holding ANY bytes [d0].

   A read (and a reopen: a new store object over the same datastore) leaves the datastore as it is; so does a
   write that fails; and a read gives the same answer however many reads and reopens happened before it.  In the
   model this is by construction — the state of the machine is the datastore, nothing a read returned earlier and
   nothing a caller does to a returned value is an input of a later step; that IS the claim about the code: the
   harness overwrites every byte slice of every value a call returned (and of every value passed to a write)
   right after the call, and the real store's later answers are compared with this machine step by step. ---- *)
Theorem C12_store_reads_pure_full : forall pk_canon db,
  (forall o, is_write o = false -> fst (sstep pk_canon db o) = db) /\
  (forall mid, forallb (fun o => negb (is_write o)) mid = true -> sexec pk_canon db mid = db) /\
  (forall mid o, forallb (fun o => negb (is_write o)) mid = true ->
                 snd (sstep pk_canon (sexec pk_canon db mid) o) = snd (sstep pk_canon db o)) /\
  (forall o, snd (sstep pk_canon db o) = RDone false -> fst (sstep pk_canon db o) = db).
Proof. exact store_reads_pure_all. Qed.
Print Assumptions C12_store_reads_pure_full.

(* what a read returns is a function of the bytes stored under the key(s) it reads, of nothing else *)
Theorem C12_store_reads_from_stored_bytes_full : forall pk_canon a b,
  (db_state a = db_state b -> get_state a = get_state b) /\
  (forall h, mget N.eqb (db_headers a) h = mget N.eqb (db_headers b) h -> get_header pk_canon a h = get_header pk_canon b h) /\
  (forall h, mget N.eqb (db_headers a) h = mget N.eqb (db_headers b) h ->
             mget N.eqb (db_datas a) h = mget N.eqb (db_datas b) h -> get_block pk_canon a h = get_block pk_canon b h) /\
  (forall h, mget N.eqb (db_sigs a) h = mget N.eqb (db_sigs b) h -> get_sig a h = get_sig b h).
Proof. exact reads_from_stored_bytes. Qed.
Print Assumptions C12_store_reads_from_stored_bytes_full.

(* the state: from ANY datastore, UpdateState of a well-formed state succeeds, and after ANY calls that are not
   an UpdateState — GetState calls whose results the caller then writes into, reopens, block saves, failed or
   not — GetState returns exactly that state *)
Theorem C12_store_state_roundtrip_full : forall pk_canon db v mid, wf_state v ->
  forallb (fun o => negb (is_update_state o)) mid = true ->
  snd (sstep pk_canon db (SUpdateState v)) = RDone true /\
  snd (sstep pk_canon (sexec pk_canon (fst (sstep pk_canon db (SUpdateState v))) mid) SGetState) = RState (Some v).
Proof. exact state_read_returns_last_write. Qed.
Print Assumptions C12_store_state_roundtrip_full.

(* blocks: from ANY datastore, SaveBlockData of a well-formed signed header and data succeeds, and after ANY calls
   that do not save a block of the same height, GetHeader / GetBlockData / GetSignature at that height return
   exactly the header, the data and the signature that were saved *)
Theorem C12_store_block_roundtrip_full : forall pk_canon db sh d sg mid, wf_signed_header pk_canon sh -> wf_data d ->
  let h := h_height (sh_header sh) in
  forallb (fun o => negb (saves_height h o)) mid = true ->
  snd (sstep pk_canon db (SSaveBlock sh d sg)) = RDone true /\
  let db' := sexec pk_canon (fst (sstep pk_canon db (SSaveBlock sh d sg))) mid in
  snd (sstep pk_canon db' (SGetHeader h)) = RHeader (Some sh) /\
  snd (sstep pk_canon db' (SGetBlock h)) = RBlock (Some (sh, d)) /\
  snd (sstep pk_canon db' (SGetSig h)) = RSig (Some sg).
Proof. exact block_read_returns_last_write. Qed.
Print Assumptions C12_store_block_roundtrip_full.

(* the same about the observation list the harness compares, with hypotheses on the INPUTS of the history only:
   any initial datastore content, any calls before, the write of a well-formed value, calls that do not write the
   same key, the read, anything after: the observation at the read's position is the value that was written *)
Theorem C12_store_history_full :
  (forall pk_canon d0 pre v mid post, wf_state v ->
     forallb (fun o => negb (is_update_state o)) mid = true ->
     exists db, nth_error (store_history pk_canon d0 (pre ++ SUpdateState v :: mid ++ SGetState :: post)) (length pre + S (length mid)) =
                Some (RState (Some v), db)) /\
  (forall pk_canon d0 pre sh d sg mid post, wf_signed_header pk_canon sh -> wf_data d ->
     let h := h_height (sh_header sh) in
     forallb (fun o => negb (saves_height h o)) mid = true ->
     forall rd want, (rd = SGetHeader h /\ want = RHeader (Some sh)) \/ (rd = SGetBlock h /\ want = RBlock (Some (sh, d))) \/
                     (rd = SGetSig h /\ want = RSig (Some sg)) ->
     exists db, nth_error (store_history pk_canon d0 (pre ++ SSaveBlock sh d sg :: mid ++ rd :: post)) (length pre + S (length mid)) =
                Some (want, db)).
Proof. exact (conj store_history_state store_history_block). Qed.
Print Assumptions C12_store_history_full.

(* the observation list is the list of the steps of [sexec] *)
Theorem C12_store_observations_full : forall pk_canon ops db pre o post, ops = pre ++ o :: post ->
  nth_error (srun pk_canon db ops) (length pre) =
  Some (snd (sstep pk_canon (sexec pk_canon db pre) o), fst (sstep pk_canon (sexec pk_canon db pre) o)).
Proof. exact srun_nth. Qed.
Print Assumptions C12_store_observations_full.

(* ---- golden vectors: the model reproduces, byte for byte, encodings recorded from the pinned tree
   (harness/c12/golden_c12.json; the Go side re-checks bytes and SHA-256 hashes on every run) ---- *)
Definition g_header_v : wheader := {| h_version := {| v_block := 11312320731339805339%N; v_app := 126223181233767173%N |}; h_height := 7288491879053759085%N; h_time := 68%N; h_last_header := []%N; h_last_commit := [8;229;138;118;212;60;111;95]%N; h_data_hash := [0;0;0]%N; h_consensus := [34;6;243;166;127;207]%N; h_app_hash := []%N; h_last_results := [141;25;231;222;10;124]%N; h_proposer := [130;155;14;94;233;115]%N; h_validator := []%N; h_chain := [116;101;115;116;45;99;104;97;105;110]%N |}.
Definition g_header_bytes : bytes := [10;21;8;155;165;175;198;209;248;219;254;156;1;16;133;134;239;190;136;234;155;224;1;16;237;164;198;186;247;151;251;146;101;24;68;42;8;8;229;138;118;212;60;111;95;50;3;0;0;0;58;6;34;6;243;166;127;207;74;6;141;25;231;222;10;124;82;6;130;155;14;94;233;115;98;10;116;101;115;116;45;99;104;97;105;110]%N.
Definition g_sh_v : wsigned_header := {| sh_header := {| h_version := {| v_block := 18446744073709551615%N; v_app := 13037174249887988435%N |}; h_height := 267966%N; h_time := 2760858361379089231%N; h_last_header := [27;64;188;229;208;54;181]%N; h_last_commit := [204;23;201;64;186;206;197]%N; h_data_hash := [1;214;91;32]%N; h_consensus := [94;204;134]%N; h_app_hash := [35;219;121;54;77]%N; h_last_results := [229;182;212;107;3;51;170;201]%N; h_proposer := [132;183;38;67]%N; h_validator := [125;147;185;31]%N; h_chain := [97;0;98]%N |}; sh_sig := [206;254;87]%N; sh_signer := {| sg_addr := [251;235;69;91;76;115;131;81;84;241;66;243;142;49;148;239;234;214;84;131;252;255;41;166;39;84;213;48;165;177;146;76]%N; sg_pk := [8;1;18;32;146;103;42;244;127;87;90;149;224;143;21;239;209;181;104;83;93;205;226;189;54;86;253;29;106;199;99;116;81;199;177;0]%N |} |}.
Definition g_sh_bytes : bytes := [10;101;10;22;8;255;255;255;255;255;255;255;255;255;1;16;211;245;197;187;128;157;214;246;180;1;16;190;173;16;24;207;214;171;137;213;193;162;168;38;34;7;27;64;188;229;208;54;181;42;7;204;23;201;64;186;206;197;50;4;1;214;91;32;58;3;94;204;134;66;5;35;219;121;54;77;74;8;229;182;212;107;3;51;170;201;82;4;132;183;38;67;90;4;125;147;185;31;98;3;97;0;98;18;3;206;254;87;26;72;10;32;251;235;69;91;76;115;131;81;84;241;66;243;142;49;148;239;234;214;84;131;252;255;41;166;39;84;213;48;165;177;146;76;18;36;8;1;18;32;146;103;42;244;127;87;90;149;224;143;21;239;209;181;104;83;93;205;226;189;54;86;253;29;106;199;99;116;81;199;177;0]%N.
Definition g_meta_v : wmetadata := {| m_chain := [97;0;98]%N; m_height := 17176452510144824575%N; m_time := 62%N; m_last := []%N |}.
Definition g_meta_bytes : bytes := [10;3;97;0;98;16;255;137;178;132;218;145;193;175;238;1;24;62]%N.
Definition g_data_v : wdata := {| d_meta := None; d_txs := [[2;252;20]%N; [116;94;144;65]%N] |}.
Definition g_data_bytes : bytes := [18;3;2;252;20;18;4;116;94;144;65]%N.
Definition g_state_v : wstate := {| s_version := {| v_block := 69639768948403%N; v_app := 16383%N |}; s_chain := [240;159;152;128;120]%N; s_initial := 7405429594614325029%N; s_last_height := 104%N; s_time := ((-62135596800)%Z, 0%Z); s_da := 77486213366989959%N; s_last_results := []%N; s_app := []%N |}.
Definition g_state_bytes : bytes := [10;11;8;179;253;194;173;228;234;15;16;255;127;18;5;240;159;152;128;120;24;165;190;155;225;176;223;215;226;102;32;104;42;11;8;128;146;184;195;152;254;255;255;255;1;48;135;137;235;245;206;169;210;137;1]%N.
Definition g_cursor_v : (list bytes) := [[94;162;27;233]%N; [252;83;99;242;235]%N].
Definition g_cursor_bytes : bytes := [4;0;0;0;94;162;27;233;5;0;0;0;252;83;99;242;235]%N.

Example C12_golden_header : marshal_header g_header_v = Some g_header_bytes /\ dec_header g_header_bytes = Some g_header_v.
Proof. vm_compute. split; reflexivity. Qed.
Example C12_golden_metadata : marshal_metadata g_meta_v = Some g_meta_bytes /\ dec_metadata g_meta_bytes = Some g_meta_v.
Proof. vm_compute. split; reflexivity. Qed.
Example C12_golden_data : marshal_data g_data_v = Some g_data_bytes /\ dec_data g_data_bytes = Some g_data_v.
Proof. vm_compute. split; reflexivity. Qed.
Example C12_golden_state : marshal_state g_state_v = Some g_state_bytes /\ dec_state g_state_bytes = Some g_state_v.
Proof. vm_compute. split; reflexivity. Qed.
Example C12_golden_cursor : enc_cursor g_cursor_v = g_cursor_bytes /\ dec_cursor g_cursor_bytes = Some g_cursor_v.
Proof. vm_compute. split; reflexivity. Qed.
Example C12_golden_signed_header :
  marshal_signed_header g_sh_v = Some g_sh_bytes /\
  dec_signed_header (fun k => Some k) g_sh_bytes = Some g_sh_v.
Proof. vm_compute. split; reflexivity. Qed.

(* ---- non-vacuity: the hypotheses are met by concrete non-trivial values ---- *)
Example ex_header : wheader :=
  {| h_version := {| v_block := 1; v_app := 18446744073709551615 |}; h_height := 300; h_time := 0;
     h_last_header := [1;2;3]; h_last_commit := []; h_data_hash := [255]; h_consensus := []; h_app_hash := [0];
     h_last_results := []; h_proposer := [9;9]; h_validator := []; h_chain := [99; 49; 50; 195; 169] |}.
Example ex_header_wf : wf_header ex_header.
Proof. unfold wf_header, wf_version, sz, len, two64; cbn; repeat split; try reflexivity. Qed.
Example ex_header_bytes :
  enc_header ex_header = [10;13;8;1;16;255;255;255;255;255;255;255;255;255;1;16;172;2;34;3;1;2;3;50;1;255;66;1;0;82;2;9;9;98;5;99;49;50;195;169].
Proof. vm_compute. reflexivity. Qed.
(* the defect repaired by fc1d21b, kept as a record: with the OLD glue a signer with an address and no key was
   written as the empty signer and read back empty; with the repaired glue it survives; the signer with
   neither key nor address keeps its bytes (1a 00) *)
Definition old_signer_to_pb (s : wsigner) : wsigner := if is_nil (sg_pk s) then signer0 else s.
Definition old_signer_from_pb (pk_canon : bytes -> option bytes) (o : option wsigner) : option wsigner :=
  match o with
  | None => Some signer0
  | Some s => if is_nil (sg_pk s) then Some signer0
              else match pk_canon (sg_pk s) with Some c => Some {| sg_addr := sg_addr s; sg_pk := c |} | None => None end
  end.
Definition lone_address : wsigner := {| sg_addr := [7]; sg_pk := [] |}.
Example before_the_repair_signer_address_lost :
  old_signer_from_pb (fun k => Some k) (Some (old_signer_to_pb lone_address)) = Some signer0 /\ signer0 <> lone_address.
Proof. split; [vm_compute; reflexivity | discriminate]. Qed.
Example after_the_repair_signer_address_kept :
  dec_signed_header (fun k => Some k) (enc_signed_header {| sh_header := header0; sh_sig := []; sh_signer := lone_address |}) =
  Some {| sh_header := header0; sh_sig := []; sh_signer := lone_address |} /\
  dec_signed_data (fun k => Some k) (enc_signed_data {| sd_data := data0; sd_sig := []; sd_signer := lone_address |}) =
  Some {| sd_data := data0; sd_sig := []; sd_signer := lone_address |}.
Proof. vm_compute. split; reflexivity. Qed.
Example empty_signer_bytes_unchanged :
  enc_signed_header {| sh_header := header0; sh_sig := []; sh_signer := signer0 |} = [10;2;10;0; 26;0] /\
  enc_signed_data {| sd_data := data0; sd_sig := []; sd_signer := signer0 |} = [10;0; 26;0] /\
  enc_signer (old_signer_to_pb signer0) = enc_signer (signer_to_pb signer0).
Proof. vm_compute. repeat split; reflexivity. Qed.
(* decoding is not only defined on canonical input: merged duplicate sub-message, unknown group, last-wins *)
Example ex_noncanonical_decode :
  dec_header [10;2;8;5; 16;1; 11;8;1;12; 10;2;16;6; 16;2] =
  Some {| h_version := {| v_block := 5; v_app := 6 |}; h_height := 2; h_time := 0; h_last_header := [];
          h_last_commit := []; h_data_hash := []; h_consensus := []; h_app_hash := []; h_last_results := [];
          h_proposer := []; h_validator := []; h_chain := [] |}.
Proof. vm_compute. reflexivity. Qed.
Example ex_rejects : dec_header [98;1;255] = None /\ dec_header [0;0] = None /\ dec_header [16] = None /\
                     dec_header [16;255;255;255;255;255;255;255;255;255;2] = None.
Proof. vm_compute. repeat split; reflexivity. Qed.

(* ---- receiver reuse: non-vacuity and the corners of the pinned tree ---- *)
Definition ex_header2 : wheader :=
  {| h_version := {| v_block := 2; v_app := 0 |}; h_height := 301; h_time := 7;
     h_last_header := [4;5;6]; h_last_commit := [1]; h_data_hash := [254]; h_consensus := []; h_app_hash := [1];
     h_last_results := []; h_proposer := [8;8]; h_validator := [3]; h_chain := [99; 49; 50] |}.
Example ex_reuse_history :
  reuse_history ops_header ex_header2 true [enc_header ex_header; [16]; enc_header ex_header2] =
  [ (true, ex_header, [ex_header2; ex_header], [ex_header2; ex_header]);
    (false, ex_header, [ex_header2; ex_header], [ex_header2; ex_header]);
    (true, ex_header2, [ex_header2; ex_header; ex_header2], [ex_header2; ex_header; ex_header2]) ].
Proof. vm_compute. reflexivity. Qed.
Definition ex_meta (n : N) : wmetadata := {| m_chain := [99]; m_height := n; m_time := 0; m_last := [n] |}.
Definition ex_data (n : N) : wdata := {| d_meta := Some (ex_meta n); d_txs := [[n]] |}.
(* what the pinned tree does with a PLAIN copy of a Data: after the second decode the first plain copy shows
   the second value's metadata (txs untouched); the struct-level copy is unchanged *)
Example plain_data_copy_sees_later_metadata :
  reuse_history ops_data data0 false [enc_data (ex_data 1); enc_data (ex_data 2)] =
  [ (true, ex_data 1, [ex_data 1], [ex_data 1]);
    (true, ex_data 2, [ex_data 1; ex_data 2], [ {| d_meta := Some (ex_meta 2); d_txs := [[1]] |}; ex_data 2 ]) ].
Proof. vm_compute. reflexivity. Qed.
(* a public key that does not parse: the error comes after Header and Signature were stored *)
Example signed_header_half_written_on_key_error :
  let r := {| sh_header := ex_header; sh_sig := [1]; sh_signer := lone_address |} in
  into_signed_header (fun _ => None) r (f_rec 1 (enc_header ex_header2) ++ f_bytes 2 [9] ++ f_rec 3 (f_bytes 2 [1])) =
  ({| sh_header := ex_header2; sh_sig := [9]; sh_signer := lone_address |}, false).
Proof. vm_compute. reflexivity. Qed.
(* bytes without a Data field: the receiver's Data stays (a fresh receiver gives the zero Data) *)
Example signed_data_without_data_field_keeps_receiver_data :
  let r := {| sd_data := ex_data 1; sd_sig := [1]; sd_signer := lone_address |} in
  into_signed_data (fun k => Some k) r (f_bytes 2 [9]) = ({| sd_data := ex_data 1; sd_sig := [9]; sd_signer := signer0 |}, true) /\
  dec_signed_data (fun k => Some k) (f_bytes 2 [9]) = Some {| sd_data := data0; sd_sig := [9]; sd_signer := signer0 |}.
Proof. vm_compute. split; reflexivity. Qed.

(* ---- cache files: non-vacuity.  A node stops with an item pending (save), restarts (load), processes and
   deletes the item so that the by-height index is EMPTY, stops (save into the same folder), restarts: the
   deleted item is not back, the folder holds an empty items file, the marks are there. ---- *)
Definition ex_cache_ops : list (cop wdata) :=
  [OSetItem 42 (ex_data 1); OSetSeen [97]; OSave; OLoad; ODelItem 42; OSetDA [97] 7; OSave; OLoad].
Example ex_cache_history :
  cache_history data_enc dec_data dir_none [42] [[97]] ex_cache_ops =
  let d1 := {| f_items := Some [(42, enc_data (ex_data 1))]; f_sitems := Some []; f_hashes := Some [([97], true)]; f_da := Some [] |} in
  let d2 := {| f_items := Some []; f_sitems := Some []; f_hashes := Some [([97], true)]; f_da := Some [([97], 7)] |} in
  [ (true, [Some (ex_data 1)], [false], [None], dir_none);
    (true, [Some (ex_data 1)], [true], [None], dir_none);
    (true, [Some (ex_data 1)], [true], [None], d1);
    (true, [Some (ex_data 1)], [true], [None], d1);
    (true, [None], [true], [None], d1);
    (true, [None], [true], [Some 7], d1);
    (true, [None], [true], [Some 7], d2);
    (true, [None], [true], [Some 7], d2) ].
Proof. vm_compute. reflexivity. Qed.
Example ex_cache_ops_wf : Forall (op_wf wf_data) ex_cache_ops.
Proof.
  repeat constructor;
  try (match goal with Hm : d_meta _ = Some _ |- _ => inversion Hm; subst; clear Hm end); unfold sz, len, two64; cbn; reflexivity.
Qed.
(* an item whose chain id is not UTF-8 does not marshal: the save fails and the folder keeps what it held *)
Example ex_cache_save_fails :
  let bad := {| d_meta := Some {| m_chain := [255]; m_height := 1; m_time := 0; m_last := [] |}; d_txs := [] |} in
  map (fun o => fst (fst (fst (fst o)))) (cache_history data_enc dec_data dir_none [] [] [OSetItem 1 bad; OSave; OLoad]) = [true; false; true].
Proof. vm_compute. reflexivity. Qed.

(* ---- block store: non-vacuity.  A node writes its state, reads it (the caller then scribbles over the hashes it
   got), reads it again, restarts, reads it again: every read is the state that was written; a state whose chain
   id is not UTF-8 is refused and the old one stays; bytes that are not a State are an error, not a value. ---- *)
Definition ex_state (n : N) : wstate :=
  {| s_version := {| v_block := 1; v_app := 2 |}; s_chain := [99; 49; 50]; s_initial := 1; s_last_height := n;
     s_time := (1700000000%Z, 5%Z); s_da := 7; s_last_results := [n; n]; s_app := [1; 2; 3; n] |}.
Example ex_state_wf : wf_state (ex_state 9).
Proof.
  unfold wf_state, wf_version, wf_time, sz, len, two64, two63z. cbn. repeat split; try reflexivity; try discriminate.
Qed.
Definition ex_bad_state : wstate :=
  {| s_version := version0; s_chain := [255]; s_initial := 0; s_last_height := 0; s_time := zero_time; s_da := 0;
     s_last_results := []; s_app := [] |}.
Example ex_store_history :
  map fst (store_history (fun k => Some k) {| db_state := Some [16]; db_headers := []; db_datas := []; db_sigs := [] |}
             [SGetState; SUpdateState (ex_state 9); SGetState; SGetState; SReopen; SGetState; SUpdateState ex_bad_state; SGetState;
              SUpdateState (ex_state 10); SGetState; SGetHeader 3]) =
  [RState None; RDone true; RState (Some (ex_state 9)); RState (Some (ex_state 9)); RDone true; RState (Some (ex_state 9));
   RDone false; RState (Some (ex_state 9)); RDone true; RState (Some (ex_state 10)); RHeader None].
Proof. vm_compute. reflexivity. Qed.
Definition ex_sh (n : N) : wsigned_header := {| sh_header := ex_header; sh_sig := [n; 7]; sh_signer := lone_address |}.
Example ex_store_block_history :
  map fst (store_history (fun k => Some k) db_empty
             [SSaveBlock (ex_sh 1) (ex_data 1) [5; 5]; SGetBlock 300; SGetHeader 300; SGetSig 300; SGetBlock 301;
              SSaveBlock (ex_sh 2) (ex_data 2) [6]; SReopen; SGetBlock 300; SGetSig 300]) =
  [RDone true; RBlock (Some (ex_sh 1, ex_data 1)); RHeader (Some (ex_sh 1)); RSig (Some [5; 5]); RBlock None;
   RDone true; RDone true; RBlock (Some (ex_sh 2, ex_data 2)); RSig (Some [6])].
Proof. vm_compute. reflexivity. Qed.
