(* Props/C16.v — a DA layer behind the JSON-RPC proxy behaves like the same DA layer in-process.
   Statements only; every proof is [exact <lemma of Proofs/ProxyProofs.v>].
   The model (Model/Proxy.v) is of the tree with fixes/C16-submit-error-identity.diff applied.

   [T : table] = the Error() texts of the eight sentinel errors of core/da/errors.go and of context.Canceled.
   [table_ok T] is a boolean; the harness evaluates it in Coq, on every run, on the texts of the linked Go
   package (cases_C16.v: live_table_ok), and below on the texts of the pinned tree. *)
From Coq Require Import String NArith List Bool.
From Verif Require Import Model.Proxy Model.ProxyMem Proofs.ProxyProofs Proofs.ProxyMemProofs Check.ProxyCheck.
Import ListNotations.
Open Scope string_scope.
Open Scope list_scope.

(* SUBMIT, batch within the client's limit.  For every backing DA [b] (any function from the blobs it
   receives to ids or an error), every blob list whose total size fits, cancelled caller or not: what
   SubmitWithHelpers reports (status class, ids, submitted count, height) through client + wire + server is
   what it reports for the same DA called directly — provided the DA's error, if any, is in the property's
   domain [wfb] (its text mentions exactly the sentinels it wraps; see C16_error_classes_full for "every
   error the DA interface defines"), and that for an empty list (which the client answers itself, without a
   call) the DA would also have answered "nothing submitted". *)
Theorem C16_transparent_submit_full : forall T, table_ok T = true ->
  forall (b : backend) (max : N) (sizes : list N) (cancelled : bool),
  (sumN sizes <= max)%N ->
  in_domain_answer T (b sizes) ->
  (sizes = [] -> cancelled = false /\ exists h, b [] = SRes [] h) ->
  fst (proxied_submit T max b cancelled sizes) = fst (direct_submit T b cancelled sizes).
Proof. exact submit_transparent. Qed.
Print Assumptions C16_transparent_submit_full.

(* RETRIEVE.  For every GetIDs answer (nil, empty, ids, ANY error — no domain restriction), every Get
   behaviour, every height, cancelled caller or not: RetrieveWithHelpers reports the same status class
   ("nothing at this height", "height from the future", error, success), the same ids, blobs, timestamp and
   makes the same number of Get calls, through the proxy as in-process. *)
Theorem C16_transparent_retrieve_full : forall T, table_ok T = true ->
  forall (g : gresult) (get : getfn) (cancelled : bool),
  proxied_retrieve T g get cancelled = direct_retrieve T g get cancelled.
Proof. exact retrieve_transparent. Qed.
Print Assumptions C16_transparent_retrieve_full.

(* EVERY ERROR THE DA INTERFACE DEFINES keeps its class across the wire on the submit path, and the classes
   are the intended ones: timed out -> not included, already in mempool, incorrect sequence, too big,
   deadline, cancellation (the sentinel and context.Canceled). *)
Theorem C16_error_classes_full : forall T, table_ok T = true ->
  (forall s, classify_submit (client_submit_err T (wire_err (sent_err T s))) = classify_submit (sent_err T s))
  /\ classify_submit (client_submit_err T (wire_err (ctx_err T))) = StCanceled
  /\ classify_submit (sent_err T STimedOut) = StNotIncluded
  /\ classify_submit (sent_err T SMempool) = StMempool
  /\ classify_submit (sent_err T SSeq) = StSeq
  /\ classify_submit (sent_err T STooBig) = StTooBig
  /\ classify_submit (sent_err T SDeadline) = StDeadline
  /\ classify_submit (sent_err T SCanceled) = StCanceled
  /\ classify_submit (ctx_err T) = StCanceled.
Proof. exact error_classes. Qed.
Print Assumptions C16_error_classes_full.

(* PREFIX.  For every limit, blob list and backing DA: with k the length of the longest prefix whose total
   size fits (k is characterised, not computed by the model's loop), the client either reports "too big"
   without sending anything — exactly when blob k exists and can never fit —, or answers the empty list
   itself, or sends exactly the first k blobs and reports the backend's answer for exactly those. *)
Theorem C16_prefix_full : forall T (b : backend) (max : N) (sizes : list N),
  exists k, (k <= length sizes)%nat
    /\ (sumN (firstn k sizes) <= max)%N
    /\ ((k < length sizes)%nat -> (max < sumN (firstn (S k) sizes))%N)
    /\ ( ((k < length sizes)%nat /\ (max < nth k sizes 0)%N
            /\ proxied_submit T max b false sizes = (too_big_obs, []))
         \/ (sizes = [] /\ proxied_submit T max b false sizes = (mk_sobs StSuccess [] 0 0, []))
         \/ ((0 < k)%nat /\ ((k < length sizes)%nat -> (nth k sizes 0 <= max)%N)
            /\ proxied_submit T max b false sizes =
               (submit_helper (length sizes) (client_sresult T (wire_sresult (b (firstn k sizes)))), [firstn k sizes])) ).
Proof. exact prefix_rule. Qed.
Print Assumptions C16_prefix_full.

(* A CALLER NEVER MARKS AN UNSENT BLOB AS SUBMITTED.  For a backing DA that returns no more ids than blobs it
   was given: the submitted count is the number of ids reported, it never exceeds the number of blobs that
   reached the DA, and what reached the DA is a prefix of the caller's list (so `remaining[:count]` in
   block/submitter.go are blobs that were sent). *)
Theorem C16_count_sound_full : forall T (b : backend) (max : N) (cancelled : bool) (sizes : list N), honest b ->
  let o := fst (proxied_submit T max b cancelled sizes) in
  let reached := snd (proxied_submit T max b cancelled sizes) in
  so_count o = N.of_nat (length (so_ids o))
  /\ (length (so_ids o) <= length (concat reached))%nat
  /\ (forall l, In l reached -> exists k, l = firstn k sizes).
Proof. exact count_sound. Qed.
Print Assumptions C16_count_sound_full.

(* THE ERROR TEXT ARRIVES WHOLE.  Over the wire an error is only its text, and its class is found in that text;
   so "the same classification" rests on: whatever the backing DA says — a text of ANY length — is what the
   node's helper is handed behind the proxy ([e_msg e] is an arbitrary string, nothing bounds it).
   Submit (batch within the limit): in-process the helper is handed the DA's text; behind the proxy the same
   text ([carried]: or exactly context.Canceled's text when the text mentions a cancellation), and the client
   knows of the error exactly the sentinels its text mentions.  Retrieve: a GetIDs error text arrives unchanged
   (a cancellation mentioning neither "not found" nor "from the future" becomes context.Canceled's text); the text
   of a failing Get arrives whole behind the client's "failed to get blobs: " (or becomes context.Canceled's).
   The harness compares both texts of every call pair with these functions (Check.ProxyCheck codes 7, 8). *)
Theorem C16_error_text_full : forall T,
  (forall (b : backend) max sizes e, (sumN sizes <= max)%N -> sizes <> [] -> b sizes = SFail e ->
     answer_text (direct_answer T b false sizes) = Some (e_msg e)
     /\ exists a, answer_text (proxied_answer T max b false sizes) = Some a /\ carried T (e_msg e) a)
  /\ (forall e s, contains (e_msg e) (t_ctx T) = false ->
        is_sent (client_submit_err T (wire_err (server_err e))) s = contains (e_msg e) (txt T s))
  /\ (forall e get, direct_retrieve_text T (GErr e) get false = Some (e_msg e)
        /\ exists a, proxied_retrieve_text T (GErr e) get false = Some a
             /\ (a = e_msg e \/ (contains (e_msg e) (txt T SNotFound) = false /\ contains (e_msg e) (txt T SFuture) = false
                                  /\ contains (e_msg e) (t_ctx T) = true /\ a = t_ctx T)))
  /\ (forall x ids ts get,
        proxied_retrieve_text T (GRes (x :: ids) ts) get false
        = option_map (get_carried T) (direct_retrieve_text T (GRes (x :: ids) ts) get false)).
Proof. exact error_text. Qed.
Print Assumptions C16_error_text_full.

(* the answers whose text the theorem above speaks of are the answers the helpers classify *)
Theorem C16_answer_is_classified_full : forall T max b cancelled sizes,
  fst (proxied_submit T max b cancelled sizes) = submit_helper (length sizes) (proxied_answer T max b cancelled sizes)
  /\ fst (direct_submit T b cancelled sizes) = submit_helper (length sizes) (direct_answer T b cancelled sizes).
Proof. exact (fun T max b c sizes => conj (proxied_submit_answer T max b c sizes) (direct_submit_answer T b c sizes)). Qed.
Print Assumptions C16_answer_is_classified_full.

(* A SENTINEL WRAPPED ANYWHERE, IN A CONTEXT OF ANY LENGTH, keeps its class.  For every sentinel [s] and ALL
   strings [pre], [post] (the error last: post = "", first: pre = "", in the middle; 0 bytes or 1 MB): the
   sentinel's text is found in the message, and if the rest mentions no other class ([others_clean], a boolean)
   the proxied class is the class of the bare sentinel.  Retrieve: "not found" anywhere -> StNotFound, "from
   the future" anywhere (and no "not found") -> StFuture, for any identity and any surrounding text. *)
Theorem C16_wrapped_anywhere_full : forall T, table_ok T = true -> forall s pre post,
  let m := (pre ++ txt T s ++ post)%string in
  contains m (txt T s) = true
  /\ (others_clean T s m = true ->
      classify_submit (client_submit_err T (wire_err (server_err (mk_err [s] false m)))) = classify_submit (sent_err T s)).
Proof. exact wrapped_anywhere. Qed.
Print Assumptions C16_wrapped_anywhere_full.

Theorem C16_wrapped_anywhere_retrieve_full : forall T, table_ok T = true -> forall is c pre post get,
  ro_code (proxied_retrieve T (GErr (mk_err is c (pre ++ txt T SNotFound ++ post)%string)) get false) = StNotFound
  /\ (contains (pre ++ txt T SFuture ++ post)%string (txt T SNotFound) = false ->
      ro_code (proxied_retrieve T (GErr (mk_err is c (pre ++ txt T SFuture ++ post)%string)) get false) = StFuture).
Proof. exact wrapped_anywhere_retrieve. Qed.
Print Assumptions C16_wrapped_anywhere_retrieve_full.

(* ==== THE CLIENT OVER GO'S SLICE MEMORY; SEQUENCES OF CALLS THAT RE-USE THE CALLER'S SLICE (Model/ProxyMem.v) ====
   The theorems above see a call as a function of the blob sizes.  That is the code's behaviour only if the
   client does not write to memory its caller still holds: block/submitter.go submitToDA marshals a batch once
   and hands the same slice (after a partial success: a tail of it) to every attempt.  In Model/ProxyMem.v blobs
   live in arrays of a heap, slices are (array, offset, length, capacity) windows, `append` writes in place while
   the capacity lasts, and the client's loop is written with these operations ([h] any heap, [inp] any slice that
   is a window of an existing array: [wf_slice]). *)

(* ONE CALL: the helper's result and the sizes that reach the DA are those of the memory-less model above (so all
   theorems above apply to it); every array that existed when the call began — the caller's batch among them —
   holds afterwards what it held before (the client is a function of its arguments and does not write to them);
   what reaches the DA is a prefix of the caller's blobs THEMSELVES (identities, not just sizes). *)
Theorem C16_caller_blobs_untouched_full : forall T max (b : backend) cancelled h inp, wf_slice h inp ->
  let r := proxied_submit_mem T max b cancelled h inp in
  (fst (fst r), map (map bsize) (snd (fst r))) = proxied_submit T max b cancelled (map bsize (read h inp))
  /\ (forall a, (a < length h)%nat -> arr (snd r) a = arr h a)
  /\ (length h <= length (snd r))%nat
  /\ (forall l, In l (snd (fst r)) -> exists k, l = firstn k (read h inp)).
Proof. exact proxied_submit_mem_spec. Qed.
Print Assumptions C16_caller_blobs_untouched_full.

(* ANY SEQUENCE OF ATTEMPTS ON ONE SLICE (each: drop some leading blobs or none, then call; any backing-DA
   behaviour per attempt, cancelled or not), of any length: it is answered call by call as the memory-less client
   answers the blobs the caller MEANT to hand over ([spec_attempts]: computed from the batch as it was before the
   first call); after every call the caller's array holds what it held before the first; whatever reaches the DA
   at any attempt is a run of consecutive blobs of the original batch. *)
Theorem C16_attempts_stateless_full : forall T max l h s, wf_slice h s ->
  map sizes_of (proxied_attempts T max h s l) = spec_attempts T max (read h s) l
  /\ Forall (fun x => snd x = arr h (s_addr s)) (proxied_attempts T max h s l)
  /\ Forall (fun x => forall lg, In lg (snd (fst x)) -> exists j k, lg = firstn k (skipn j (read h s))) (proxied_attempts T max h s l).
Proof. exact attempts_stateless. Qed.
Print Assumptions C16_attempts_stateless_full.

(* A RETRY WITH THE VERY SAME SLICE IS ANSWERED LIKE A FIRST CALL: every attempt gets the answer a first call
   meeting that backing-DA behaviour gets (so two attempts that meet the same behaviour get the same answer) ... *)
Theorem C16_retry_answered_alike_full : forall T max h s l, wf_slice h s -> (forall a, In a l -> a_skip a = 0%nat) ->
  map sizes_of (proxied_attempts T max h s l)
  = map (fun a => proxied_submit T max (a_back a) (a_cancel a) (map bsize (read h s))) l.
Proof. exact retry_answered_alike. Qed.
Print Assumptions C16_retry_answered_alike_full.

(* ... in particular a batch the client refuses because a blob of it can never fit is refused at EVERY retry,
   with nothing sent, whatever the backing DA would have answered. *)
Theorem C16_too_big_every_retry_full : forall T max h s l, wf_slice h s -> (forall a, In a l -> a_skip a = 0%nat) ->
  snd (filter_loop max 0 (map bsize (read h s))) = true ->
  Forall (fun x => sizes_of x = (too_big_obs, [])) (proxied_attempts T max h s l).
Proof. exact too_big_every_retry. Qed.
Print Assumptions C16_too_big_every_retry_full.

(* DIRECT = PROXIED OVER SEQUENCES: if every attempt, for the blobs the caller hands over at that attempt, is within
   the hypotheses of C16_transparent_submit_full ([attempts_ok]: fits the client's limit, DA error in the domain,
   empty-list proviso), the helper reports the same at every attempt through the proxy as in-process. *)
Theorem C16_retry_transparent_full : forall T, table_ok T = true -> forall max h s l, wf_slice h s ->
  attempts_ok T max (read h s) l ->
  map obs_of (proxied_attempts T max h s l) = map obs_of (direct_attempts T h s l).
Proof. exact retry_transparent. Qed.
Print Assumptions C16_retry_transparent_full.

(* ---- non-vacuity ---------------------------------------------------------------------------------------- *)
(* the texts of the pinned tree (core/da/errors.go) *)
Definition pinned_tbl : table :=
  mk_table "blob: not found" "blob: over size limit" "timed out waiting for tx to be included in a block"
           "tx already in mempool" "incorrect account sequence" "context deadline"
           "given height is from the future" "context canceled" "context canceled".

Example pinned_table_ok : table_ok pinned_tbl = true.
Proof. vm_compute. reflexivity. Qed.

(* wrapped sentinels as the anchored DAs produce them are in the domain *)
Example wrapped_in_domain :
  wfb pinned_tbl (mk_err [SFuture] false "height 9 is in the future: given height is from the future") = true
  /\ wfb pinned_tbl (mk_err [SMempool] false "failed to submit: tx already in mempool: code 19") = true
  /\ wfb pinned_tbl (mk_err [STimedOut; STooBig] false
       "timed out waiting for tx to be included in a block; blob: over size limit") = true
  /\ wfb pinned_tbl (mk_err [] true "rpc: context canceled") = true
  /\ wfb pinned_tbl (mk_err [] false "connection refused") = true.
Proof. vm_compute. repeat split; reflexivity. Qed.

(* ... and what is NOT: text cannot tell context.DeadlineExceeded from ErrContextDeadline, nor a foreign
   error that merely quotes a sentinel.  For these the proxied class may differ from the in-process one. *)
Example outside_domain :
  wfb pinned_tbl (mk_err [] false "context deadline exceeded") = false
  /\ classify_submit (mk_err [] false "context deadline exceeded") = StError
  /\ classify_submit (client_submit_err pinned_tbl (wire_err (mk_err [] false "context deadline exceeded"))) = StDeadline
  /\ wfb pinned_tbl (mk_err [] false "remote said: tx already in mempool") = false.
Proof. vm_compute. repeat split; reflexivity. Qed.

(* the defect that was repaired (F17): without the client's wireError step nothing but text crosses the wire,
   and the helper, which uses errors.Is, saw StatusError for every submit-path sentinel *)
Example before_the_repair :
  map (fun s => classify_submit (wire_err (sent_err pinned_tbl s))) [STimedOut; SMempool; SSeq; STooBig; SDeadline]
  = [StError; StError; StError; StError; StError]
  /\ map (fun s => classify_submit (client_submit_err pinned_tbl (wire_err (sent_err pinned_tbl s))))
       [STimedOut; SMempool; SSeq; STooBig; SDeadline]
  = [StNotIncluded; StMempool; StSeq; StTooBig; StDeadline].
Proof. vm_compute. split; reflexivity. Qed.

(* a batch crossing the limit: 40+30 fit in 100, the third blob does not; exactly two are sent and counted *)
Example prefix_example :
  proxied_submit pinned_tbl 100 (fun l => SRes (iota (length l)) 7) false [40; 30; 31; 5]%N
  = (mk_sobs StSuccess [0; 1]%N 2 7, [[40; 30]%N])
  /\ proxied_submit pinned_tbl 100 (fun l => SRes (iota (length l)) 7) false [40; 101; 5]%N = (too_big_obs, [])
  /\ proxied_submit pinned_tbl 100 (fun l => SRes (iota (length l)) 7) false [40; 60]%N
  = (mk_sobs StSuccess [0; 1]%N 2 7, [[40; 60]%N]).
Proof. vm_compute. repeat split; reflexivity. Qed.

(* a retrieve of 250 ids makes three Get calls and returns all blobs, on both sides *)
Example retrieve_example :
  ro_gets (proxied_retrieve pinned_tbl (GRes (iota 250) 1) (fun ids => BOk ids) false) = 3%N
  /\ proxied_retrieve pinned_tbl (GRes (iota 250) 1) (fun ids => BOk ids) false
     = direct_retrieve pinned_tbl (GRes (iota 250) 1) (fun ids => BOk ids) false
  /\ ro_code (proxied_retrieve pinned_tbl GNil (fun ids => BOk ids) false) = StNotFound
  /\ ro_code (proxied_retrieve pinned_tbl (GErr (mk_err [SFuture] false "height 9 is in the future: given height is from the future"))
                (fun ids => BOk ids) false) = StFuture.
Proof. vm_compute. repeat split; reflexivity. Qed.


(* a celestia-style error of 5065 bytes with the class at the very end (5000 bytes of hex dump before it) is in
   the domain, keeps its class, and arrives with its whole text *)
Definition long_err : err :=
  mk_err [STimedOut] false (rope [Lit "broadcast tx "; Fil 0 5000; Lit ": timed out waiting for tx to be included in a block"]).

Example long_error_example :
  N.of_nat (String.length (e_msg long_err)) = 5065%N
  /\ wfb pinned_tbl long_err = true
  /\ others_clean pinned_tbl STimedOut (e_msg long_err) = true
  /\ fst (proxied_submit pinned_tbl 100 (fun _ => SFail long_err) false [3; 4]%N) = mk_sobs StNotIncluded [] 0 0
  /\ answer_text (proxied_answer pinned_tbl 100 (fun _ => SFail long_err) false [3; 4]%N) = Some (e_msg long_err)
  /\ proxied_retrieve_text pinned_tbl (GErr long_err) (fun ids => BOk ids) false = Some (e_msg long_err).
Proof. vm_compute. repeat split; reflexivity. Qed.

(* why the text matters: were the text cut at 256 bytes on its way (a wire that is NOT [wire_err]), the class
   would be gone — the sentinel stands after the context *)
Example a_cut_text_loses_the_class :
  let cut := mk_err [] false (substring 0 256 (e_msg long_err) ++ "... (truncated)")%string in
  classify_submit (client_submit_err pinned_tbl cut) = StError
  /\ classify_submit (client_submit_err pinned_tbl (wire_err (server_err long_err))) = StNotIncluded.
Proof. vm_compute. split; reflexivity. Qed.

(* ---- memory: non-vacuity ------------------------------------------------------------------------------------ *)
(* the caller's batch as the harness lays it out satisfies the hypothesis of the memory theorems *)
Example caller_slice_wf : forall sizes, wf_slice (caller_heap sizes) (caller_slice sizes)
                                        /\ read (caller_heap sizes) (caller_slice sizes) = batch sizes.
Proof. intros; split; [apply caller_wf | apply caller_read]. Qed.

(* [a; BIG; c] with limit 100, submitted three times with the same slice to a DA that would accept anything: too big
   every time, nothing sent, and the caller's array is [a; BIG; c] after every attempt; then the caller drops two
   blobs: [c] alone is sent and accepted *)
Example retry_example :
  let ok : backend := fun l => SRes (iota (length l)) 7 in
  map (fun x => (so_code (fst (fst x)), map (map bid) (snd (fst x)), map bid (snd x)))
      (proxied_attempts pinned_tbl 100 (caller_heap [10; 150; 20]%N) (caller_slice [10; 150; 20]%N)
         [mk_attempt 0 ok false; mk_attempt 0 ok false; mk_attempt 0 ok false; mk_attempt 2 ok false])
  = [(StTooBig, [], [0; 1; 2]%N); (StTooBig, [], [0; 1; 2]%N); (StTooBig, [], [0; 1; 2]%N); (StSuccess, [[2%N]], [0; 1; 2]%N)].
Proof. vm_compute. reflexivity. Qed.

(* why the memory matters: were the blobs that fit collected IN PLACE (blobsToSubmit := inputBlobs[:0] — NOT what line
   149 does, [mem_filter_inplace]), the same loop would leave [a; c; c] in the caller's array while still answering
   "too big", and the memory-less model would no longer describe a second call with that slice *)
Example collecting_in_place_overwrites_the_caller :
  let r := mem_filter_inplace 100 (caller_heap [10; 150; 20]%N) (caller_slice [10; 150; 20]%N) in
  snd r = true /\ map bid (arr (fst (fst r)) 0) = [0; 2; 2]%N
  /\ map bid (arr (fst (fst (mem_filter 100 (caller_heap [10; 150; 20]%N) (caller_slice [10; 150; 20]%N)))) 0) = [0; 1; 2]%N.
Proof. vm_compute. repeat split; reflexivity. Qed.
