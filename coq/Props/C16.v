(* Props/C16.v — a DA layer behind the JSON-RPC proxy behaves like the same DA layer in-process.
   Statements only; every proof is [exact <lemma of Proofs/ProxyProofs.v>].
   The model (Model/Proxy.v) is of the tree with fixes/C16-submit-error-identity.diff applied.

   [T : table] = the Error() texts of the eight sentinel errors of core/da/errors.go and of context.Canceled.
   [table_ok T] is a boolean; the harness evaluates it in Coq, on every run, on the texts of the linked Go
   package (cases_C16.v: live_table_ok), and below on the texts of the pinned tree. *)
From Coq Require Import String NArith List Bool.
From Verif Require Import Model.Proxy Proofs.ProxyProofs.
Import ListNotations.
Open Scope string_scope.
Open Scope list_scope.

(* SUBMIT, batch within the client's limit.  For every backing DA [b] (any function from the blobs it
   receives to ids or an error), every blob list whose total size fits, cancelled caller or not: what
   SubmitWithHelpers reports (status class, ids, submitted count, height) through client + wire + server is
   what it reports for the same DA called directly — provided the DA's error, if any, is in the property's
   domain [wfb] (its text mentions exactly the sentinels it wraps; see C16_error_classes_full for "every
   error the DA interface defines"), and that for an empty list (which the client answers itself, without a
   call) the DA would also have answered "nothing submitted". *)
Theorem C16_transparent_submit_full : forall T, table_ok T = true ->
  forall (b : backend) (max : N) (sizes : list N) (cancelled : bool),
  (sumN sizes <= max)%N ->
  in_domain_answer T (b sizes) ->
  (sizes = [] -> cancelled = false /\ exists h, b [] = SRes [] h) ->
  fst (proxied_submit T max b cancelled sizes) = fst (direct_submit T b cancelled sizes).
Proof. exact submit_transparent. Qed.
Print Assumptions C16_transparent_submit_full.

(* RETRIEVE.  For every GetIDs answer (nil, empty, ids, ANY error — no domain restriction), every Get
   behaviour, every height, cancelled caller or not: RetrieveWithHelpers reports the same status class
   ("nothing at this height", "height from the future", error, success), the same ids, blobs, timestamp and
   makes the same number of Get calls, through the proxy as in-process. *)
Theorem C16_transparent_retrieve_full : forall T, table_ok T = true ->
  forall (g : gresult) (get : getfn) (cancelled : bool),
  proxied_retrieve T g get cancelled = direct_retrieve T g get cancelled.
Proof. exact retrieve_transparent. Qed.
Print Assumptions C16_transparent_retrieve_full.

(* EVERY ERROR THE DA INTERFACE DEFINES keeps its class across the wire on the submit path, and the classes
   are the intended ones: timed out -> not included, already in mempool, incorrect sequence, too big,
   deadline, cancellation (the sentinel and context.Canceled). *)
Theorem C16_error_classes_full : forall T, table_ok T = true ->
  (forall s, classify_submit (client_submit_err T (wire_err (sent_err T s))) = classify_submit (sent_err T s))
  /\ classify_submit (client_submit_err T (wire_err (ctx_err T))) = StCanceled
  /\ classify_submit (sent_err T STimedOut) = StNotIncluded
  /\ classify_submit (sent_err T SMempool) = StMempool
  /\ classify_submit (sent_err T SSeq) = StSeq
  /\ classify_submit (sent_err T STooBig) = StTooBig
  /\ classify_submit (sent_err T SDeadline) = StDeadline
  /\ classify_submit (sent_err T SCanceled) = StCanceled
  /\ classify_submit (ctx_err T) = StCanceled.
Proof. exact error_classes. Qed.
Print Assumptions C16_error_classes_full.

(* PREFIX.  For every limit, blob list and backing DA: with k the length of the longest prefix whose total
   size fits (k is characterised, not computed by the model's loop), the client either reports "too big"
   without sending anything — exactly when blob k exists and can never fit —, or answers the empty list
   itself, or sends exactly the first k blobs and reports the backend's answer for exactly those. *)
Theorem C16_prefix_full : forall T (b : backend) (max : N) (sizes : list N),
  exists k, (k <= length sizes)%nat
    /\ (sumN (firstn k sizes) <= max)%N
    /\ ((k < length sizes)%nat -> (max < sumN (firstn (S k) sizes))%N)
    /\ ( ((k < length sizes)%nat /\ (max < nth k sizes 0)%N
            /\ proxied_submit T max b false sizes = (too_big_obs, []))
         \/ (sizes = [] /\ proxied_submit T max b false sizes = (mk_sobs StSuccess [] 0 0, []))
         \/ ((0 < k)%nat /\ ((k < length sizes)%nat -> (nth k sizes 0 <= max)%N)
            /\ proxied_submit T max b false sizes =
               (submit_helper (length sizes) (client_sresult T (wire_sresult (b (firstn k sizes)))), [firstn k sizes])) ).
Proof. exact prefix_rule. Qed.
Print Assumptions C16_prefix_full.

(* A CALLER NEVER MARKS AN UNSENT BLOB AS SUBMITTED.  For a backing DA that returns no more ids than blobs it
   was given: the submitted count is the number of ids reported, it never exceeds the number of blobs that
   reached the DA, and what reached the DA is a prefix of the caller's list (so `remaining[:count]` in
   block/submitter.go are blobs that were sent). *)
Theorem C16_count_sound_full : forall T (b : backend) (max : N) (cancelled : bool) (sizes : list N), honest b ->
  let o := fst (proxied_submit T max b cancelled sizes) in
  let reached := snd (proxied_submit T max b cancelled sizes) in
  so_count o = N.of_nat (length (so_ids o))
  /\ (length (so_ids o) <= length (concat reached))%nat
  /\ (forall l, In l reached -> exists k, l = firstn k sizes).
Proof. exact count_sound. Qed.
Print Assumptions C16_count_sound_full.

(* ---- non-vacuity ---------------------------------------------------------------------------------------- *)
(* the texts of the pinned tree (core/da/errors.go) *)
Definition pinned_tbl : table :=
  mk_table "blob: not found" "blob: over size limit" "timed out waiting for tx to be included in a block"
           "tx already in mempool" "incorrect account sequence" "context deadline"
           "given height is from the future" "context canceled" "context canceled".

Example pinned_table_ok : table_ok pinned_tbl = true.
Proof. vm_compute. reflexivity. Qed.

(* wrapped sentinels as the anchored DAs produce them are in the domain *)
Example wrapped_in_domain :
  wfb pinned_tbl (mk_err [SFuture] false "height 9 is in the future: given height is from the future") = true
  /\ wfb pinned_tbl (mk_err [SMempool] false "failed to submit: tx already in mempool: code 19") = true
  /\ wfb pinned_tbl (mk_err [STimedOut; STooBig] false
       "timed out waiting for tx to be included in a block; blob: over size limit") = true
  /\ wfb pinned_tbl (mk_err [] true "rpc: context canceled") = true
  /\ wfb pinned_tbl (mk_err [] false "connection refused") = true.
Proof. vm_compute. repeat split; reflexivity. Qed.

(* ... and what is NOT: text cannot tell context.DeadlineExceeded from ErrContextDeadline, nor a foreign
   error that merely quotes a sentinel.  For these the proxied class may differ from the in-process one. *)
Example outside_domain :
  wfb pinned_tbl (mk_err [] false "context deadline exceeded") = false
  /\ classify_submit (mk_err [] false "context deadline exceeded") = StError
  /\ classify_submit (client_submit_err pinned_tbl (wire_err (mk_err [] false "context deadline exceeded"))) = StDeadline
  /\ wfb pinned_tbl (mk_err [] false "remote said: tx already in mempool") = false.
Proof. vm_compute. repeat split; reflexivity. Qed.

(* the defect that was repaired (F17): without the client's wireError step nothing but text crosses the wire,
   and the helper, which uses errors.Is, saw StatusError for every submit-path sentinel *)
Example before_the_repair :
  map (fun s => classify_submit (wire_err (sent_err pinned_tbl s))) [STimedOut; SMempool; SSeq; STooBig; SDeadline]
  = [StError; StError; StError; StError; StError]
  /\ map (fun s => classify_submit (client_submit_err pinned_tbl (wire_err (sent_err pinned_tbl s))))
       [STimedOut; SMempool; SSeq; STooBig; SDeadline]
  = [StNotIncluded; StMempool; StSeq; StTooBig; StDeadline].
Proof. vm_compute. split; reflexivity. Qed.

(* a batch crossing the limit: 40+30 fit in 100, the third blob does not; exactly two are sent and counted *)
Example prefix_example :
  proxied_submit pinned_tbl 100 (fun l => SRes (iota (length l)) 7) false [40; 30; 31; 5]%N
  = (mk_sobs StSuccess [0; 1]%N 2 7, [[40; 30]%N])
  /\ proxied_submit pinned_tbl 100 (fun l => SRes (iota (length l)) 7) false [40; 101; 5]%N = (too_big_obs, [])
  /\ proxied_submit pinned_tbl 100 (fun l => SRes (iota (length l)) 7) false [40; 60]%N
  = (mk_sobs StSuccess [0; 1]%N 2 7, [[40; 60]%N]).
Proof. vm_compute. repeat split; reflexivity. Qed.

(* a retrieve of 250 ids makes three Get calls and returns all blobs, on both sides *)
Example retrieve_example :
  ro_gets (proxied_retrieve pinned_tbl (GRes (iota 250) 1) (fun ids => BOk ids) false) = 3%N
  /\ proxied_retrieve pinned_tbl (GRes (iota 250) 1) (fun ids => BOk ids) false
     = direct_retrieve pinned_tbl (GRes (iota 250) 1) (fun ids => BOk ids) false
  /\ ro_code (proxied_retrieve pinned_tbl GNil (fun ids => BOk ids) false) = StNotFound
  /\ ro_code (proxied_retrieve pinned_tbl (GErr (mk_err [SFuture] false "height 9 is in the future: given height is from the future"))
                (fun ids => BOk ids) false) = StFuture.
Proof. vm_compute. repeat split; reflexivity. Qed.
