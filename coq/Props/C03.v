(* Props/C03.v — only material signed by the genesis proposer's key is ever accepted.
   Statements only; every proof is [exact <lemma of Proofs/AdmissionProofs.v>].
   [pk] is the proposer's private key, the genesis names its address [Addr pk].  "Signed by the
   proposer" = the item carries the term [Sig pk <its own content>]; an adversarial item is ANY item
   that does not (own keys, re-signed copies, copies of genuine signatures on altered content, junk,
   no signature).  The pinned code does NOT have the property: the four [_refuted] theorems are
   kernel-checked counterexamples on the faithful model (reproduced on the real code by harness/c03);
   the [_partial] theorems say what the code does guarantee, under a named decidable guard. *)
From Coq Require Import NArith ZArith List Bool.
From Verif Require Import Model.Types Model.Admission Proofs.AdmissionProofs.
Import ListNotations.

(* ---- DA path, headers --------------------------------------------------------------------------- *)
(* full statement: a header blob that gets a DA-included mark / is handed to the syncer is signed by the
   proposer.  FALSE (F3): nothing ties signer.address to signer.pubkey. *)
Theorem C03_da_header_refuted :
  ~ (forall g pk sh, g_proposer g = Addr pk -> admit_da_header g sh = true -> signed_by pk sh = true).
Proof. exact da_header_refuted. Qed.
Print Assumptions C03_da_header_refuted.

(* guard: the signer's address is the address of the signer's key *)
Theorem C03_da_header_partial : forall pk g, g_proposer g = Addr pk -> forall sh,
  signer_consistent (sh_signer sh) = true -> admit_da_header g sh = true -> signed_by pk sh = true.
Proof. exact da_header_partial. Qed.
Print Assumptions C03_da_header_partial.

(* ---- DA path, transaction data ------------------------------------------------------------------ *)
Theorem C03_da_data_refuted :
  ~ (forall g pk sd, g_proposer g = Addr pk -> admit_da_data g sd = true -> data_signed_by pk sd = true).
Proof. exact da_data_refuted. Qed.
Print Assumptions C03_da_data_refuted.

Theorem C03_da_data_partial : forall pk g, g_proposer g = Addr pk -> forall sd,
  signer_consistent (sd_signer sd) = true -> admit_da_data g sd = true -> data_signed_by pk sd = true.
Proof. exact da_data_partial. Qed.
Print Assumptions C03_da_data_partial.

(* ---- P2P path: the header store of a light (header-only) node and of a full node ------------------ *)
(* full statement: a store holding only proposer-signed headers still does after any gossip item.
   FALSE (F4): Validate() is the embedded Header's, the signature is never looked at. *)
Theorem C03_p2p_header_refuted :
  ~ (forall pk now st u, Forall (fun t => signed_by pk t = true) st ->
       Forall (fun t => signed_by pk t = true) (light_step now st u)).
Proof. exact p2p_header_refuted. Qed.
Print Assumptions C03_p2p_header_refuted.

(* all that is guaranteed: whatever the gossip, every stored header NAMES the proposer's address *)
Theorem C03_p2p_header_partial : forall pk now l st,
  Forall (fun t => names_proposer pk (h_proposer (sh_hdr t)) = true) st ->
  Forall (fun t => names_proposer pk (h_proposer (sh_hdr t)) = true) (light_run now st l).
Proof. exact light_run_names. Qed.
Print Assumptions C03_p2p_header_partial.

(* ---- the syncing full node: third-party material neither halts it nor changes where it ends ------- *)
(* full statement: for every genuine traffic gs and adversarial traffic adv, every interleaving m leaves
   the node in the state gs alone leaves it in.  FALSE: an admitted forgery for the next height fails
   validation inside trySyncNextBlock and SyncLoop returns. *)
Theorem C03_no_halt_refuted :
  ~ (forall g pk now tb gs adv m s, g_proposer g = Addr pk -> interleave gs adv m ->
       forallb (init_ok pk) gs = true -> forallb (adversarial pk) adv = true -> hstore_inv pk s ->
       node_final g now tb s m = node_final g now tb s gs).
Proof. exact no_halt_refuted. Qed.
Print Assumptions C03_no_halt_refuted.

(* and a forged data blob without Metadata kills the process (nil dereference in the retrieve goroutine) *)
Theorem C03_no_crash_refuted :
  ~ (forall g pk now tb l s, g_proposer g = Addr pk -> forallb (adversarial pk) l = true ->
       n_crashed s = false -> n_crashed (node_final g now tb s l) = false).
Proof. exact no_crash_refuted. Qed.
Print Assumptions C03_no_crash_refuted.

(* guard [harmless]: DA items whose signer address is derived from the signer key OR does not name the
   proposer; header gossip that does not name the proposer; data gossip that does not hash-link to the
   data head.  For these, all interleavings, all genuine traffic, all executors: the ENTIRE node state
   (store, state, caches, DA marks, header/data stores, halted, crashed) is that of the genuine run. *)
Theorem C03_no_halt_partial : forall pk g, g_proposer g = Addr pk -> forall now tb gs adv m,
  interleave gs adv m ->
  forallb (init_ok pk) gs = true -> forallb (harmless pk) adv = true ->
  forall s, hstore_inv pk s ->
  node_final g now tb s m = node_final g now tb s gs.
Proof. exact no_halt_partial. Qed.
Print Assumptions C03_no_halt_partial.

(* guard [item_consistent] on ALL traffic (any order, any origin): every block the node applies and
   stores has a header signed by the proposer, and its transactions are the ones that header commits to;
   so is every header waiting in the cache. *)
Theorem C03_applied_signed_partial : forall pk g, g_proposer g = Addr pk -> forall now tb l s,
  forallb item_consistent l = true -> sync_inv pk s -> sync_inv pk (node_final g now tb s l).
Proof. exact applied_signed_partial. Qed.
Print Assumptions C03_applied_signed_partial.

(* ---- non-vacuity --------------------------------------------------------------------------------- *)
(* the genuine run applies both blocks, does not halt, and reaches DA-included height 2 *)
Example ex_genuine_run :
  let s := node_final W.gen W.now W.tb W.s0 W.genuine in
  (n_height s, n_halted s, n_crashed s, da_included_height W.gen s, List.length (n_applied s))
  = (2%N, false, false, 2%N, 2%nat).
Proof. vm_compute. reflexivity. Qed.

(* the forged header (proposer's address, third-party key) is adversarial, is admitted, halts the node at height 0 *)
Example ex_forgery_halts :
  let s := node_final W.gen W.now W.tb W.s0 (IDA (BHdr W.fsh1) :: W.genuine) in
  (adversarial W.pk (IDA (BHdr W.fsh1)), admit_da_header W.gen W.fsh1, signed_by W.pk W.fsh1,
   n_height s, n_halted s, da_included_height W.gen s)
  = (true, true, false, 0%N, true, 0%N).
Proof. vm_compute. reflexivity. Qed.

(* the guards are met by non-trivial traffic: an attacker with a consistent signer under its OWN address,
   a re-signed mutated copy, junk, non-linking gossip — interleaved with the genuine run: no effect *)
Local Open Scope N_scope.
Definition own_signer : signer := {| sg_pub := Some (Pub W.ak); sg_addr := Addr W.ak |}.
Definition own_hdr : header := Header 1 1000 7 None [] 50 (Addr W.ak).
Definition own_sh : sheader := {| sh_hdr := own_hdr; sh_sig := Sig W.ak own_hdr; sh_signer := own_signer |}.
Definition resigned : sheader := {| sh_hdr := W.F1; sh_sig := Sig W.ak W.F1;
                                    sh_signer := {| sg_pub := Some (Pub W.ak); sg_addr := Addr W.ak |} |}.
Definition stolen_sig : sheader := {| sh_hdr := W.F1; sh_sig := Sig W.pk W.H1; sh_signer := W.prop_signer |}.
Definition harmless_adv : list item :=
  [ IDA (BHdr own_sh); IDA (BHdr resigned); IDA (BHdr stolen_sig); IDA BJunk; IDA BHdrUndecodable;
    IGossipH own_sh; IGossipD W.FD false ].
Example ex_harmless_guard : forallb (harmless W.pk) harmless_adv = true /\ forallb (adversarial W.pk) harmless_adv = true
  /\ forallb (init_ok W.pk) W.genuine = true /\ forallb item_consistent (W.genuine ++ harmless_adv) = true.
Proof. vm_compute. repeat split; reflexivity. Qed.

(* the light node: an unsigned header that names the proposer and hash-links to the head is stored *)
Example ex_light_stores_unsigned :
  (p2p_validate W.ush2, p2p_verify W.now W.sh1 W.ush2, validate_basic W.ush2,
   List.length (light_run W.now [W.sh1] [W.ush2; W.sh2]))
  = (true, VAccept, false, 2%nat).
Proof. vm_compute. reflexivity. Qed.
