(* Props/C03.v — only material signed by the genesis proposer's key is ever accepted.
   Statements only; every proof is [exact <lemma of Proofs/AdmissionProofs.v>].
   [pk] is the proposer's private key, the genesis names its address [Addr pk].  "Signed by the
   proposer" = the item carries the term [Sig pk <its own content>]; an adversarial item is ANY item
   that does not (own keys, re-signed copies, copies of genuine signatures on altered content, junk,
   no signature).
   State after the repairs committed in /repo (signer.address bound to signer.pubkey in ValidateBasic
   and isValidSignedData; SignedData without Metadata ignored): everything that concerns the DA layer
   and what a full node applies is [_full].  The P2P path still lacks the property ([_refuted] +
   [_partial]): go-header never looks at a header's signature, and P2P transaction data carries none. *)
From Coq Require Import NArith ZArith List Bool.
From Verif Require Import Model.Types Model.Admission Proofs.AdmissionProofs.
From Verif Require Import Model.AdmissionCommit Proofs.AdmissionCommitProofs.
From Verif Require Model.Retriever.
From Verif Require Model.GoLite gen.GoLiteFuns Check.GoLiteAdmit Proofs.GoLiteAdmitRefine.
Import ListNotations.

(* ---- DA path ------------------------------------------------------------------------------------ *)
(* every header blob that gets a DA-included mark / is handed to the syncer is signed by the proposer *)
Theorem C03_da_header_full : forall pk g, g_proposer g = Addr pk -> forall sh,
  admit_da_header g sh = true -> signed_by pk sh = true.
Proof. exact da_header_full. Qed.
Print Assumptions C03_da_header_full.

Theorem C03_da_data_full : forall pk g, g_proposer g = Addr pk -> forall sd,
  admit_da_data g sd = true -> data_signed_by pk sd = true.
Proof. exact da_data_full. Qed.
Print Assumptions C03_da_data_full.

(* ---- what a full node applies, stores, caches: ALL traffic (DA and P2P, any order, any origin) ----- *)
(* every block the node applies and stores has a header signed by the proposer, and its transactions are
   the ones that header commits to; so is every header waiting in the cache *)
Theorem C03_applied_signed_full : forall pk g, g_proposer g = Addr pk -> forall now tb l s,
  sync_inv pk s -> sync_inv pk (node_final g now tb s l).
Proof. exact applied_signed_full. Qed.
Print Assumptions C03_applied_signed_full.

(* ---- the P2P header store as the block manager reads it: ranges ------------------------------------------------- *)
(* HeaderStoreRetrieveLoop reads, per pass, ALL headers the store gained since the last pass (block/store.go:24-58):
   one in the steady state, many after a catch-up, a range sync, a start-up backlog or a slow tick.  Whatever the range
   holds — any number of headers, of any origin (go-header's own checks never look at a signature), forged ones below
   a genuine newest header or above it — what the pass hands to the sync loop is exactly the subsequence of headers
   that pass the sequencer test EACH ON ITS OWN, and every one of them is signed by the proposer's key *)
Theorem C03_store_range_full : forall pk g, g_proposer g = Addr pk -> forall tb l s,
  forward_range g tb s l = fold_left (sync_header tb) (forwarded g l) s /\
  Forall (fun sh => signed_by pk sh = true) (forwarded g l).
Proof. exact store_range_full. Qed.
Print Assumptions C03_store_range_full.

(* a range read in ONE pass leaves the node exactly where its headers leave it when the store grows, and the loop
   passes, one header at a time: the position of a header inside a range gives it nothing *)
Theorem C03_store_range_as_singles_full : forall g now tb l s,
  n_crashed s = false -> range_ok (n_hstore s) l = true ->
  fst (node_step g now tb s (IStoreRange l)) = node_final g now tb s (map (fun x => IStoreRange [x]) l).
Proof. exact range_as_singles. Qed.
Print Assumptions C03_store_range_as_singles_full.

(* ---- transaction data: what ties it to the proposer's signature ------------------------------------- *)
(* Block data on the P2P data topic carries no signature; it is accepted only because the proposer-signed header
   commits to it (types.Validate: DACommitment(data.Txs) == header.DataHash).  The bytes DACommitment hashes
   (Model/AdmissionCommit.v: leafPrefix, then every transaction framed by tag and length) determine the list of
   transactions: two lists with the same commitment are the same list, transaction by transaction, byte by byte
   (SHA-256 symbolic: the hash is its preimage) ... *)
Theorem C03_commitment_binding_full : forall a b : list btx, commit_preimage a = commit_preimage b -> a = b.
Proof. exact commit_preimage_inj. Qed.
Print Assumptions C03_commitment_binding_full.

(* ... equality of the commitments of two byte-level lists (the observable the harness compares) decides their equality ... *)
Theorem C03_commitment_decides_full : forall a b : list btx, same_commitment a b = true <-> a = b.
Proof. exact same_commitment_iff. Qed.
Print Assumptions C03_commitment_decides_full.

(* ... so the symbolic commitment of Model/Types.v (the list of transaction ids) is what the code's commitment
   identifies, for every naming of byte strings by ids that gives different strings different ids *)
Theorem C03_symbolic_commitment_full : forall (I : tx -> btx) (a b : list tx),
  (forall x y, In x a -> In y b -> I x = I y -> x = y) ->
  (commit_preimage (map I a) = commit_preimage (map I b) <-> commitment_eqb a b = true).
Proof. exact symbolic_commitment_sound. Qed.
Print Assumptions C03_symbolic_commitment_full.

(* data that passes the header/data check under a header: its transactions ARE the list the header commits to, and
   any byte-level list with the header's commitment is that data's list *)
Theorem C03_data_under_header_full : forall (I : tx -> btx) sh d, validate_pair sh d = true ->
  d_txs d = h_data (sh_hdr sh) /\
  forall bl : list btx, commit_preimage bl = commit_preimage (map I (h_data (sh_hdr sh))) -> bl = map I (d_txs d).
Proof. exact data_under_header_full. Qed.
Print Assumptions C03_data_under_header_full.

(* for ALL traffic (DA and P2P, any origin, any order): every block the full node applies and stores has a header
   signed by the proposer and exactly the transactions that signed header commits to *)
Theorem C03_applied_txs_full : forall pk g, g_proposer g = Addr pk -> forall (I : tx -> btx) now tb l s, sync_inv pk s ->
  forall sh d, In (sh, d) (n_applied (node_final g now tb s l)) ->
  signed_by pk sh = true /\ d_txs d = h_data (sh_hdr sh) /\
  forall bl : list btx, commit_preimage bl = commit_preimage (map I (h_data (sh_hdr sh))) -> bl = map I (d_txs d).
Proof. exact applied_bytes_full. Qed.
Print Assumptions C03_applied_txs_full.

(* no traffic whatsoever makes a goroutine of the node panic *)
Theorem C03_no_crash_full : forall g now tb l s,
  n_crashed s = false -> n_crashed (node_final g now tb s l) = false.
Proof. exact no_crash_full. Qed.
Print Assumptions C03_no_crash_full.

(* third-party material on the DA layer neither halts a full node nor prevents it from following the
   proposer's chain: for every genuine traffic gs (DA and P2P), every list adv of DA blobs not signed by
   the proposer, every interleaving m, every executor: the ENTIRE node state (store, state, caches, DA
   marks, header/data stores, halted, crashed) is that of the genuine run *)
Theorem C03_no_halt_da_full : forall pk g, g_proposer g = Addr pk -> forall now tb gs adv m,
  interleave gs adv m ->
  forallb (init_ok pk) gs = true -> forallb (da_adversarial pk) adv = true ->
  forall s, hstore_inv pk s ->
  node_final g now tb s m = node_final g now tb s gs.
Proof. exact no_halt_da_full. Qed.
Print Assumptions C03_no_halt_da_full.

(* ---- crowded DA heights: the read of a DA height through RetrieveWithHelpers' batches of 100 ids ------ *)
(* whatever the number of blobs at a DA height, the batched read hands over every one of them, once, in id
   order (nothing behind the 100th, 200th, ... blob is lost) ... *)
Theorem C03_da_height_fetch_full : forall (bl : list blob), fetched bl = bl.
Proof. exact (fetched_all blob). Qed.
Print Assumptions C03_da_height_fetch_full.

(* ... with Get call number k asking for the ids from 100k on, 100 of them or what is left, never none (the
   observable the harness compares) — the batches of property C09's model (C09_chunks_full) ... *)
Theorem C03_da_height_calls_full : forall (bl : list blob) k o n, nth_error (get_calls bl) k = Some (o, n) ->
  o = N.of_nat (k * batch_size) /\ n = N.of_nat (Nat.min batch_size (length bl - k * batch_size)) /\ (0 < n)%N.
Proof. exact (get_calls_nth blob). Qed.
Print Assumptions C03_da_height_calls_full.

Theorem C03_da_height_calls_as_C09 : forall (bl : list blob) (l' : list Retriever.blob), length bl = length l' ->
  get_calls bl = map (fun oc => (N.of_nat (fst oc), N.of_nat (length (snd oc)))) (Retriever.chunks l').
Proof. exact (get_calls_as_C09 blob). Qed.
Print Assumptions C03_da_height_calls_as_C09.

(* ... so a DA height is processed exactly as the sequence of its blobs *)
Theorem C03_da_height_as_blobs_full : forall g now tb s bl,
  fst (node_step g now tb s (IDAHeight bl)) = node_final g now tb s (map IDA bl).
Proof. exact node_step_height. Qed.
Print Assumptions C03_da_height_as_blobs_full.

(* one DA height carrying the proposer's blobs gb and ANY number of third-party blobs ab at ANY positions
   (ahead of, between, behind the proposer's; 130, 350, 10^6 of them): the node is left exactly where the
   height with the proposer's blobs alone leaves it *)
Theorem C03_crowded_height_full : forall pk g, g_proposer g = Addr pk -> forall now tb gb ab mb,
  interleave gb ab mb -> forallb (blob_adversarial pk) ab = true ->
  forall s, hstore_inv pk s ->
  fst (node_step g now tb s (IDAHeight mb)) = fst (node_step g now tb s (IDAHeight gb)).
Proof. exact crowded_height_full. Qed.
Print Assumptions C03_crowded_height_full.

(* C03_no_halt_da_full for traffic given per DA height: genuine traffic gs (DA heights, single blobs, P2P), third-
   party DA material adv (whole heights or single blobs), merged in any way that respects the order of each once
   the heights are spelled out blob by blob — third-party blobs inside the proposer's DA heights included *)
Theorem C03_no_halt_da_heights_full : forall pk g, g_proposer g = Addr pk -> forall now tb gs adv m,
  interleave (expand gs) (expand adv) (expand m) ->
  forallb (init_ok pk) gs = true -> forallb (da_adversarial pk) adv = true ->
  forall s, hstore_inv pk s ->
  node_final g now tb s m = node_final g now tb s gs.
Proof. exact no_halt_da_heights_full. Qed.
Print Assumptions C03_no_halt_da_heights_full.

(* ---- copies that keep an item's identity; signers without a public key ------------------------------ *)
(* the node names a header by its hash and signed data by its commitment; neither covers signature or signer.
   A third party's blob read AHEAD of any blob b - in particular a copy of b with the same header / the same data
   under another signature or signer, which needs no private key - leaves no trace under that identity: b then
   does exactly what it does alone (DA-included mark, hand-over to the syncer, everything).  Earlier DA height: *)
Theorem C03_identity_copy_ahead_full : forall pk g, g_proposer g = Addr pk -> forall now tb s b' b,
  blob_adversarial pk b' = true -> hstore_inv pk s ->
  node_final g now tb s [IDA b'; IDA b] = node_final g now tb s [IDA b].
Proof. exact identity_copy_ahead. Qed.
Print Assumptions C03_identity_copy_ahead_full.
(* ... earlier position in the same DA height *)
Theorem C03_identity_copy_same_height_full : forall pk g, g_proposer g = Addr pk -> forall now tb s b' b,
  blob_adversarial pk b' = true -> hstore_inv pk s ->
  fst (node_step g now tb s (IDAHeight [b'; b])) = fst (node_step g now tb s (IDAHeight [b])).
Proof. exact identity_copy_same_height. Qed.
Print Assumptions C03_identity_copy_same_height_full.
(* a header or signed-data blob whose signer has NO public key (the wire format allows a signer that is an address
   alone), whatever address, signature and content it carries: nothing happens - no mark, no event, no panic, the
   node state is untouched *)
Theorem C03_keyless_signer_ignored_full : forall g now tb s b,
  match b with BHdr sh => sg_pub (sh_signer sh) = None | BData sd => sg_pub (sd_signer sd) = None | _ => False end ->
  node_step g now tb s (IDA b) = (s, 0%N).
Proof. exact keyless_step. Qed.
Print Assumptions C03_keyless_signer_ignored_full.

(* ---- P2P path: the header store of a light (header-only) node and of a full node ------------------ *)
(* full statement: a store holding only proposer-signed headers still does after any gossip item.
   FALSE (F4): Validate() is the embedded Header's, the signature is never looked at. *)
Theorem C03_p2p_header_refuted :
  ~ (forall pk now st u, Forall (fun t => signed_by pk t = true) st ->
       Forall (fun t => signed_by pk t = true) (light_step now st u)).
Proof. exact p2p_header_refuted. Qed.
Print Assumptions C03_p2p_header_refuted.

(* all that is guaranteed: whatever the gossip, every stored header NAMES the proposer's address *)
Theorem C03_p2p_header_partial : forall pk now l st,
  Forall (fun t => names_proposer pk (h_proposer (sh_hdr t)) = true) st ->
  Forall (fun t => names_proposer pk (h_proposer (sh_hdr t)) = true) (light_run now st l).
Proof. exact light_run_names. Qed.
Print Assumptions C03_p2p_header_partial.

(* full statement with adversarial traffic on BOTH channels: every interleaving leaves the node where the
   genuine traffic alone leaves it.  FALSE, through P2P only: unauthenticated data gossip for the next
   height is cached, the genuine header then fails validation and SyncLoop returns. *)
Theorem C03_no_halt_refuted :
  ~ (forall g pk now tb gs adv m s, g_proposer g = Addr pk -> interleave gs adv m ->
       forallb (init_ok pk) gs = true -> forallb (adversarial pk) adv = true -> hstore_inv pk s ->
       node_final g now tb s m = node_final g now tb s gs).
Proof. exact no_halt_refuted. Qed.
Print Assumptions C03_no_halt_refuted.

(* guard [harmless]: anything on DA; header gossip that does not name the proposer; data gossip that does
   not hash-link to the data head *)
Theorem C03_no_halt_partial : forall pk g, g_proposer g = Addr pk -> forall now tb gs adv m,
  interleave gs adv m ->
  forallb (init_ok pk) gs = true -> forallb (harmless pk) adv = true ->
  forall s, hstore_inv pk s ->
  node_final g now tb s m = node_final g now tb s gs.
Proof. exact no_halt_partial. Qed.
Print Assumptions C03_no_halt_partial.

(* ---- non-vacuity --------------------------------------------------------------------------------- *)
Local Open Scope N_scope.
(* the genuine run applies both blocks, does not halt, and reaches DA-included height 2 *)
Example ex_genuine_run :
  let s := node_final W.gen W.now W.tb W.s0 W.genuine in
  (n_height s, n_halted s, n_crashed s, da_included_height W.gen s, List.length (n_applied s))
  = (2, false, false, 2, 2%nat).
Proof. vm_compute. reflexivity. Qed.

(* third-party DA traffic of every shape — the F3 forgeries (header, data, data without Metadata), an honest
   third party under its own address, a re-signed copy, a stolen signature on altered content, junk —
   meets the hypothesis of C03_no_halt_da_full *)
Definition own_signer : signer := {| sg_pub := Some (Pub W.ak); sg_addr := Addr W.ak |}.
Definition own_hdr : header := Header 1 1000 7 None [] 50 (Addr W.ak).
Definition own_sh : sheader := {| sh_hdr := own_hdr; sh_sig := Sig W.ak own_hdr; sh_signer := own_signer |}.
Definition resigned : sheader := {| sh_hdr := W.F1; sh_sig := Sig W.ak W.F1; sh_signer := own_signer |}.
Definition stolen_sig : sheader := {| sh_hdr := W.F1; sh_sig := Sig W.pk W.H1; sh_signer := W.prop_signer |}.
Definition da_adv : list item :=
  [ IDA (BHdr W.fsh1); IDA (BData W.fsd); IDA (BData W.fsd_nometa); IDA (BHdr own_sh); IDA (BHdr resigned);
    IDA (BHdr stolen_sig); IDA BJunk; IDA BHdrUndecodable; IDA BEmpty ].
Example ex_da_guard : forallb (da_adversarial W.pk) da_adv = true /\ forallb (init_ok W.pk) W.genuine = true
  /\ forallb (init_ok W.pk) W.genuine_p2p = true.
Proof. vm_compute. repeat split; reflexivity. Qed.
(* a copy of the proposer's header of block 2 with the same Header and the proposer's signer but a junk signature, and
   one whose signer is the proposer's address WITHOUT the public key (same for the signed data): same identity; read ahead of the proposer's own blobs - at earlier DA heights and inside the same height -
   they change nothing: DA-included height 2 all the same *)
Definition junk_copy2 : sheader := {| sh_hdr := W.H2; sh_sig := SigJunk 1; sh_signer := W.prop_signer |}.
Definition keyless_copy2 : sheader := {| sh_hdr := W.H2; sh_sig := Sig W.pk W.H2; sh_signer := {| sg_pub := None; sg_addr := Addr W.pk |} |}.
Definition keyless_data2 : sdata := {| sd_data := W.D2; sd_sig := DSig W.pk W.D2; sd_signer := {| sg_pub := None; sg_addr := Addr W.pk |} |}.
Example ex_identity_copies :
  (blob_adversarial W.pk (BHdr junk_copy2) = true) /\
  (sg_pub (sh_signer keyless_copy2) = None /\ sg_pub (sd_signer keyless_data2) = None) /\
  (header_eqb (sh_hdr junk_copy2) (sh_hdr W.sh2) && header_eqb (sh_hdr keyless_copy2) (sh_hdr W.sh2) = true) /\
  (node_final W.gen W.now W.tb W.s0
     [IDA (BHdr W.sh1); IDA (BHdr junk_copy2); IDA (BHdr keyless_copy2); IDAHeight [BData keyless_data2; BHdr junk_copy2; BHdr W.sh2; BData W.sd2]]
   = node_final W.gen W.now W.tb W.s0 [IDA (BHdr W.sh1); IDAHeight [BHdr W.sh2; BData W.sd2]]) /\
  (da_included_height W.gen (node_final W.gen W.now W.tb W.s0
     [IDA (BHdr W.sh1); IDA (BHdr junk_copy2); IDA (BHdr keyless_copy2); IDAHeight [BData keyless_data2; BHdr junk_copy2; BHdr W.sh2; BData W.sd2]]) = 2).
Proof. vm_compute. repeat split; reflexivity. Qed.
(* a DA height with 130 third-party blobs (junk, undecodable headers, forgeries) ahead of the proposer's header
   and data of block 2, 57 more behind: 3 Get calls, the last one partial and holding the proposer's blobs; the
   node ends where the genuine traffic alone leaves it; a read that stopped after the full batches would not *)
Definition crowd_front : list blob := repeat BJunk 60 ++ repeat BHdrUndecodable 30 ++ repeat (BHdr W.fsh1) 40.
Definition crowded : list blob := repeat BJunk 100 ++ crowd_front ++ [BHdr W.sh2; BData W.sd2] ++ repeat (BData W.fsd) 57.
Example ex_crowded_height :
  (get_calls crowded = [(0, 100); (100, 100); (200, 89)]) /\
  (forallb (blob_adversarial W.pk) (repeat BJunk 100 ++ crowd_front ++ repeat (BData W.fsd) 57) = true) /\
  (node_final W.gen W.now W.tb W.s0 [IDA (BHdr W.sh1); IDAHeight crowded] = node_final W.gen W.now W.tb W.s0 W.genuine) /\
  (snd (node_step W.gen W.now W.tb (node_final W.gen W.now W.tb W.s0 [IDA (BHdr W.sh1)]) (IDAHeight crowded)) = 12) /\
  (n_height (node_final W.gen W.now W.tb W.s0 [IDA (BHdr W.sh1); IDAHeight (firstn 200 crowded)]) = 1).
Proof. vm_compute. repeat split; reflexivity. Qed.

Example ex_harmless_p2p : forallb (harmless W.pk) [IGossipH own_sh; IGossipD W.FD false] = true.
Proof. vm_compute. reflexivity. Qed.

(* a range of the header store: a self-consistent forgery for height 2 (made, addressed and signed with a third party's
   own key; the content of the genuine header otherwise) BELOW the genuine header of height 3.  It passes ValidateBasic,
   it is not handed to the sync loop; the genuine data of block 2 is waiting in the cache, and the node stays at
   height 1.  A test of the proposer done once per range, on its newest header (the rest only through ValidateBasic),
   hands the forgery over: block 2 is applied and stored under a header the proposer never signed. *)
Definition H3 : header := Header 3 3000 7 (Some W.H2) [] 52 (Addr W.pk).
Definition sh3 : sheader := {| sh_hdr := H3; sh_sig := Sig W.pk H3; sh_signer := W.prop_signer |}.
Definition FH2 : header := Header 2 2000 7 (Some W.H1) [5; 6] 51 (Addr W.ak).
Definition fsh2 : sheader := {| sh_hdr := FH2; sh_sig := Sig W.ak FH2; sh_signer := own_signer |}.
Definition tb3 : exec_tbl := W.tb ++ [(52, [], 53)].
Definition before_range : list item := [IInitH W.sh1; IInitD W.D1; IGossipD W.D2 true].
Definition forward_range_newest_only (g : genesis) (tb : exec_tbl) (s : nstate) (l : list sheader) : nstate :=
  match rev l with
  | newest :: _ =>
      if addr_eqb (h_proposer (sh_hdr newest)) (g_proposer g)
      then fold_left (fun s sh => if validate_basic sh then sync_header tb s sh else s) l s
      else s
  | [] => s
  end.
Example ex_store_range :
  let s0 := node_final W.gen W.now tb3 W.s0 before_range in
  let s := fst (node_step W.gen W.now tb3 s0 (IStoreRange [fsh2; sh3])) in
  let bad := forward_range_newest_only W.gen tb3 s0 [fsh2; sh3] in
  (validate_basic fsh2, signed_by W.pk fsh2, range_ok (n_hstore s0) [fsh2; sh3],
   map (fun x => h_height (sh_hdr x)) (forwarded W.gen [fsh2; sh3]),
   snd (node_step W.gen W.now tb3 s0 (IStoreRange [fsh2; sh3])),
   n_height s, match n_hstore s with t :: _ => h_height (sh_hdr t) | [] => 0 end, n_height bad, map (fun b => signed_by W.pk (fst b)) (n_applied bad))
  = (true, false, true, [3], 21, 1, 3, 3, [true; false; true]).
Proof. vm_compute. reflexivity. Qed.
(* the same range with the genuine header of height 2: both blocks are applied; a range is honest traffic ([init_ok]) *)
Example ex_store_range_genuine :
  let s := node_final W.gen W.now tb3 W.s0 (before_range ++ [IStoreRange [W.sh2; sh3]]) in
  (n_height s, n_halted s, forallb (init_ok W.pk) (before_range ++ [IStoreRange [W.sh2; sh3]])) = (3, false, true).
Proof. vm_compute. reflexivity. Qed.

(* the P2P witness: genuine P2P traffic reaches height 2; with one unauthenticated data item the node halts at 1 *)
Example ex_p2p_data_halts :
  let a := node_final W.gen W.now W.tb W.s0 W.genuine_p2p in
  let b := node_final W.gen W.now W.tb W.s0 W.mixed_p2p in
  (n_height a, n_halted a, n_height b, n_halted b, adversarial W.pk (IGossipD W.FD true)) = (2, false, 1, true, true).
Proof. vm_compute. reflexivity. Qed.

(* the tie of transaction data to the signed header.  The encoding: tag 18, length, bytes per transaction behind the
   leaf prefix 0; lengths from 128 on take two groups *)
Example ex_commit_preimage :
  commit_preimage [[10; 11; 12]; [13; 14]; []] = [0; 18; 3; 10; 11; 12; 18; 2; 13; 14; 18; 0] /\
  varint 127 = [127] /\ varint 128 = [128; 1] /\ varint 300 = [172; 2] /\ commit_preimage [] = empty_preimage.
Proof. vm_compute. repeat split; reflexivity. Qed.
(* the proposer's transactions of block 2 ([10;11;12] and [13;14]) cut one byte further ([10;11;12;13] and [14]), or
   preceded by an empty transaction: the same bare concatenation, NOT the same commitment; the header/data check
   refuses both and takes the proposer's list *)
Example ex_recut_refused :
  unframed_preimage (interp WC.p [5; 6]) = unframed_preimage (interp WC.p [7; 8]) /\
  unframed_preimage (interp WC.p [5; 6]) = unframed_preimage (interp WC.p [9; 5; 6]) /\
  same_commitment (interp WC.p [5; 6]) (interp WC.p [7; 8]) = false /\
  same_commitment (interp WC.p [5; 6]) (interp WC.p [9; 5; 6]) = false /\
  same_commitment (interp WC.p [9]) [] = false /\
  (validate_pair W.sh2 WC.RD, validate_pair W.sh2 WC.ED, validate_pair W.sh2 W.D2) = (false, false, true).
Proof. vm_compute. repeat split; reflexivity. Qed.
(* a commitment over the bare concatenation would not determine the list *)
Example ex_unframed_not_binding : exists a b : list btx, unframed_preimage a = unframed_preimage b /\ a <> b.
Proof. exact unframed_not_binding. Qed.
(* the hypothesis of C03_symbolic_commitment_full is met by the pool of these examples *)
Example ex_pool_injective : forall x y, In x [5; 6] -> In y [7; 8] -> pool_get WC.p x = pool_get WC.p y -> x = y.
Proof. exact WC.p_inj_56_78. Qed.
(* the re-cut data gossiped for block 2 ahead of the genuine data: it is cached, the genuine header then fails the
   check against it — nothing but block 1 is ever applied (that the node halts is the listed P2P finding) *)
Example ex_recut_never_applied :
  let s := node_final W.gen W.now W.tb W.s0 WC.recut_p2p in
  (n_height s, n_halted s, map (fun b => d_txs (snd b)) (n_applied s)) = (1, true, [[]]).
Proof. vm_compute. reflexivity. Qed.

(* the light node: an unsigned header that names the proposer and hash-links to the head is stored, and the
   genuine header of that height is then rejected as known *)
Example ex_light_stores_unsigned :
  (p2p_validate W.ush2, p2p_verify W.now W.sh1 W.ush2, validate_basic W.ush2,
   List.length (light_run W.now [W.sh1] [W.ush2; W.sh2]))
  = (true, VAccept, false, 2%nat).
Proof. vm_compute. reflexivity. Qed.

(* ---- the defects that were repaired, kept as Examples ------------------------------------------------ *)
(* ValidateBasic / isValidSignedData before the fix "bind the signer's address to the signer's public key" *)
Definition validate_basic_before (sh : sheader) : bool :=
  negb (addr_eqb (h_proposer (sh_hdr sh)) AddrEmpty) &&
  match sh_sig sh with SigEmpty => false | _ => true end &&
  addr_eqb (h_proposer (sh_hdr sh)) (sg_addr (sh_signer sh)) &&
  match sg_pub (sh_signer sh) with Some p => verify_header p (sh_hdr sh) (sh_sig sh) | None => false end.
Definition is_valid_signed_data_before (g : genesis) (sd : sdata) : bool :=
  addr_eqb (sg_addr (sd_signer sd)) (g_proposer g) &&
  match sg_pub (sd_signer sd) with Some p => verify_data p (sd_data sd) (sd_sig sd) | None => false end.

(* F3: a header signed with a third-party key under the proposer's ADDRESS passed; it does not any more *)
Example before_the_repair_forged_header_admitted :
  (validate_basic_before W.fsh1, signed_by W.pk W.fsh1, validate_basic W.fsh1, admit_da_header W.gen W.fsh1)
  = (true, false, false, false).
Proof. vm_compute. reflexivity. Qed.
Example before_the_repair_forged_data_admitted :
  (is_valid_signed_data_before W.gen W.fsd, data_signed_by W.pk W.fsd, is_valid_signed_data W.gen W.fsd,
   admit_da_data W.gen W.fsd) = (true, false, false, false).
Proof. vm_compute. reflexivity. Qed.
(* the forged data blob without Metadata was admitted and then dereferenced (panic); now it is ignored *)
Example before_the_repair_nil_metadata_panic :
  (is_valid_signed_data_before W.gen W.fsd_nometa, d_meta (sd_data W.fsd_nometa),
   o_panic (da_admit W.gen [] [] (BData W.fsd_nometa)), admit_da_data W.gen W.fsd_nometa) = (true, None, false, false).
Proof. vm_compute. reflexivity. Qed.
(* the forged header for the next height used to halt the node; now the run equals the genuine one *)
Example before_the_repair_forgery_halted :
  node_final W.gen W.now W.tb W.s0 (IDA (BHdr W.fsh1) :: W.genuine) = node_final W.gen W.now W.tb W.s0 W.genuine.
Proof. vm_compute. reflexivity. Qed.

(* ---- OVER TRANSLATED CODE -------------------------------------------------------------------------------------
   The two functions through which everything a syncing node reads from the DA layer passes —
   handlePotentialHeader and handlePotentialData of block/retriever.go — translated from /repo's source on every run
   (coq/gen/GoLiteFuns.v) and evaluated by Model/GoLite.v: whatever the blob (any class: junk, undecodable, any
   header, any signed data), whatever the seen-sets and the DA height, if the function does ANYTHING — a DA-included
   mark in a cache, a wake-up of the DA includer, an event handed to the sync loop — the blob is a header / signed data
   signed with the genesis proposer's private key.  (Blob decoding by class is assumed: C12's subject.) *)
Theorem C03_translated_header_path_full : forall pk g, g_proposer g = Addr pk ->
  forall hs ds b da vals effs,
  b <> BEmpty ->
  GoLite.run_eff GoLiteFuns.gen_funs [] GoLiteAdmitRefine.header_path
                 (Some (GoLite.VMgr (GoLiteAdmit.mk_mgr g hs ds))) [GoLite.VUnit; GoLite.VBlob b; GoLite.VN da] = Some (vals, effs) ->
  effs <> [] ->
  exists sh, b = BHdr sh /\ signed_by pk sh = true.
Proof. exact GoLiteAdmitRefine.translated_header_path_only_proposer. Qed.
Print Assumptions C03_translated_header_path_full.

Theorem C03_translated_data_path_full : forall pk g, g_proposer g = Addr pk ->
  forall hs ds b da vals effs,
  GoLite.run_eff GoLiteFuns.gen_funs [] GoLiteAdmitRefine.data_path
                 (Some (GoLite.VMgr (GoLiteAdmit.mk_mgr g hs ds))) [GoLite.VUnit; GoLite.VBlob b; GoLite.VN da] = Some (vals, effs) ->
  effs <> [] ->
  exists sd, b = BData sd /\ data_signed_by pk sd = true.
Proof. exact GoLiteAdmitRefine.translated_data_path_only_proposer. Qed.
Print Assumptions C03_translated_data_path_full.
