(* Props/C02.v — full node converges to exactly the proposer's chain under any delivery order.
   Statements only; every proof is [exact <lemma of Proofs/SyncerProofs.v>].
   Quantification: every execution layer [exec], genesis [g], proposer key [k], every chain [C] with
   ChainValid (the conclusion of C01: consecutive heights from the initial height, hash links, times
   non-decreasing, data hash = commitment of the txs, app hash = root after all earlier blocks, signed by
   the proposer with signer = (Pub k, Addr k)), every history [h] of header events, data events (any
   order, any multiplicity, any DA tag — both ingress paths only append events) and clean restarts at
   any point.  Model = the code after the repairs f41125c, 5877669, 3873d52. *)
From Coq Require Import String NArith ZArith List Bool.
From Verif Require Import Base.KV Base.Keys Model.Types Model.Syncer Proofs.SyncerProofs.
Import ListNotations.
Open Scope list_scope.
Open Scope N_scope.

(* SyncLoop never stops on chain material, and after every history the node has applied exactly the
   first j blocks of C for some j: recorded height = initial + j - 1, the stored block at every height up
   to it IS the proposer's block (header term = hash, signature, transactions), the state is the state
   after those j blocks, and the execution calls made are exactly blocks 1..j of C, in height order,
   each once, with the proposer's transactions and previous root (no height skipped or repeated). *)
Theorem C02_safety_full : forall exec g k C h,
  ChainValid exec g k C -> Forall (item_in C) h -> forallb is_clean h = true ->
  n_status (run exec g h) = Running /\
  exists j, synced_to exec g C (run exec g h) j /\
            n_log (run exec g h) = calls_after exec (genesis_state g) C j.
Proof. exact safety. Qed.
Print Assumptions C02_safety_full.

(* the chain height never decreases: a longer history has applied at least as many blocks
   (proved for every history, crashes included) *)
Theorem C02_monotone_full : forall exec g k C h1 h2,
  ChainValid exec g k C -> Forall (item_in C) (h1 ++ h2) ->
  exists j1 j2, (j1 <= j2)%nat /\ synced_to exec g C (run exec g h1) j1 /\ synced_to exec g C (run exec g (h1 ++ h2)) j2.
Proof. exact monotone. Qed.
Print Assumptions C02_monotone_full.

(* completeness AS WORDED IS FALSE of the code (F2, still open): there is a valid chain (two blocks
   with the same non-empty transaction list) and a history delivering the header and the data of every
   block up to m after which the node is below height initial + m - 1 — the second data event is dropped
   as seen because the seen-set is keyed by the commitment of the transactions only (sync.go) *)
Theorem C02_complete_refuted :
  exists exec g k C h m,
    ChainValid exec g k C /\ Forall (item_in C) h /\ forallb is_clean h = true /\ (m <= length C)%nat /\
    (forall i b, (i < m)%nat -> nth_error C i = Some b -> header_delivered h b) /\
    (forall i b, (i < m)%nat -> nth_error C i = Some b -> d_txs (snd b) <> [] -> data_delivered h b) /\
    d_height (n_disk (run exec g h)) < g_initial g + N.of_nat m - 1.
Proof. exact complete_refuted. Qed.
Print Assumptions C02_complete_refuted.

(* completeness UNDER THE GUARD "the non-empty transaction lists of C are pairwise distinct"
   (decidable: distinct_commitmentsb C = true): if the history contains the header of every block up to
   m and the data of every non-empty one, in any order, with any duplication and restarts, the node is at
   height >= initial + m - 1.  Together with C02_safety_full: it holds exactly the proposer's blocks,
   transactions and state roots at every such height. *)
Theorem C02_complete_partial : forall exec g k C h m,
  ChainValid exec g k C -> Forall (item_in C) h -> forallb is_clean h = true ->
  distinct_commitmentsb C = true -> (m <= length C)%nat ->
  (forall i b, (i < m)%nat -> nth_error C i = Some b -> header_delivered h b) ->
  (forall i b, (i < m)%nat -> nth_error C i = Some b -> d_txs (snd b) <> [] -> data_delivered h b) ->
  g_initial g + N.of_nat m - 1 <= d_height (n_disk (run exec g h)).
Proof. exact complete_partial. Qed.
Print Assumptions C02_complete_partial.

(* the refutation witness violates exactly that guard *)
Example f2_outside_guard : distinct_commitmentsb f2_chain = false.
Proof. exact complete_refuted_guard. Qed.

(* ---- non-vacuity: a 6-block chain (initial height 5) with a run of empty blocks, delivered in reverse
   with duplicates, a data event for an empty block, and a clean restart in the middle ------------- *)
Definition ex6 := ex_chain 5 [([], 100%Z); ([1; 2], 100%Z); ([], 103%Z); ([], 103%Z); ([3], 104%Z); ([4], 110%Z)].
Definition ex6_hist :=
  [ evh ex6 5 9; evd ex6 5 9; evh ex6 4 2; evd ex6 4 2; evd ex6 4 3; evh ex6 3 1; IRestart; evh ex6 2 1; evd ex6 2 1;
    evd ex6 1 7; evh ex6 1 7; evh ex6 1 8; evh ex6 0 0; evh ex6 5 9 ].

Example ex6_valid : ChainValid ex_exec (ex_g 5) 1 ex6 /\ distinct_commitmentsb ex6 = true.
Proof. split; [chain_valid|vm_compute; reflexivity]. Qed.
Example ex6_items : Forall (item_in ex6) ex6_hist /\ forallb is_clean ex6_hist = true.
Proof. split; [repeat constructor; cbn; try exact I; eexists; solve_in|reflexivity]. Qed.
Example ex6_result :
  d_height (n_disk (run ex_exec (ex_g 5) ex6_hist)) = 10 /\
  map x_height (n_log (run ex_exec (ex_g 5) ex6_hist)) = [5; 6; 7; 8; 9; 10] /\
  d_height (n_disk (run ex_exec (ex_g 5) (firstn 12 ex6_hist))) = 4.
Proof. vm_compute. repeat split; reflexivity. Qed.

(* ======== any signature payload provider, transient store read faults (Model/Syncer.v, second part) ========
   Quantification in addition to the above: every signature payload provider [prov] (ManagerOptions of the
   proposer and of the node; the chain's headers are signed over [payload prov h]), and histories whose events
   may each carry a read fault [Some n] = the (n+1)-th store.Height() call made while that event is handled
   returns an error (n = 0: the read of the SyncLoop case — the event is skipped, not cached, not marked as
   seen; n > 0: a read inside trySyncNextBlock — SyncLoop returns, the node goes on at the next start), and
   clean restarts at any point (which is where the provider matters: what the caches held at the stop is
   validated by the new process with ITS provider — sync.go:155-156 — not with whatever verifier was attached
   to the object when it was cached and which the cache files do not keep). *)

(* the model of the first part is the instance: default provider, no fault *)
Theorem C02_default_instance_full : forall exec g h,
  frun exec 0 g (map lift h) = run exec g h.
Proof. exact frun_lift. Qed.
Print Assumptions C02_default_instance_full.

(* safety: after every such history the node has applied exactly a prefix of the chain (blocks, state,
   execution calls as in C02_safety_full); SyncLoop is running or has returned, and it is running whenever no
   height read inside trySyncNextBlock was made to fail since the last start — in particular a clean restart
   with headers or data pending in the caches never makes it stop, whatever the provider *)
Theorem C02_safety_faults_full : forall exec prov g k C h,
  ChainValidP exec prov g k C -> Forall (fitem_in C) h -> forallb fclean h = true ->
  (n_status (frun exec prov g h) = Running \/ n_status (frun exec prov g h) = Halted) /\
  (live_after true h = true -> n_status (frun exec prov g h) = Running) /\
  exists j, synced_to exec g C (frun exec prov g h) j /\
            n_log (frun exec prov g h) = calls_after exec (genesis_state g) C j.
Proof. exact safety_f. Qed.
Print Assumptions C02_safety_faults_full.

Theorem C02_monotone_faults_full : forall exec prov g k C h1 h2,
  ChainValidP exec prov g k C -> Forall (fitem_in C) (h1 ++ h2) ->
  exists j1 j2, (j1 <= j2)%nat /\ synced_to exec g C (frun exec prov g h1) j1 /\
                synced_to exec g C (frun exec prov g (h1 ++ h2)) j2.
Proof. exact monotone_f. Qed.
Print Assumptions C02_monotone_faults_full.

(* completeness under the guard distinct_commitmentsb (the open finding, nothing else): what counts as
   received is an event whose own height read did not fail and that arrived while SyncLoop was running
   ([delivered_live]); if SyncLoop is running at the end, every block up to m whose header and (if not
   empty) data were so received is applied *)
Theorem C02_complete_faults_partial : forall exec prov g k C h m,
  ChainValidP exec prov g k C -> Forall (fitem_in C) h -> forallb fclean h = true ->
  distinct_commitmentsb C = true -> (m <= length C)%nat ->
  n_status (frun exec prov g h) = Running ->
  (forall i b, (i < m)%nat -> nth_error C i = Some b -> delivered_live exec prov g [] h (EvHeader (fst b))) ->
  (forall i b, (i < m)%nat -> nth_error C i = Some b -> d_txs (snd b) <> [] ->
     delivered_live exec prov g [] h (EvData (snd b))) ->
  g_initial g + N.of_nat m - 1 <= d_height (n_disk (frun exec prov g h)).
Proof. exact complete_f. Qed.
Print Assumptions C02_complete_faults_partial.

(* every event lost to a failed height read is delivered again: with faults only at the reads of the SyncLoop
   cases (any number, any events), a history that contains for every block up to m a header event and (if not
   empty) a data event whose own read did not fail brings the node to height >= initial + m - 1 — the lost
   deliveries of the same events, before or after, change nothing (they are not marked as seen) *)
Theorem C02_complete_redelivery_partial : forall exec prov g k C h m,
  ChainValidP exec prov g k C -> Forall (fitem_in C) h -> forallb fclean h = true ->
  distinct_commitmentsb C = true -> (m <= length C)%nat ->
  forallb (fun i => negb (halting i)) h = true ->
  (forall i b, (i < m)%nat -> nth_error C i = Some b ->
     exists da flt, In (FEv (EvHeader (fst b) da) flt) h /\ flt <> Some O) ->
  (forall i b, (i < m)%nat -> nth_error C i = Some b -> d_txs (snd b) <> [] ->
     exists da flt, In (FEv (EvData (snd b) da) flt) h /\ flt <> Some O) ->
  g_initial g + N.of_nat m - 1 <= d_height (n_disk (frun exec prov g h)).
Proof. exact complete_redelivery. Qed.
Print Assumptions C02_complete_redelivery_partial.

(* ---- non-vacuity: the 6-block chain signed under provider 2.  Headers 5..3 and data 5, 4 are pending when
   the node is stopped cleanly; the data of block 4 is lost twice to a failed height read and arrives a third
   time; a height read inside trySyncNextBlock fails while header 1 is handled (SyncLoop returns, what arrives
   meanwhile is lost), the node is started again and receives the rest ---------------------------------- *)
Definition ex7 := ex_chain_p 2 5 [([], 100%Z); ([1; 2], 100%Z); ([], 103%Z); ([], 103%Z); ([3], 104%Z); ([4], 110%Z)].
Definition ex7_hist :=
  [ fevh ex7 5 9 None; fevd ex7 5 9 None; fevh ex7 4 2 None; fevd ex7 4 2 (Some O); fevd ex7 4 3 (Some O); fevh ex7 3 1 None;
    FRestart; fevd ex7 4 3 None; fevh ex7 2 1 None; fevd ex7 1 7 None; fevh ex7 1 7 (Some 1%nat); fevh ex7 0 0 None;
    FRestart; fevh ex7 0 0 None ].
Example ex7_valid : ChainValidP ex_exec 2 (ex_g 5) 1 ex7 /\ distinct_commitmentsb ex7 = true.
Proof. split; [chain_valid|vm_compute; reflexivity]. Qed.
Example ex7_not_default : ~ ChainValidP ex_exec 0 (ex_g 5) 1 ex7.
Proof. intros (_ & _ & H). vm_compute in H. discriminate H. Qed.
Example ex7_items : Forall (fitem_in ex7) ex7_hist /\ forallb fclean ex7_hist = true /\ live_after true ex7_hist = true.
Proof. split; [repeat constructor; cbn; try exact I; eexists; solve_in|split; reflexivity]. Qed.
Example ex7_result :
  (* the lost data of block 4 (index 4 = height 9) is not marked as seen: heights 9 and 10 are applied once it arrives again *)
  map (fun p => d_height (n_disk (frun ex_exec 2 (ex_g 5) (firstn p ex7_hist)))) [6; 7; 10; 11; 12; 13; 14]%nat = [4; 4; 4; 4; 4; 4; 10] /\
  (* SyncLoop returned at the failed read inside trySyncNextBlock, runs again after the start *)
  map (fun p => n_status (frun ex_exec 2 (ex_g 5) (firstn p ex7_hist))) [10; 11; 12; 13]%nat = [Running; Halted; Halted; Running] /\
  map x_height (n_log (frun ex_exec 2 (ex_g 5) ex7_hist)) = [5; 6; 7; 8; 9; 10] /\
  (* the provider matters: the same history on a node configured with the default provider stops at the first block *)
  n_status (frun ex_exec 0 (ex_g 5) ex7_hist) = Halted /\ d_height (n_disk (frun ex_exec 0 (ex_g 5) ex7_hist)) = 4.
Proof. vm_compute. repeat split; reflexivity. Qed.

(* ======== P2P ingress: block/store.go HeaderStoreRetrieveLoop / DataStoreRetrieveLoop (Model/P2PIngress.v) ========
   Code state: after the repair 2ae5bf0 (the cursor only moves forward, after the range was handed to sync).
   Quantification: every initial cursor, EVERY sequence of signals — any store heights (bursts of any size,
   a node started arbitrarily far behind, an empty store, store heights that go down), a batch read failing at
   any signal, any DA tags — and every junk filter [accept] of the header loop. *)
From Coq Require Import Sorting.Sorted.
From Verif Require Import Model.P2PIngress Proofs.P2PIngressProofs.

(* no height is skipped: the cursor never passes a height that was not handed to SyncLoop *)
Theorem C02_p2p_no_skip_full : forall accept sigs cur n,
  cur < n -> n <= cursor_after accept cur sigs -> accept n = true -> In n (emitted accept cur sigs).
Proof. exact no_skip. Qed.
Print Assumptions C02_p2p_no_skip_full.

(* the cursor: it never decreases; a wake-up whose batch read failed leaves it where it was (the same range
   is read again at the next signal); after a wake-up whose batch read did not fail it is the larger of the
   previous cursor and the store height of that signal — also for an empty store (0) and for initial height > 1 *)
Theorem C02_p2p_cursor_full : forall accept cur sigs s,
  cur <= cursor_after accept cur sigs /\
  cursor_after accept cur sigs <= cursor_after accept cur (sigs ++ [s]) /\
  cursor_after accept cur (sigs ++ [s]) =
    if gap_hit (cursor_after accept cur sigs) s then cursor_after accept cur sigs
    else N.max (cursor_after accept cur sigs) (ps_store s).
Proof. exact cursor_law. Qed.
Print Assumptions C02_p2p_cursor_full.

(* eventually handed over: once a wake-up's batch read succeeds — after any number of failed ones, whatever
   came before and whatever comes after — every height the P2P store held at that wake-up (above the loop's
   initial cursor = the node's own height when the loop started) has been handed to SyncLoop.  What remains a
   hypothesis is only that some read of the range succeeds: while GetByHeight keeps failing inside the range
   nothing of it is sent (the loop reads the whole range before it sends anything) *)
Theorem C02_p2p_handed_over_full : forall accept cur sigs s rest n,
  gap_hit (cursor_after accept cur sigs) s = false ->
  cur < n -> n <= ps_store s -> accept n = true -> In n (emitted accept cur (sigs ++ s :: rest)).
Proof. exact handed_over_once_served. Qed.
Print Assumptions C02_p2p_handed_over_full.

(* exactly once and in increasing order — for every sequence of signals (no condition on the store heights) *)
Theorem C02_p2p_once_in_order_full : forall accept sigs cur,
  StronglySorted N.lt (emitted accept cur sigs) /\ NoDup (emitted accept cur sigs).
Proof. exact once_in_order. Qed.
Print Assumptions C02_p2p_once_in_order_full.

(* the cursor REACHES the highest head the P2P store ever showed: a store that begins at t <= initial cursor + 1
   (the chain's initial height; the loop starts with the node's height >= initial - 1) and never fails a read of
   a height it holds — whatever its head heights do: empty at some wake-ups, bursts of any size, going down.
   (Before 2ae5bf0 this was false for t > 1: C02_p2p_wedge_before_the_repair below.) *)
Theorem C02_p2p_reaches_store_full : forall accept t sigs cur,
  t <= cur + 1 -> forallb (never_fails t) sigs = true ->
  cursor_after accept cur sigs = max_store cur sigs.
Proof. exact reaches_store. Qed.
Print Assumptions C02_p2p_reaches_store_full.

(* nothing else is handed over: only heights some signal's store held, that pass the filter *)
Theorem C02_p2p_only_store_heights_full : forall accept sigs cur n,
  In n (emitted accept cur sigs) -> exists s, In s sigs /\ n <= ps_store s /\ accept n = true.
Proof. exact emitted_in_store. Qed.
Print Assumptions C02_p2p_only_store_heights_full.

(* COMPOSITION with C02_complete_partial (its guard distinct_commitmentsb is the only one, hence _partial): a
   node fed by P2P only.  After any past h1 (events, clean restarts, crashes), the loops of the running
   process start at or below the node's height and see any signals; if SyncLoop consumes (h2, any order,
   anything of the chain in between) what they handed over, the node reaches every height both cursors
   reached.  With C02_safety_full the blocks at those heights are exactly the proposer's. *)
Theorem C02_p2p_complete_partial : forall exec g k C (acc : N -> bool) h1 hsigs dsigs ch cd h2 m,
  ChainValid exec g k C -> distinct_commitmentsb C = true ->
  Forall (item_in C) h1 ->
  ch <= d_height (n_disk (run exec g h1)) -> cd <= d_height (n_disk (run exec g h1)) ->
  Forall (item_in C) h2 -> forallb is_clean h2 = true ->
  incl (hdr_events g C (emissions acc ch hsigs)) h2 ->
  incl (data_events g C (emissions (fun _ => true) cd dsigs)) h2 ->
  (m <= length C)%nat ->
  (forall i, (i < m)%nat -> acc (g_initial g + N.of_nat i) = true) ->
  g_initial g + N.of_nat m - 1 <= cursor_after acc ch hsigs ->
  g_initial g + N.of_nat m - 1 <= cursor_after (fun _ => true) cd dsigs ->
  g_initial g + N.of_nat m - 1 <= d_height (n_disk (run exec g (h1 ++ h2))).
Proof. exact p2p_complete. Qed.
Print Assumptions C02_p2p_complete_partial.

(* the same in terms of the P2P STORES, with no condition on their head heights (no "not empty when asked"
   any more): stores that begin at the chain's initial height and never fail a read of a height they hold,
   loops that start with the node's height; if at SOME wake-up the header store showed a head >= H and at some
   wake-up the data store did (empty or lower at any other wake-up, before or after), the node reaches H *)
Theorem C02_p2p_complete_stores_partial : forall exec g k C (acc : N -> bool) h1 hsigs dsigs ch cd h2 m sh sd,
  ChainValid exec g k C -> distinct_commitmentsb C = true ->
  Forall (item_in C) h1 ->
  ch <= d_height (n_disk (run exec g h1)) -> cd <= d_height (n_disk (run exec g h1)) ->
  g_initial g <= ch + 1 -> g_initial g <= cd + 1 ->
  forallb (never_fails (g_initial g)) hsigs = true -> forallb (never_fails (g_initial g)) dsigs = true ->
  Forall (item_in C) h2 -> forallb is_clean h2 = true ->
  incl (hdr_events g C (emissions acc ch hsigs)) h2 ->
  incl (data_events g C (emissions (fun _ => true) cd dsigs)) h2 ->
  (m <= length C)%nat ->
  (forall i, (i < m)%nat -> acc (g_initial g + N.of_nat i) = true) ->
  In sh hsigs -> In sd dsigs ->
  g_initial g + N.of_nat m - 1 <= ps_store sh -> g_initial g + N.of_nat m - 1 <= ps_store sd ->
  g_initial g + N.of_nat m - 1 <= d_height (n_disk (run exec g (h1 ++ h2))).
Proof. exact p2p_complete_stores. Qed.
Print Assumptions C02_p2p_complete_stores_partial.

(* ---- the code before 2ae5bf0 (fixed finding p2p-wedged-after-signal-on-empty-store-initial-gt-1): chain with
   initial height 7, node at height 6, one wake-up while the P2P store is still empty (Height() = 0) let the
   cursor fall to 0; every later batch read started at height 1, which a store that begins at 7 does not
   hold, failed, and nothing was ever handed over.  The repaired loop keeps the cursor at 6 and hands over
   7..16 at the next wake-up. *)
Definition wedge_sigs : list psignal :=
  {| ps_store := 0; ps_tail := 7; ps_gap := None; ps_da := 0 |} ::
  repeat {| ps_store := 16; ps_tail := 7; ps_gap := None; ps_da := 0 |} 3.
Example C02_p2p_wedge_before_the_repair :
  forallb (never_fails 7) wedge_sigs = true /\
  loop_run_before_the_repair (fun _ => true) 6 wedge_sigs = ([[]; []; []; []], 0) /\
  map (map fst) (fst (loop_run (fun _ => true) 6 wedge_sigs)) = [[]; seq_from 6 10; []; []] /\
  cursor_after (fun _ => true) 6 wedge_sigs = 16.
Proof. vm_compute. repeat split; reflexivity. Qed.

(* ---- non-vacuity: a 160-block chain from height 5 (every third block empty); the node starts 30 blocks
   behind; the header store is found EMPTY at the first wake-up, then holds 30 blocks, then jumps by 130 (one
   read fails first), is seen lower once more; the data store jumps by 160 at once *)
Definition exL := ex_long 5 160.
Definition exL_hsigs := [ {| ps_store := 0; ps_tail := 5; ps_gap := None; ps_da := 0 |};
                          {| ps_store := 34; ps_tail := 5; ps_gap := None; ps_da := 0 |};
                          {| ps_store := 164; ps_tail := 5; ps_gap := Some 100; ps_da := 3 |};
                          {| ps_store := 164; ps_tail := 5; ps_gap := None; ps_da := 3 |};
                          {| ps_store := 90; ps_tail := 5; ps_gap := None; ps_da := 4 |} ].
Definition exL_dsigs := [ {| ps_store := 164; ps_tail := 5; ps_gap := None; ps_da := 1 |}; {| ps_store := 164; ps_tail := 5; ps_gap := None; ps_da := 2 |} ].
Definition exL_h2 := hdr_events (ex_g 5) exL (emissions (fun _ => true) 4 exL_hsigs) ++
                     data_events (ex_g 5) exL (emissions (fun _ => true) 4 exL_dsigs).
Example exL_valid : ChainValid ex_exec (ex_g 5) 1 exL /\ distinct_commitmentsb exL = true.
Proof. split; [chain_valid|vm_compute; reflexivity]. Qed.
Example exL_guard : forallb (never_fails 5) exL_dsigs = true /\ forallb (never_fails 5) exL_hsigs = false.
Proof. split; reflexivity. Qed.
Example exL_signals :
  map (@length _) (fst (loop_run (fun _ => true) 4 exL_hsigs)) = [0; 30; 0; 130; 0]%nat /\
  emitted (fun _ => true) 4 exL_hsigs = seq_from 4 160 /\ cursor_after (fun _ => true) 4 exL_hsigs = 164 /\
  emitted (fun _ => true) 4 exL_dsigs = seq_from 4 160 /\ cursor_after (fun _ => true) 4 exL_dsigs = 164 /\
  max_store 4 exL_dsigs = 164.
Proof. vm_compute. repeat split; reflexivity. Qed.
Example exL_result :
  length exL_h2 = 320%nat /\ forallb is_clean exL_h2 = true /\
  d_height (n_disk (run ex_exec (ex_g 5) [])) = 4 /\
  d_height (n_disk (run ex_exec (ex_g 5) exL_h2)) = 164 /\
  map x_height (n_log (run ex_exec (ex_g 5) exL_h2)) = seq_from 4 160.
Proof. vm_compute. repeat split; reflexivity. Qed.

(* ======== DA ingress: a DA request that comes back with an ERROR (Model/DAIngress.v) ========================
   types/da.go RetrieveWithHelpers, block/retriever.go fetchBlobs / processNextDAHeaderAndData / RetrieveLoop, one
   REQUEST (fetch attempt) at a time.  Quantification: every content of the DA layer (parts of the proposer's
   chain at any DA heights: several per height, out of block order, data below headers, empty heights), every start
   position, and EVERY sequence of outcomes of the retriever's successive requests — an error of any class
   (generic, context.DeadlineExceeded, coreda.ErrContextDeadline, context.Canceled, coreda.ErrContextCanceled,
   height from the future, not found) at GetIDs or at Get, or the blobs — however the requests are grouped into
   wake-ups and retry rounds (that schedule and the classification of blobs are C09's subject). *)
From Verif Require Import Model.DAIngress Proofs.DAIngressProofs.

(* every error class is a failure: a request that comes back with an error — of GetIDs, unless the error says
   "not found"; of Get, whenever the height has ids — hands nothing to SyncLoop and leaves the scan position *)
Theorem C02_da_error_classes_full : forall ct cur (e : derr),
  (e <> ENotFound -> da_step ct cur (OIds e) = (cur, [])) /\
  (blobs_at ct cur <> [] -> da_step ct cur (OGet e) = (cur, [])).
Proof. exact every_error_class_fails. Qed.
Print Assumptions C02_da_error_classes_full.

(* the scan position: it never decreases, and one more request moves it — by exactly one — iff the request was
   ANSWERED: the blobs, "not found", or a height for which no ids are listed *)
Theorem C02_da_cursor_full : forall ct c0 outs o,
  c0 <= da_cursor ct c0 outs /\
  da_cursor ct c0 (outs ++ [o]) =
    (let cur := da_cursor ct c0 outs in
     match o with
     | OOk => cur + 1
     | OIds e => if is_notfound e then cur + 1 else cur
     | OGet _ => if nonempty (blobs_at ct cur) then cur else cur + 1
     end).
Proof. exact cursor_law. Qed.
Print Assumptions C02_da_cursor_full.

(* no DA height is stepped over: every blob of every height the scan position has passed was handed to SyncLoop
   (tagged with that height) — unless the DA layer itself denied the height ("not found" for a height that
   carries blobs: da_lies) *)
Theorem C02_da_no_skip_full : forall ct outs c0 x p,
  c0 <= x -> x < da_cursor ct c0 outs -> In p (blobs_at ct x) ->
  In (p, x) (da_handed ct c0 outs) \/ In x (da_lies ct c0 outs).
Proof. exact no_skip. Qed.
Print Assumptions C02_da_no_skip_full.

(* nothing else is handed over: only blobs the DA layer holds, of heights the scan has passed, with their height *)
Theorem C02_da_only_da_content_full : forall ct outs c0 p x,
  In (p, x) (da_handed ct c0 outs) -> c0 <= x /\ x < da_cursor ct c0 outs /\ In p (blobs_at ct x).
Proof. exact handed_sound. Qed.
Print Assumptions C02_da_only_da_content_full.

(* a failed request costs a request, never a height: the scan position is the start position plus the number of
   answered requests; so when at most F requests fail and the retriever keeps asking, every height is passed *)
Theorem C02_da_progress_full : forall ct outs c0,
  (da_failures ct c0 outs <= length outs)%nat /\
  da_cursor ct c0 outs = c0 + N.of_nat (length outs - da_failures ct c0 outs) /\
  forall F n, (da_failures ct c0 outs <= F)%nat -> (F + n <= length outs)%nat -> c0 + N.of_nat n <= da_cursor ct c0 outs.
Proof.
  intros ct outs c0. destruct (progress_count ct outs c0) as (A & B).
  split; [exact A|]. split; [exact B|]. intros F n. exact (reaches ct outs c0 F n).
Qed.
Print Assumptions C02_da_progress_full.

(* COMPOSITION with the syncer's completeness (guard distinct_commitmentsb only, hence _partial), for every
   signature payload provider: a node fed by the DA layer.  After any past h1 (events, read faults, clean restarts,
   crashes; no height read inside trySyncNextBlock failed since the last start), the retriever of the running
   process starts at c0 and its requests meet any outcomes; if SyncLoop consumes (h2: clean, any order, anything
   else of the chain in between) what the retriever handed over, the node reaches every height up to which each
   block is applied already, or was delivered some other way (P2P), or lies — header and, if not empty, data — at
   a DA height the scan has passed without the DA layer denying it.  With C02_safety_faults_full the blocks at
   those heights are exactly the proposer's. *)
Theorem C02_da_complete_partial : forall exec prov g k C h1 ct c0 outs h2 m,
  ChainValidP exec prov g k C -> distinct_commitmentsb C = true ->
  Forall (fitem_in C) h1 -> live_after true h1 = true ->
  Forall (item_in C) h2 -> forallb is_clean h2 = true ->
  incl (da_events C (da_handed ct c0 outs)) h2 ->
  (m <= length C)%nat ->
  (forall i b, (i < m)%nat -> nth_error C i = Some b ->
     g_initial g + N.of_nat i <= d_height (n_disk (frun exec prov g h1)) \/ header_delivered h2 b \/
     scanned ct c0 outs (PH (N.of_nat i))) ->
  (forall i b, (i < m)%nat -> nth_error C i = Some b -> d_txs (snd b) <> [] ->
     g_initial g + N.of_nat i <= d_height (n_disk (frun exec prov g h1)) \/ data_delivered h2 b \/
     scanned ct c0 outs (PD (N.of_nat i))) ->
  g_initial g + N.of_nat m - 1 <= d_height (n_disk (frun exec prov g (h1 ++ map lift h2))).
Proof. exact da_complete_p. Qed.
Print Assumptions C02_da_complete_partial.

(* ---- non-vacuity: the 6-block chain ex6 on a DA layer (heights 1..5, height 3 empty, the header of block 1 above
   its data, block 0 by P2P only); the requests meet a deadline of the DA node, a cancelled context, a request
   timeout, failing Gets (generic, "not found", cancelled), "from the future" twice, and twice more at the tip — 10 failed requests of 16, no
   height lost: everything is handed over, once, in DA order, and the node reaches the proposer's height *)
Example exDA_scan :
  da_cursor ex_da 0 ex_outs = 6 /\ da_failures ex_da 0 ex_outs = 10%nat /\ da_lies ex_da 0 ex_outs = [] /\
  da_asked ex_da 0 ex_outs = [0; 1; 1; 1; 1; 2; 2; 2; 3; 4; 4; 4; 4; 5; 6; 6] /\
  da_handed ex_da 0 ex_outs =
    [(PD 1, 1); (PH 2, 1); (PH 1, 2); (PH 3, 2); (PD 4, 4); (PH 4, 4); (PH 5, 4); (PD 5, 5)].
Proof. vm_compute. repeat split; reflexivity. Qed.
Definition exDA_h2 := evh ex6 0 0 :: da_events ex6 (da_handed ex_da 0 ex_outs).
Example exDA_result :
  length exDA_h2 = 9%nat /\ forallb is_clean exDA_h2 = true /\
  d_height (n_disk (run ex_exec (ex_g 5) exDA_h2)) = 10 /\
  map x_height (n_log (run ex_exec (ex_g 5) exDA_h2)) = [5; 6; 7; 8; 9; 10].
Proof. vm_compute. repeat split; reflexivity. Qed.
(* a DA layer that denies height 2 once: the scan goes on (the code's answer to "not found"), the denial is
   recorded, the headers of blocks 1 and 3 are not handed over — the case the composition theorem excludes *)
Example exDA_denied :
  da_lies ex_da 0 [OIds ENotFound; OOk; OIds ENotFound; OIds ENotFound; OOk] = [2] /\
  da_cursor ex_da 0 [OIds ENotFound; OOk; OIds ENotFound; OIds ENotFound; OOk] = 5 /\
  map fst (da_handed ex_da 0 [OIds ENotFound; OOk; OIds ENotFound; OIds ENotFound; OOk]) = [PD 1; PH 2; PD 4; PH 4; PH 5].
Proof. vm_compute. repeat split; reflexivity. Qed.

(* ---- non-vacuity of the completeness theorems for LONG backlogs: 111 blocks from height 5; blocks 1..110 arrive
   top-down (every header, every data), then the data of block 0, while the header of block 0 is missing: nothing is
   applied; the header of block 0 arrives last and the ONE trySyncNextBlock call it triggers applies all 111 blocks (the model's
   loop has no bound per call: fuel = cached headers + 1) *)
Definition exB := ex_long 5 111.
Definition exB_above := flat_map (fun i => [evd exB i 1; evh exB i 1]) (rev (seq 1 110)) ++ [evd exB 0 1].
Example exB_valid : ChainValid ex_exec (ex_g 5) 1 exB /\ distinct_commitmentsb exB = true.
Proof. split; [chain_valid|vm_compute; reflexivity]. Qed.
Example exB_result :
  length exB_above = 221%nat /\
  d_height (n_disk (run ex_exec (ex_g 5) exB_above)) = 4 /\
  d_height (n_disk (run ex_exec (ex_g 5) (exB_above ++ [evh exB 0 1]))) = 115 /\
  length (n_log (run ex_exec (ex_g 5) (exB_above ++ [evh exB 0 1]))) = 111%nat.
Proof. vm_compute. repeat split; reflexivity. Qed.

(* ---- the P2P store loops TRANSLATED FROM THE SOURCE (Check/GoLiteP2PIngress.v, regenerated on every run) ----------
   ONE ITERATION of Manager.HeaderStoreRetrieveLoop / DataStoreRetrieveLoop, read off the code's own observation
   (Proofs/GoLiteP2PIngressRefine.code_step: the heights are those of the range the code asked its reader for, each
   handed over iff the translated walk body sends it, tagged with the DA height it was given; the cursor is the one
   the iteration hands to the next), IS the step of the model the p2p theorems above are stated over — for every
   junk filter, cursor and signal; and so is every run over a sequence of signals. *)
From Verif Require Check.GoLiteP2PIngress Proofs.GoLiteP2PIngressRefine.
Theorem C02_translated_p2p_step_is_loop_step_full : forall (accept : N -> bool) (cur : N) (s : P2PIngress.psignal),
  GoLiteP2PIngressRefine.code_step true accept cur s = P2PIngress.loop_step accept cur s /\
  GoLiteP2PIngressRefine.code_step false (fun _ => true) cur s = P2PIngress.loop_step (fun _ => true) cur s.
Proof. exact GoLiteP2PIngressRefine.code_step_is_loop_step. Qed.
Print Assumptions C02_translated_p2p_step_is_loop_step_full.

Theorem C02_translated_p2p_run_is_loop_run_full : forall (accept : N -> bool) (sigs : list P2PIngress.psignal) (cur : N),
  GoLiteP2PIngressRefine.code_run true accept cur sigs = P2PIngress.loop_run accept cur sigs /\
  GoLiteP2PIngressRefine.code_run false (fun _ => true) cur sigs = P2PIngress.loop_run (fun _ => true) cur sigs.
Proof. exact GoLiteP2PIngressRefine.code_run_is_loop_run. Qed.
Print Assumptions C02_translated_p2p_run_is_loop_run_full.

(* a range of the P2P store that cannot be read: the translated iteration hands nothing over and keeps its cursor *)
Theorem C02_translated_p2p_failed_read_keeps_cursor_full : forall hdr accept cur s,
  (cur <? P2PIngress.ps_store s) = true -> P2PIngress.gap_hit cur s = true ->
  GoLiteP2PIngressRefine.code_step hdr accept cur s = ([], cur).
Proof. exact GoLiteP2PIngressRefine.failed_read_keeps_cursor. Qed.
Print Assumptions C02_translated_p2p_failed_read_keeps_cursor_full.

(* the range reader behind them (getHeadersFromHeaderStore / getDataFromDataStore), run iteration by iteration with the
   translated body: asked for (cursor+1, store height) it reads exactly P2PIngress.loop_reads, in that order, and
   succeeds exactly when the model says no gap is hit — the outcome the iteration above is instantiated with *)
Theorem C02_translated_p2p_reads_are_loop_reads_full : forall (store : String.string) (cur : N) (s : P2PIngress.psignal),
  (cur <? P2PIngress.ps_store s) = true ->
  GoLiteP2PIngressRefine.code_reads store (S (N.to_nat (P2PIngress.ps_store s - cur))) (cur + 1) (P2PIngress.ps_store s) (cur + 1)
    (GoLiteP2PIngressRefine.fails_of s)
  = (P2PIngress.loop_reads cur s, negb (P2PIngress.gap_hit cur s)).
Proof. exact GoLiteP2PIngressRefine.reads_are_loop_reads. Qed.
Print Assumptions C02_translated_p2p_reads_are_loop_reads_full.
