(* Props/C02.v — full node converges to exactly the proposer's chain under any delivery order.
   Statements only; every proof is [exact <lemma of Proofs/SyncerProofs.v>].
   Quantification: every execution layer [exec], genesis [g], proposer key [k], every chain [C] with
   ChainValid (the conclusion of C01: consecutive heights from the initial height, hash links, times
   non-decreasing, data hash = commitment of the txs, app hash = root after all earlier blocks, signed by
   the proposer with signer = (Pub k, Addr k)), every history [h] of header events, data events (any
   order, any multiplicity, any DA tag — both ingress paths only append events) and clean restarts at
   any point.  Model = the code after the repairs f41125c, 5877669, 3873d52. *)
From Coq Require Import String NArith ZArith List Bool.
From Verif Require Import Base.KV Base.Keys Model.Types Model.Syncer Proofs.SyncerProofs.
Import ListNotations.
Open Scope list_scope.
Open Scope N_scope.

(* SyncLoop never stops on chain material, and after every history the node has applied exactly the
   first j blocks of C for some j: recorded height = initial + j - 1, the stored block at every height up
   to it IS the proposer's block (header term = hash, signature, transactions), the state is the state
   after those j blocks, and the execution calls made are exactly blocks 1..j of C, in height order,
   each once, with the proposer's transactions and previous root (no height skipped or repeated). *)
Theorem C02_safety_full : forall exec g k C h,
  ChainValid exec g k C -> Forall (item_in C) h -> forallb is_clean h = true ->
  n_status (run exec g h) = Running /\
  exists j, synced_to exec g C (run exec g h) j /\
            n_log (run exec g h) = calls_after exec (genesis_state g) C j.
Proof. exact safety. Qed.
Print Assumptions C02_safety_full.

(* the chain height never decreases: a longer history has applied at least as many blocks
   (proved for every history, crashes included) *)
Theorem C02_monotone_full : forall exec g k C h1 h2,
  ChainValid exec g k C -> Forall (item_in C) (h1 ++ h2) ->
  exists j1 j2, (j1 <= j2)%nat /\ synced_to exec g C (run exec g h1) j1 /\ synced_to exec g C (run exec g (h1 ++ h2)) j2.
Proof. exact monotone. Qed.
Print Assumptions C02_monotone_full.

(* completeness AS WORDED IS FALSE of the code (F2, still open): there is a valid chain (two blocks
   with the same non-empty transaction list) and a history delivering the header and the data of every
   block up to m after which the node is below height initial + m - 1 — the second data event is dropped
   as seen because the seen-set is keyed by the commitment of the transactions only (sync.go) *)
Theorem C02_complete_refuted :
  exists exec g k C h m,
    ChainValid exec g k C /\ Forall (item_in C) h /\ forallb is_clean h = true /\ (m <= length C)%nat /\
    (forall i b, (i < m)%nat -> nth_error C i = Some b -> header_delivered h b) /\
    (forall i b, (i < m)%nat -> nth_error C i = Some b -> d_txs (snd b) <> [] -> data_delivered h b) /\
    d_height (n_disk (run exec g h)) < g_initial g + N.of_nat m - 1.
Proof. exact complete_refuted. Qed.
Print Assumptions C02_complete_refuted.

(* completeness UNDER THE GUARD "the non-empty transaction lists of C are pairwise distinct"
   (decidable: distinct_commitmentsb C = true): if the history contains the header of every block up to
   m and the data of every non-empty one, in any order, with any duplication and restarts, the node is at
   height >= initial + m - 1.  Together with C02_safety_full: it holds exactly the proposer's blocks,
   transactions and state roots at every such height. *)
Theorem C02_complete_partial : forall exec g k C h m,
  ChainValid exec g k C -> Forall (item_in C) h -> forallb is_clean h = true ->
  distinct_commitmentsb C = true -> (m <= length C)%nat ->
  (forall i b, (i < m)%nat -> nth_error C i = Some b -> header_delivered h b) ->
  (forall i b, (i < m)%nat -> nth_error C i = Some b -> d_txs (snd b) <> [] -> data_delivered h b) ->
  g_initial g + N.of_nat m - 1 <= d_height (n_disk (run exec g h)).
Proof. exact complete_partial. Qed.
Print Assumptions C02_complete_partial.

(* the refutation witness violates exactly that guard *)
Example f2_outside_guard : distinct_commitmentsb f2_chain = false.
Proof. exact complete_refuted_guard. Qed.

(* ---- non-vacuity: a 6-block chain (initial height 5) with a run of empty blocks, delivered in reverse
   with duplicates, a data event for an empty block, and a clean restart in the middle ------------- *)
Definition ex6 := ex_chain 5 [([], 100%Z); ([1; 2], 100%Z); ([], 103%Z); ([], 103%Z); ([3], 104%Z); ([4], 110%Z)].
Definition ex6_hist :=
  [ evh ex6 5 9; evd ex6 5 9; evh ex6 4 2; evd ex6 4 2; evd ex6 4 3; evh ex6 3 1; IRestart; evh ex6 2 1; evd ex6 2 1;
    evd ex6 1 7; evh ex6 1 7; evh ex6 1 8; evh ex6 0 0; evh ex6 5 9 ].

Example ex6_valid : ChainValid ex_exec (ex_g 5) 1 ex6 /\ distinct_commitmentsb ex6 = true.
Proof. split; [chain_valid|vm_compute; reflexivity]. Qed.
Example ex6_items : Forall (item_in ex6) ex6_hist /\ forallb is_clean ex6_hist = true.
Proof. split; [repeat constructor; cbn; try exact I; eexists; solve_in|reflexivity]. Qed.
Example ex6_result :
  d_height (n_disk (run ex_exec (ex_g 5) ex6_hist)) = 10 /\
  map x_height (n_log (run ex_exec (ex_g 5) ex6_hist)) = [5; 6; 7; 8; 9; 10] /\
  d_height (n_disk (run ex_exec (ex_g 5) (firstn 12 ex6_hist))) = 4.
Proof. vm_compute. repeat split; reflexivity. Qed.
