(* Props/C13.v — concurrent background loops: stop protocol (part B) and invariants under every
   interleaving (part A).  Statements only; every proof is [exact <lemma>].
   Data-race freedom in the sense of the Go memory model is NOT stated here: no executable Gallina model
   exhibits it (DESIGN 3/C13, 7); the race-detector build of the real loops is evidence, not proof. *)
From Coq Require Import String List Bool Arith.
From Coq Require Import NArith.
From Verif Require Import Model.StopProto Proofs.StopProtoProofs gen.BlockPoints Check.BlockPointsLemmas Check.StopCheck Check.StopBefore.
From Verif Require Import Model.Conc Proofs.ConcProofs Model.ConcFull Proofs.ConcFullProofs.
Import ListNotations.
Open Scope nat_scope.
Open Scope string_scope.

(* ---- part B: stop protocol -------------------------------------------------------------------------
   An activity moves between its blocking operations; the environment chooses the control flow, whether an
   ordinary case is ready, and whether Go's select prefers it over <-ctx.Done().  [others ms] = number of
   visits at which the environment makes select prefer another ready case (the bound K of the design). *)

(* For EVERY table of blocking operations and EVERY activity all of whose reachable operations are
   cancellable: from every blocking operation, for every environment, the activity has returned after any
   K+1 (or more) visits following the cancellation.  Guard (decidable): all_cancellable t reach = true. *)
Theorem C13_prompt_stop_partial : forall (t : list bpoint) (reach : list string),
  all_cancellable t reach = true ->
  forall (ms : list move) (p : bpoint),
    In p (activity_points t reach) -> others ms < length ms ->
    run_cancelled (activity_points t reach) (Running p) ms = Returned.
Proof. exact prompt_stop_activity. Qed.
Print Assumptions C13_prompt_stop_partial.

(* On the table regenerated from /repo/block/*.go by this run (after the repairs ca974a2, 0d6bd4f, 4176904): eight
   of the nine loops stop promptly, from every blocking operation, for every environment - no assumption. *)
Theorem C13_prompt_stop_today_partial : forall (root : string) (reach : list string),
  In (root, reach) loop_reach ->
  In root ["SyncLoop"; "RetrieveLoop"; "HeaderStoreRetrieveLoop"; "DataStoreRetrieveLoop";
           "HeaderSubmissionLoop"; "DataSubmissionLoop"; "DAIncluderLoop"; "Reaper.Start"] ->
  forall (ms : list move) (p : bpoint),
    In p (activity_points block_points reach) -> others ms < length ms ->
    run_cancelled (activity_points block_points reach) (Running p) ms = Returned.
Proof. exact prompt_stop_today. Qed.
Print Assumptions C13_prompt_stop_today_partial.

(* All NINE loops, AggregationLoop included, under one named assumption on a collaborator: the two broadcasters
   return once the context they are given (the errgroup's, a child of the loop's) is done, so that
   publishBlockInternal's g.Wait - the only operation the table still lists as not cancellable - is cancellable by
   delegation.  [delegated] changes exactly that one entry.  The assumption is tested by the harness (scenarios
   in-flight-bcast.WriteToStoreAndBroadcast:header / :data and broadcast-stalled), not proved. *)
Theorem C13_prompt_stop_all_loops_partial : forall (root : string) (reach : list string),
  In (root, reach) loop_reach ->
  forall (ms : list move) (p : bpoint),
    In p (activity_points (delegated block_points) reach) -> others ms < length ms ->
    run_cancelled (activity_points (delegated block_points) reach) (Running p) ms = Returned.
Proof. exact prompt_stop_all_delegated. Qed.
Print Assumptions C13_prompt_stop_all_loops_partial.

(* The operations that are NOT cancellable in the source of this run are exactly these (function, kind,
   channel / call text - never line numbers); a new one or a changed one breaks the equality. *)
Theorem C13_non_cancellable_exact_partial :
  map describe (non_cancellable block_points) = [ ("publishBlockInternal", "wait", "g.Wait") ]
  /\ length (filter is_broadcast_wait block_points) = 1.
Proof. exact (conj non_cancellable_today (proj2 delegated_guard)). Qed.
Print Assumptions C13_non_cancellable_exact_partial.

(* which loops the guard of C13_prompt_stop_partial covers in the source of this run; all nine loop roots exist *)
Theorem C13_loops_covered_partial :
  map (fun r => (fst r, all_cancellable block_points (snd r))) loop_reach =
  [ ("AggregationLoop", false); ("SyncLoop", true); ("RetrieveLoop", true);
    ("HeaderStoreRetrieveLoop", true); ("DataStoreRetrieveLoop", true);
    ("HeaderSubmissionLoop", true); ("DataSubmissionLoop", true);
    ("DAIncluderLoop", true); ("Reaper.Start", true) ].
Proof. exact loops_cancellable_today. Qed.
Print Assumptions C13_loops_covered_partial.

(* What the assumption above is needed for.  In the model an operation that is not cancellable keeps its loop for
   ever under the environment that never completes it; of today's table that is g.Wait alone, i.e. WITHOUT the
   assumption on the broadcasters the worded property is false of the model (AggregationLoop parked in g.Wait
   while a broadcaster never returns).  On the real code this is a hang only with a broadcaster that ignores its
   context; with broadcasters that honour it the loop returns (harness) - it is not listed as a finding. *)
Theorem C13_listed_can_hang_refuted : forall (root : string) (reach : list string) (p : bpoint),
  In (root, reach) loop_reach -> In p (activity_points block_points reach) -> bp_cancellable p = false ->
  forall n, run_cancelled (activity_points block_points reach) (Running p) (repeat block_forever n) = Running p.
Proof. exact listed_can_hang. Qed.
Print Assumptions C13_listed_can_hang_refuted.

Theorem C13_prompt_stop_refuted :
  ~ (forall root reach, In (root, reach) loop_reach ->
     forall ms p, In p (activity_points block_points reach) -> others ms < length ms ->
                  run_cancelled (activity_points block_points reach) (Running p) ms = Returned).
Proof. exact full_prompt_stop_false. Qed.
Print Assumptions C13_prompt_stop_refuted.

(* ---- part A: invariants under every interleaving ---------------------------------------------------------
   Model/Conc.v: block producer, header submitter, data submitter and DA-includer of an aggregator as programs
   over atomic actions (one durable write / one read of shared state / one call to a double), started from a
   fresh node (initial height 1).  A schedule is a list of (activity, answer of the double if the action is a
   call).  Block production includes the pending-limit test at the head of publishBlockInternal and
   PendingData.numWaitingData, which steps over data without transactions right above the data watermark: the
   data watermark has TWO writers (data submission loop, block production), both through
   pendingBase.setLastSubmittedHeight = Lock; load + compare-and-swap; put; Unlock (four actions; the mutex
   setMu of the repair d1559c9 is part of the shared state).
   NOT in the model: reaper, retriever, P2P pollers, sync loop (so C02 is not covered), datastore errors.

   For EVERY schedule, after EVERY action (every prefix): the joint invariant J holds - G: the committed chain
   1..height is present, final and hash-linked, an early-saved block above it already names the top block
   (C01); both submission watermarks are at most the height, the durable ones at most the volatile ones and EQUAL
   to them whenever the watermark's mutex is free, and everything at or below a watermark that its submitter
   sends is on the DA layer (C06); every DA-included mark
   is backed by the DA layer, the DA-included height is at most the height, every block at or below it is
   entirely on the DA layer, and DA-included <= persisted <= finalized <= DA-included + 1 (C07) - together with
   what each activity knows at each program point (Pcl / Scl / Icl: e.g. the state record is one above the store
   height exactly between the producer's `put /s` and `put /t`). *)
Theorem C13_interleaving_full : forall (sched : list (act * env)) (n : nat), J (run init (firstn n sched)).
Proof. exact interleaving_every_prefix. Qed.
Print Assumptions C13_interleaving_full.

(* from ANY state satisfying the invariant (not only the fresh node), every schedule keeps it *)
Theorem C13_interleaving_from_full : forall (st : state) (sched : list (act * env)), J st -> J (run st sched).
Proof. exact interleaving_from. Qed.
Print Assumptions C13_interleaving_from_full.

(* across every single action of every schedule: the height, both watermarks - the volatile values AND the
   durable (recorded) ones, with two concurrent writers of the data watermark - and the DA-included height never
   go back, committed blocks are never rewritten, the DA layer never loses a blob *)
Theorem C13_monotone_full : forall (sched : list (act * env)) (ae : act * env),
  mono (sh (run init sched)) (sh (run init (sched ++ [ae]))).
Proof. exact monotone. Qed.
Print Assumptions C13_monotone_full.

(* the boolean check that the harness evaluates on the real halted aggregator holds of every reachable model
   state in which the producer is between two steps *)
Theorem C13_observable_check_full : forall sched : list (act * env),
  pp (run init sched) = PL0 -> gcheck (sh (run init sched)) = [].
Proof. exact gcheck_reachable. Qed.
Print Assumptions C13_observable_check_full.

(* the two writers of the data watermark exclude each other between Lock and Unlock, on every schedule *)
Theorem C13_watermark_mutex_full : forall sched : list (act * env),
  ~ (holds_p (pp (run init sched)) = true /\ holds_s (ps (run init sched) Dat) = true).
Proof. exact watermark_mutex. Qed.
Print Assumptions C13_watermark_mutex_full.

(* whenever nobody is inside setLastSubmittedHeight the recorded watermark is the in-memory one: a restart resumes
   exactly where the node stood, nothing accepted is submitted again *)
Theorem C13_recorded_watermark_full : forall (sched : list (act * env)) (k : kind),
  mu (sh (run init sched)) k = 0%N -> wmp (sh (run init sched)) k = wmv (sh (run init sched)) k.
Proof. exact durable_is_volatile_when_free. Qed.
Print Assumptions C13_recorded_watermark_full.

(* PRE-REPAIR behaviour (before d1559c9; Model/Conc.v run_old = the same programs with Lock / Unlock doing
   nothing): compare-and-swap in memory, then the store write, unordered between the two writers.  C13_monotone_full
   is FALSE of that code: on the schedule two_writers_sched block production steps over the empty block 1 (swaps
   0 -> 1), the data submission loop has block 2 accepted, swaps 1 -> 2 and stores 2, then block production
   stores 1 - the recorded height goes 2 -> 1 with block 2's data already on the DA layer.  Confirmed on the real
   pre-repair code by the harness (seeded/C13-5 = revert of the repair; findings/C13-two-writers-data-watermark.json). *)
Theorem C13_two_writers_unlocked_refuted :
  ~ (forall (sched : list (act * env)) (ae : act * env),
       mono (sh (run_old init sched)) (sh (run_old init (sched ++ [ae])))).
Proof. exact two_writers_unlocked_false. Qed.
Print Assumptions C13_two_writers_unlocked_refuted.

(* ---- part A, NON-aggregator set (Model/ConcFull.v): delivery of header / data events in any order (DA scan and
   P2P pollers; a DA event first sets its DA-included mark), the sync loop with trySyncNextBlock (repaired write
   order block / state / height), the DA-includer; for EVERY proposer's chain.  Admission is assumed (header
   events are the proposer's headers - C03's subject); data events from the P2P store are arbitrary.
   For EVERY schedule, after EVERY action: FJ holds - the committed store is exactly a prefix of the proposer's
   chain (C02 safety), the header cache holds only the proposer's headers, the state height is the store height
   (one above exactly between `put /s` and `put /t`), DA-included <= height with every block at or below it
   carrying both marks, DA-included <= persisted <= finalized <= DA-included + 1 (C07).
   NOT covered: liveness (that the node catches up: the seen sets and the signals between the loops are not in
   the model), admission itself, the channel capacities, crashes. *)
Theorem C13_interleaving_fullnode_full : forall (chain_h chain_d : N -> N) (sched : list (fact * fenv)) (n : nat),
  FJ chain_h chain_d (frun chain_h chain_d finit (firstn n sched)).
Proof. exact finterleaving_every_prefix. Qed.
Print Assumptions C13_interleaving_fullnode_full.

Theorem C13_monotone_fullnode_full : forall (chain_h chain_d : N -> N) (sched : list (fact * fenv)) (ae : fact * fenv),
  fmono (fsh (frun chain_h chain_d finit sched)) (fsh (frun chain_h chain_d finit (sched ++ [ae]))).
Proof. exact fmonotone. Qed.
Print Assumptions C13_monotone_fullnode_full.

Theorem C13_observable_check_fullnode_full : forall (chain_h chain_d : N -> N) (sched : list (fact * fenv)),
  (match py (frun chain_h chain_d finit sched) with T5 _ => False | _ => True end) ->
  fcheck chain_h chain_d (fsh (frun chain_h chain_d finit sched)) = [].
Proof. exact fcheck_reachable. Qed.
Print Assumptions C13_observable_check_fullnode_full.

(* ---- non-vacuity ------------------------------------------------------------------------------------ *)
(* the guard holds of a real loop with several blocking operations (HeaderSubmissionLoop reaches the select
   of the loop and the back-off select of submitToDA), and an environment with K = 2 meets the bound *)
Definition ex_reach : list string := nth 5 (map snd loop_reach) [].
Definition ex_env : list move :=
  [ {| mv_ready := true; mv_pick_other := true; mv_next := 1 |};
    {| mv_ready := true; mv_pick_other := true; mv_next := 0 |};
    {| mv_ready := true; mv_pick_other := false; mv_next := 1 |} ].
Example ex_guard : all_cancellable block_points ex_reach = true /\ length (activity_points block_points ex_reach) = 2.
Proof. vm_compute. split; reflexivity. Qed.
Example ex_bound : others ex_env = 2 /\ others ex_env < length ex_env.
Proof. vm_compute. split; [reflexivity | apply le_n]. Qed.
Example ex_runs_two_more_then_returns :
  match activity_points block_points ex_reach with
  | p :: _ => run_cancelled (activity_points block_points ex_reach) (Running p) (firstn 2 ex_env) <> Returned
              /\ run_cancelled (activity_points block_points ex_reach) (Running p) ex_env = Returned
  | [] => False
  end.
Proof. vm_compute. split; [discriminate | reflexivity]. Qed.

(* part A: a schedule in which the four activities interleave inside each other's steps: block 1 (with
   transactions) is produced while the header submitter already runs, submitted (header and data), marked,
   and DA-included while the producer is in the middle of block 2 *)
Definition ok (n : N) : env := {| e_ok := true; e_txs := true; e_n := n |}.
Definition skip : env := {| e_ok := false; e_txs := false; e_n := 0 |}.   (* limit test: numWaitingData not called *)
Definition ex_sched : list (act * env) :=
  [ (AProd, skip); (AProd, ok 0); (AProd, ok 0); (ASub Hdr, ok 0); (AProd, ok 0); (AProd, ok 0); (AProd, ok 0); (AProd, ok 7);
    (AIncl, ok 0); (AProd, ok 0); (AProd, ok 0); (AProd, ok 0); (AIncl, ok 0); (AProd, ok 0); (AProd, ok 0);
    (* height is 1 now *)
    (ASub Hdr, ok 0); (AProd, skip); (AProd, ok 0); (ASub Dat, ok 0); (ASub Hdr, ok 0); (AProd, ok 0); (ASub Dat, ok 0);
    (ASub Hdr, ok 1); (AProd, ok 0); (ASub Dat, ok 1); (AProd, ok 0); (ASub Hdr, ok 0); (ASub Dat, ok 0); (AProd, ok 0);
    (AIncl, ok 0); (ASub Hdr, ok 0); (AIncl, ok 0); (ASub Dat, ok 0); (AProd, ok 9); (AIncl, ok 0); (AIncl, ok 0);
    (ASub Hdr, ok 0); (AIncl, ok 0); (AIncl, ok 0); (ASub Dat, ok 0); (AIncl, ok 0); (AIncl, ok 0); (AIncl, ok 0);
    (* the put and the Unlock of both submitters *)
    (ASub Hdr, ok 0); (ASub Dat, ok 0); (ASub Hdr, ok 0); (ASub Dat, ok 0) ].
Example ex_sched_reaches :
  let s := sh (run init ex_sched) in
  (ht s, wmv s Hdr, wmv s Dat, wmp s Hdr, wmp s Dat, di s, pdi s, fin s) = (1, 1, 1, 1, 1, 1, 1, 1)%N
  /\ blk s 2 <> None /\ pp (run init ex_sched) <> PL0.
Proof. vm_compute. repeat split; discriminate. Qed.

(* the two writers of the data watermark.  Pre-repair discipline: the recorded height decreases (2 -> 1) and all
   mutexes are free, i.e. the state is at rest with recorded < in-memory and block 2's data on the DA layer ... *)
Example ex_two_writers_before_the_repair :
  let a := sh (run_old init two_writers_sched) in
  let b := sh (run_old init (two_writers_sched ++ [two_writers_last])) in
  (wmv a Dat, wmp a Dat) = (2, 2)%N /\ (wmv b Dat, wmp b Dat) = (2, 1)%N /\
  mem (2, 12)%N (da b Dat) = true /\ (forall k, mu b k = 0%N).
Proof. exact two_writers_unlocked_witness. Qed.
(* ... and the SAME schedule with the mutex: the submission loop waits at Lock while block production is between
   its swap and its store; the step-over (a real second writer: the watermark moves 0 -> 1 without a submission)
   and the submission both take effect in order *)
Example ex_two_writers_with_the_mutex :
  let b := sh (run init (two_writers_sched ++ [two_writers_last])) in
  let c := sh (run init (two_writers_sched ++ [two_writers_last; (AProd, skip); (ASub Dat, skip); (ASub Dat, skip); (ASub Dat, skip); (ASub Dat, skip)])) in
  (wmv b Dat, wmp b Dat) = (1, 1)%N /\ (wmv c Dat, wmp c Dat) = (2, 2)%N.
Proof. vm_compute. split; reflexivity. Qed.

(* ---- the defects that were repaired, over the FROZEN table generated before the repairs (Check/StopBefore.v) ---- *)
Example before_the_repair_non_cancellable :
  map describe (non_cancellable block_points_before) =
  [ ("AggregationLoop", "sleep", "delay");
    ("AggregationLoop", "send", "errCh"); ("AggregationLoop", "send", "errCh");
    ("publishBlockInternal", "wait", "g.Wait");
    ("SyncLoop", "send", "errCh"); ("SyncLoop", "send", "errCh"); ("SyncLoop", "send", "errCh");
    ("handlePotentialData", "send", "m.dataInCh"); ("handlePotentialHeader", "send", "m.headerInCh");
    ("HeaderStoreRetrieveLoop", "send", "m.headerInCh"); ("DataStoreRetrieveLoop", "send", "m.dataInCh");
    ("DAIncluderLoop", "send", "errCh"); ("DAIncluderLoop", "send", "errCh") ].
Proof. vm_compute. reflexivity. Qed.
Example before_the_repair_loops :
  map (fun r => (fst r, all_cancellable block_points_before (snd r))) loop_reach_before =
  [ ("AggregationLoop", false); ("SyncLoop", false); ("RetrieveLoop", false);
    ("HeaderStoreRetrieveLoop", false); ("DataStoreRetrieveLoop", false);
    ("HeaderSubmissionLoop", true); ("DataSubmissionLoop", true);
    ("DAIncluderLoop", false); ("Reaper.Start", true) ].
Proof. vm_compute. reflexivity. Qed.
(* one hang per kind of defect, each confirmed on the real loops at the time (findings, now fixed) *)
Example before_the_repair_hangs :
  let h := hangs_once_in block_points_before loop_reach_before in
  h "AggregationLoop" "AggregationLoop" "sleep" "delay" = true /\
  h "AggregationLoop" "AggregationLoop" "send" "errCh" = true /\
  h "SyncLoop" "SyncLoop" "send" "errCh" = true /\
  h "DAIncluderLoop" "DAIncluderLoop" "send" "errCh" = true /\
  h "RetrieveLoop" "handlePotentialHeader" "send" "m.headerInCh" = true /\
  h "RetrieveLoop" "handlePotentialData" "send" "m.dataInCh" = true /\
  h "HeaderStoreRetrieveLoop" "HeaderStoreRetrieveLoop" "send" "m.headerInCh" = true /\
  h "DataStoreRetrieveLoop" "DataStoreRetrieveLoop" "send" "m.dataInCh" = true.
Proof. vm_compute. repeat split; reflexivity. Qed.
(* and none of them is in today's table any more *)
Example after_the_repair_none_of_them :
  existsb (fun p => String.eqb (bp_kind p) "sleep" || (String.eqb (bp_kind p) "send")) block_points = false.
Proof. vm_compute. reflexivity. Qed.

(* full node: data for block 2 arrives first (P2P), then a FORGED data item for height 1, then headers 2 and 1 out
   of order from the DA layer; handleEmptyDataHash overwrites the forged item; both blocks are applied; block 1
   becomes DA-included while the sync loop is inside the application of block 2 *)
Definition xh (h : N) : N := (100 + h)%N.
Definition xd (h : N) : N := if (h =? 2)%N then 7%N else 0%N.
Definition fe (hdr : bool) (h id : N) (mark : bool) : fenv := {| f_ok := true; f_hdr := hdr; f_h := h; f_id := id; f_mark := mark |}.
Definition any : fenv := fe true 0 0 false.
Definition ex_fsched : list (fact * fenv) :=
  [ (FSync, any); (FSync, any);
    (FDeliver, fe false 2 7 false); (FDeliver, any); (FDeliver, any);
    (FDeliver, fe false 1 9 false); (FDeliver, any); (FDeliver, any);
    (FSync, fe false 0 0 false); (FSync, any); (FSync, any); (FSync, any); (FSync, any);
    (FDeliver, fe true 2 0 true); (FDeliver, any); (FDeliver, any);
    (FDeliver, fe true 1 0 true); (FDeliver, any); (FDeliver, any);
    (FSync, fe false 0 0 false); (FSync, any); (FSync, any); (FSync, any); (FSync, any);
    (FSync, any); (FSync, any); (FSync, any); (FSync, any); (FSync, any);
    (FSync, any); (FSync, any); (FSync, any);
    (FSync, any); (FSync, any); (FSync, any); (FSync, any); (FSync, any); (FSync, any); (FSync, any);
    (FDeliver, fe false 2 0 true); (FDeliver, any);
    (FSync, any); (FSync, any); (FSync, any); (FSync, any);
    (FIncl, any); (FIncl, any); (FIncl, any); (FIncl, any); (FIncl, any); (FIncl, any); (FIncl, any); (FIncl, any); (FIncl, any);
    (FSync, any); (FSync, any); (FSync, any) ].
Example ex_fsched_reaches :
  let s := fsh (frun xh xd finit ex_fsched) in
  (fht s, fsth s, fdi s, fpdi s, ffin s) = (2, 2, 1, 1, 1)%N /\ fblk s 1%N = Some (101, 0)%N /\ fblk s 2%N = Some (102, 7)%N.
Proof. vm_compute. repeat split; reflexivity. Qed.
