(* Props/C13.v — concurrent background loops: stop protocol (part B) and invariants under every
   interleaving (part A).  Statements only; every proof is [exact <lemma>].
   Data-race freedom in the sense of the Go memory model is NOT stated here: no executable Gallina model
   exhibits it (DESIGN 3/C13, 7); the race-detector build of the real loops is evidence, not proof. *)
From Coq Require Import String List Bool Arith.
From Verif Require Import Model.StopProto Proofs.StopProtoProofs gen.BlockPoints Check.BlockPointsLemmas Check.StopCheck.
Import ListNotations.
Open Scope string_scope.

(* ---- part B: stop protocol -------------------------------------------------------------------------
   An activity moves between its blocking operations; the environment chooses the control flow, whether an
   ordinary case is ready, and whether Go's select prefers it over <-ctx.Done().  [others ms] = number of
   visits at which the environment makes select prefer another ready case (the bound K of the design). *)

(* For EVERY table of blocking operations and EVERY activity all of whose reachable operations are
   cancellable: from every blocking operation, for every environment, the activity has returned after any
   K+1 (or more) visits following the cancellation.  Guard (decidable): all_cancellable t reach = true. *)
Theorem C13_prompt_stop_partial : forall (t : list bpoint) (reach : list string),
  all_cancellable t reach = true ->
  forall (ms : list move) (p : bpoint),
    In p (activity_points t reach) -> others ms < length ms ->
    run_cancelled (activity_points t reach) (Running p) ms = Returned.
Proof. exact prompt_stop_activity. Qed.
Print Assumptions C13_prompt_stop_partial.

(* On the table regenerated from /repo/block/*.go by this run: the header submission loop, the data
   submission loop and the reaper stop promptly, from every blocking operation, for every environment. *)
Theorem C13_prompt_stop_today_partial : forall (root : string) (reach : list string),
  In (root, reach) loop_reach -> In root ["HeaderSubmissionLoop"; "DataSubmissionLoop"; "Reaper.Start"] ->
  forall (ms : list move) (p : bpoint),
    In p (activity_points block_points reach) -> others ms < length ms ->
    run_cancelled (activity_points block_points reach) (Running p) ms = Returned.
Proof. exact prompt_stop_today. Qed.
Print Assumptions C13_prompt_stop_today_partial.

(* The operations that are NOT cancellable in the source of this run are exactly these (function, kind,
   channel / call text — never line numbers); a new one, a removed one or a changed one breaks the equality. *)
Theorem C13_non_cancellable_exact_partial :
  map describe (non_cancellable block_points) =
  [ ("AggregationLoop", "sleep", "delay");
    ("AggregationLoop", "send", "errCh");
    ("AggregationLoop", "send", "errCh");
    ("publishBlockInternal", "wait", "g.Wait");
    ("SyncLoop", "send", "errCh");
    ("SyncLoop", "send", "errCh");
    ("SyncLoop", "send", "errCh");
    ("handlePotentialData", "send", "m.dataInCh");
    ("handlePotentialHeader", "send", "m.headerInCh");
    ("HeaderStoreRetrieveLoop", "send", "m.headerInCh");
    ("DataStoreRetrieveLoop", "send", "m.dataInCh");
    ("DAIncluderLoop", "send", "errCh");
    ("DAIncluderLoop", "send", "errCh") ].
Proof. exact non_cancellable_today. Qed.
Print Assumptions C13_non_cancellable_exact_partial.

(* which loops the guard of C13_prompt_stop_partial covers in the source of this run; all nine loop roots exist *)
Theorem C13_loops_covered_partial :
  map (fun r => (fst r, all_cancellable block_points (snd r))) loop_reach =
  [ ("AggregationLoop", false); ("SyncLoop", false); ("RetrieveLoop", false);
    ("HeaderStoreRetrieveLoop", false); ("DataStoreRetrieveLoop", false);
    ("HeaderSubmissionLoop", true); ("DataSubmissionLoop", true);
    ("DAIncluderLoop", false); ("Reaper.Start", true) ].
Proof. exact loops_cancellable_today. Qed.
Print Assumptions C13_loops_covered_partial.

(* An operation that is not cancellable keeps its loop for ever under the environment that never completes
   it — for every such operation of the regenerated table. *)
Theorem C13_listed_can_hang_refuted : forall (root : string) (reach : list string) (p : bpoint),
  In (root, reach) loop_reach -> In p (activity_points block_points reach) -> bp_cancellable p = false ->
  forall n, run_cancelled (activity_points block_points reach) (Running p) (repeat block_forever n) = Running p.
Proof. exact listed_can_hang. Qed.
Print Assumptions C13_listed_can_hang_refuted.

(* The property as worded — every activity returns promptly whatever the environment — is false of the
   model of today's source (witness: AggregationLoop parked in time.Sleep(delay)); one witness per kind. *)
Theorem C13_prompt_stop_refuted :
  ~ (forall root reach, In (root, reach) loop_reach ->
     forall ms p, In p (activity_points block_points reach) -> others ms < length ms ->
                  run_cancelled (activity_points block_points reach) (Running p) ms = Returned).
Proof. exact full_prompt_stop_false. Qed.
Print Assumptions C13_prompt_stop_refuted.

Theorem C13_witness_per_kind_refuted :
  hangs_once "AggregationLoop" "AggregationLoop" "sleep" "delay" = true /\
  hangs_once "RetrieveLoop" "handlePotentialHeader" "send" "m.headerInCh" = true /\
  hangs_once "AggregationLoop" "publishBlockInternal" "wait" "g.Wait" = true.
Proof. exact witnesses_hang. Qed.
Print Assumptions C13_witness_per_kind_refuted.

(* ---- non-vacuity ------------------------------------------------------------------------------------ *)
(* the guard holds of a real loop with several blocking operations (HeaderSubmissionLoop reaches the select
   of the loop and the back-off select of submitToDA), and an environment with K = 2 meets the bound *)
Definition ex_reach : list string := nth 5 (map snd loop_reach) [].
Definition ex_env : list move :=
  [ {| mv_ready := true; mv_pick_other := true; mv_next := 1 |};
    {| mv_ready := true; mv_pick_other := true; mv_next := 0 |};
    {| mv_ready := true; mv_pick_other := false; mv_next := 1 |} ].
Example ex_guard : all_cancellable block_points ex_reach = true /\ length (activity_points block_points ex_reach) = 2.
Proof. vm_compute. split; reflexivity. Qed.
Example ex_bound : others ex_env = 2 /\ others ex_env < length ex_env.
Proof. vm_compute. split; [reflexivity | apply le_n]. Qed.
Example ex_runs_two_more_then_returns :
  match activity_points block_points ex_reach with
  | p :: _ => run_cancelled (activity_points block_points ex_reach) (Running p) (firstn 2 ex_env) <> Returned
              /\ run_cancelled (activity_points block_points ex_reach) (Running p) ex_env = Returned
  | [] => False
  end.
Proof. vm_compute. split; [discriminate | reflexivity]. Qed.
