(* Props/C07.v — the DA-included (final) height is sound, monotone, durable and eventually reached.
   Statements only; every proof is [exact <lemma of Proofs/IncluderProofs.v or Proofs/IncluderScanProofs.v>].
   [run b h] is a node with genesis.InitialHeight = b+1 (any b >= 0) after history [h]; a history is any list
   over: a block is committed (IAppend), the header / data with a given hash is accepted by (aggregator) or
   observed on (full node) the DA layer at a DA height (IMarkH / IMarkD — the events block/submitter.go and
   block/retriever.go produce), the includer runs (IInclude), the process dies after k effects of an includer
   run and is started again (ICrash k; k = 0 is a crash at any other moment), effect k+1 of a run fails, the
   loop returns its error, the node shuts down cleanly and is started again (IFault k), clean shutdown and
   start (IRestart).  Any interleaving, any DA fault sequence (a fault is the absence of a mark), any mix of
   empty (bd = 0) and non-empty blocks, blocks sharing a data commitment. *)
From Coq Require Import NArith List Bool.
From Verif Require Import Model.Includer Proofs.IncluderProofs Model.IncluderScan Proofs.IncluderScanProofs.
Import ListNotations.
Open Scope N_scope.

(* "Reported" = what GetDAIncludedHeight() returns at ANY instant: after a history ([rep (run b h)]), or
   [k] effects into an includer run at which the process dies or an effect fails ([seen_at_death b h k] — the
   effects of one height are Put rhb/h, Put rhb/d, SetFinal, Put d, publish-in-memory, in this order).
   The reported height never decreases: over any continuation; from the start of a run to any instant inside
   it; and from the instant of death (ICrash k) / of the failing effect (IFault k) to anything reported after
   the restart, whatever follows. *)
Theorem C07_monotone_full : forall (b : N) (h h' : list item) (k : nat),
  rep (run b h) <= rep (run b (h ++ h')) /\
  rep (run b h) <= seen_at_death b h k /\
  seen_at_death b h k <= rep (run b (h ++ ICrash k :: h')) /\
  seen_at_death b h k <= rep (run b (h ++ IFault k :: h')).
Proof. exact monotone. Qed.
Print Assumptions C07_monotone_full.

(* a clean restart and a crash outside an includer run report exactly the height reported before; a restart
   after a death / a failing effect k effects into a run reports the last height observable before it, or
   that height + 1 (when the Put of "d" happened and the publication did not) *)
Theorem C07_durable_full : forall (b : N) (h : list item) (k : nat),
  rep (run b (h ++ [IRestart])) = rep (run b h) /\
  rep (run b (h ++ [ICrash 0])) = rep (run b h) /\
  seen_at_death b h k <= rep (run b (h ++ [ICrash k])) <= seen_at_death b h k + 1 /\
  seen_at_death b h k <= rep (run b (h ++ [IFault k])) <= seen_at_death b h k + 1.
Proof. exact durable. Qed.
Print Assumptions C07_durable_full.

(* after any history, for every initial height b+1: InitialHeight-1 <= reported <= chain height; the values
   ever stored under "d" are exactly rep, rep-1, ..., InitialHeight (newest first: one height at a time, from
   InitialHeight-1); the executor's SetFinal log (newest first) has top m = rep or rep+1, every older entry
   equal to or one below its successor, oldest InitialHeight (in order, no height skipped, a repeat only of an
   entry whose store did not follow); every store of height n is preceded by SetFinal(n), every publication of
   n by the store of n; the persisted height (InitialHeight-1 when nothing is stored) equals the reported one *)
Theorem C07_safety_full : forall (b : N) (h : list item), let s := run b h in
  b <= rep s <= sheight s /\
  desc b (dputs (tr s)) (rep s) /\
  (exists m, (m = rep s \/ m = rep s + 1) /\ finsok b (fins (tr s)) m) /\
  asked_before (tr s) /\ persisted_before (tr s) /\
  kd s = rep s.
Proof. exact safety. Qed.
Print Assumptions C07_safety_full.

(* the same at every instant inside an includer run (death / failing effect after k effects): the reported
   height is the persisted one or one below it, never above *)
Theorem C07_safety_at_death_full : forall (b : N) (h : list item) (k : nat), let s := dying (run b h) k in
  (kd s = di s \/ kd s = di s + 1) /\ b <= di s /\
  kd s <= sheight s /\
  desc b (dputs (tr s)) (kd s) /\
  (exists m, (m = kd s \/ m = kd s + 1) /\ finsok b (fins (tr s)) m) /\
  asked_before (tr s) /\ persisted_before (tr s).
Proof. exact safety_at_death. Qed.
Print Assumptions C07_safety_at_death_full.

(* every height n from the initial height up to the reported one is a stored block whose header was accepted
   by / observed on the DA layer at the DA height recorded under rhb/<n>/h, and whose data — unless the block
   is empty, in which case rhb/<n>/d repeats the header's DA height — at the one recorded under rhb/<n>/d *)
Theorem C07_sound_full : forall (b : N) (h : list item) (n : N), let s := run b h in
  b < n <= rep s ->
  exists x hda dda,
    block_at s n = Some x /\
    meta_get (meta s) (KH n) = Some hda /\ meta_get (meta s) (KT n) = Some dda /\
    In (IMarkH (bh x) hda) h /\
    (if bempty x then dda = hda else In (IMarkD (bd x) dda) h).
Proof. exact sound. Qed.
Print Assumptions C07_sound_full.

Theorem C07_sound_at_death_full : forall (b : N) (h : list item) (k : nat) (n : N), let s := dying (run b h) k in
  b < n <= di s ->
  exists x hda dda,
    block_at s n = Some x /\
    meta_get (meta s) (KH n) = Some hda /\ meta_get (meta s) (KT n) = Some dda /\
    In (IMarkH (bh x) hda) h /\
    (if bempty x then dda = hda else In (IMarkD (bd x) dda) h).
Proof. exact sound_at_death. Qed.
Print Assumptions C07_sound_at_death_full.

(* liveness, for every initial height b+1 >= 1, under the guard [blocks_marked_since_crash]: if the header and
   (unless empty) the data of every block up to n were accepted / observed after the last crash (clean
   restarts and failing effects in between are allowed), one run of the includer reports at least n.
   What is missing relative to the property: marks produced before a crash. *)
Theorem C07_eventually_partial : forall (b : N) (h : list item) (n : N),
  n <= sheight (run b h) ->
  blocks_marked_since_crash b h n = true ->
  n <= rep (run b (h ++ [IInclude])).
Proof. exact eventually_guarded. Qed.
Print Assumptions C07_eventually_partial.

(* without the guard the statement is false: there is a history after which both parts of every block up to
   n are on the DA layer, and no continuation that lacks a NEW header mark — any number of includer runs,
   restarts, blocks, data marks — ever reports n.  On an aggregator nothing produces such a new mark (the
   submitter's watermark is persisted, the blob is never submitted again): defect F9. *)
Theorem C07_eventually_refuted :
  exists (b : N) (h : list item) (n : N),
    n <= sheight (run b h) /\ blocks_marked_ever b h n = true /\
    forall ext, forallb (fun i => negb (is_markh i)) ext = true -> rep (run b (h ++ ext)) < n.
Proof. exact eventually_refuted. Qed.
Print Assumptions C07_eventually_refuted.

Theorem C07_eventually_unguarded_refuted :
  ~ (forall (b : N) (h : list item) (n : N), n <= sheight (run b h) -> blocks_marked_ever b h n = true ->
       exists k, n <= rep (run b (h ++ repeat IInclude k))).
Proof. exact eventually_full_is_false. Qed.
Print Assumptions C07_eventually_unguarded_refuted.

(* ---- the full node (Model/IncluderScan.v) --------------------------------------------------------------
   [frun b h] is a NON-AGGREGATOR with genesis.InitialHeight = b+1 after history [h]; a history is any list over:
   trySyncNextBlock applies a block (FApply), the DA layer produces its next height with given blobs (FPost),
   one iteration of the DA scan whose fetch attempts meet a given list of faults before being served truthfully
   (FScan fs: GetIDs errors, Get errors after a successful listing — with or without the texts "blob: not found"
   / "given height is from the future" —; ten failed attempts or one from-the-future answer leave the cursor
   where it is), an includer run (FInclude), a death k effects into an includer run + start (FCrash k), a failing
   effect + clean shutdown + start (FFault k), clean shutdown + start (FRestart), and events that do not concern
   the node (FNop).  The mark events of Model/Includer.v are no longer inputs here: they are what the scan
   produces from the blobs that are on the DA layer. *)

(* the includer of a full node is the includer of Model/Includer.v on the translated history: every theorem above
   holds of [nd (frun b h)] with [ftrace (finit b) h] for the history *)
Theorem C07_fullnode_refines_full : forall (b : N) (h : list fitem),
  nd (frun b h) = run b (ftrace (finit b) h).
Proof. exact fullnode_refines. Qed.
Print Assumptions C07_fullnode_refines_full.

Theorem C07_fullnode_monotone_full : forall (b : N) (h h' : list fitem),
  rep (nd (frun b h)) <= rep (nd (frun b (h ++ h'))).
Proof. exact fullnode_monotone. Qed.
Print Assumptions C07_fullnode_monotone_full.

Theorem C07_fullnode_safety_full : forall (b : N) (h : list fitem), let s := nd (frun b h) in
  b <= rep s <= sheight s /\
  desc b (dputs (tr s)) (rep s) /\
  (exists m, (m = rep s \/ m = rep s + 1) /\ finsok b (fins (tr s)) m) /\
  asked_before (tr s) /\ persisted_before (tr s) /\
  kd s = rep s.
Proof. exact fullnode_safety. Qed.
Print Assumptions C07_fullnode_safety_full.

(* every height a full node reports is a stored block whose header IS on the DA layer at the DA height recorded
   under rhb/<n>/h and whose data — unless empty — IS on the DA layer at the one recorded under rhb/<n>/d *)
Theorem C07_fullnode_sound_full : forall (b : N) (h : list fitem) (n : N), let s := frun b h in
  b < n <= rep (nd s) ->
  exists x hda dda,
    block_at (nd s) n = Some x /\
    meta_get (meta (nd s)) (KH n) = Some hda /\ meta_get (meta (nd s)) (KT n) = Some dda /\
    In (BH (bh x)) (content (dal s) hda) /\
    (if bempty x then dda = hda else In (BD (bd x)) (content (dal s) dda)).
Proof. exact fullnode_sound. Qed.
Print Assumptions C07_fullnode_sound_full.

(* the State.DAHeight a full node has stored never moves (it is 0 after every history), so every new process —
   after a crash, a failing write or a clean shutdown — starts the DA scan at DA height 0: no blob on the DA
   layer is out of reach of a restarted node *)
Theorem C07_fullnode_resume_full : forall (b : N) (h : list fitem),
  sdah (frun b h) = 0 /\
  forall i, is_boot i = true -> cur (frun b (h ++ [i])) = 0.
Proof. exact resume. Qed.
Print Assumptions C07_fullnode_resume_full.

(* whatever the faults, the scan never leaves a DA height behind without this process having marked every
   genuine header and data blob of that height *)
Theorem C07_fullnode_scan_never_skips_full : forall (b : N) (h : list fitem) (d id : N), let s := frun b h in
  d < cur s ->
  (In (BH id) (content (dal s) d) -> mget (hm (nd s)) id <> None) /\
  (In (BD id) (content (dal s) d) -> mget (dm (nd s)) id <> None).
Proof. exact scan_never_skips. Qed.
Print Assumptions C07_fullnode_scan_never_skips_full.

(* C07 liveness on a full node, unguarded: after ANY history (crashes and restarts at any point included), if
   both parts of every block up to n are on the DA layer, then any further scan iterations — under any fault
   sequence, as long as enough of them ([n_served]: fewer than ten faults, none "from the future") are served to
   reach the tip of the DA layer — followed by one includer run make the node report at least n. *)
Theorem C07_eventually_fullnode_full : forall (b : N) (h : list fitem) (n : N) (fss : list (list fault)),
  let s := frun b h in
  n <= sheight (nd s) ->
  forallb (on_da (dal s)) (firstn (N.to_nat (n - b)) (chain (nd s))) = true ->
  top s + 1 <= cur s + n_served fss ->
  n <= rep (nd (frun b (h ++ map FScan fss ++ [FInclude]))).
Proof. exact fullnode_eventually. Qed.
Print Assumptions C07_eventually_fullnode_full.

(* ---- non-vacuity ---------------------------------------------------------------------------------- *)
Definition b1 := {| bh := 1; bd := 0 |}.       (* empty block *)
Definition b2 := {| bh := 2; bd := 7 |}.
Definition b3 := {| bh := 3; bd := 7 |}.       (* same transaction list as block 2 *)
(* two blocks, included one by one; a crash after SetFinal(2) and before the height is stored loses the
   marks; they are produced again at other DA heights; clean restart; a third block; a crash *)
Definition ex_history : list item :=
  [ IAppend b1; IAppend b2; IMarkH 1 10; IMarkH 2 10; IInclude; IMarkD 7 11; ICrash 3; IInclude;
    IMarkH 2 12; IMarkD 7 12; IRestart; IAppend b3; IInclude; IMarkH 3 13; ICrash 0; IInclude ].

Example ex_run :
  let s := run 0 ex_history in
  (rep s, sheight s, rev (fins (tr s)), rev (dputs (tr s))) = (2, 3, [1; 2; 2], [1; 2]) /\
  meta_get (meta s) (KH 2) = Some 12 /\ meta_get (meta s) (KT 2) = Some 12 /\
  meta_get (meta s) (KH 1) = Some 10 /\ meta_get (meta s) (KT 1) = Some 10.
Proof. vm_compute. repeat split; reflexivity. Qed.

(* the same history on a chain whose initial height is 5: heights 5, 6, 7 *)
Example ex_run_initial_height_5 :
  let s := run 4 ex_history in
  (rep s, sheight s, rev (fins (tr s)), rev (dputs (tr s))) = (6, 7, [5; 6; 6], [5; 6]) /\
  meta_get (meta s) (KH 6) = Some 12 /\ meta_get (meta s) (KT 5) = Some 10 /\ block_at s 6 = Some b2.
Proof. vm_compute. repeat split; reflexivity. Qed.

(* the guard of the liveness theorem is met by a history with a clean restart between mark and inclusion,
   for initial heights 1 and 3 *)
Definition ex_live : list item := [ IAppend b1; IAppend b2; IMarkH 1 10; IMarkD 7 11; IRestart; IMarkH 2 12 ].
Example ex_live_guard :
  blocks_marked_since_crash 0 ex_live 2 = true /\ 2 <= sheight (run 0 ex_live) /\
  rep (run 0 ex_live) = 0 /\ rep (run 0 (ex_live ++ [IInclude])) = 2 /\
  blocks_marked_since_crash 2 ex_live 4 = true /\ 4 <= sheight (run 2 ex_live) /\
  rep (run 2 ex_live) = 2 /\ rep (run 2 (ex_live ++ [IInclude])) = 4.
Proof. vm_compute. repeat split; try reflexivity; discriminate. Qed.

(* a death between the Put of "d" := 1 and its publication: 0 was the last height anyone saw, 1 is reported
   after the restart; one effect earlier the restart reports 0 *)
Example ex_death :
  let h := [IAppend b1; IMarkH 1 10] in
  (seen_at_death 0 h 4, rep (run 0 (h ++ [ICrash 4])), seen_at_death 0 h 3, rep (run 0 (h ++ [ICrash 3])),
   seen_at_death 0 h 5, rep (run 0 (h ++ [IFault 5]))) = (0, 1, 0, 0, 1, 1).
Proof. vm_compute. reflexivity. Qed.

(* ... and is not met by the history of the refutation, whose blobs are nevertheless on the DA layer *)
Example ex_f9 :
  blocks_marked_since_crash 0 f9_history 1 = false /\ blocks_marked_ever 0 f9_history 1 = true /\
  rep (run 0 (f9_history ++ [IInclude; IRestart; IInclude])) = 0.
Proof. vm_compute. repeat split; reflexivity. Qed.

(* Before the fix "DA inclusion with an initial height above 1" NewManager started the count at 0 whatever the
   initial height ([init_before_the_repair]): the includer asked for block 1, which does not exist below the
   initial height, and never moved (former known finding initial-height-gt1-includer-stuck).  From [init] the
   same history reaches the chain height. *)
Example before_the_repair_includer_stuck :
  let h := [IAppend b1; IAppend b2; IMarkH 1 10; IMarkH 2 10; IMarkD 7 11; IInclude; IInclude] in
  rep (run_from (init_before_the_repair 2) h) = 0 /\ sheight (run_from (init_before_the_repair 2) h) = 4 /\
  rep (run 2 h) = 4 /\ blocks_marked_ever 2 h 4 = true.
Proof. vm_compute. repeat split; reflexivity. Qed.

(* ---- full node ------------------------------------------------------------------------------------------ *)
(* header of block 1 at DA height 1, its data (with a junk blob) at DA height 2; the scan reaches height 1
   through a Get that fails once with "blob: not found"; the block is applied when its data is seen; the scan of
   height 2 meets two more faults; the process dies before the includer ran.  The new process starts the scan at
   DA height 0 with no marks; both parts of block 1 are on the DA layer; three served iterations (one of them
   after a from-the-future answer and one after ten failed attempts, which do not move the cursor) and one
   includer run report 1 with the DA heights 1 and 2 recorded. *)
Definition bf1 := {| bh := 1; bd := 7 |}.
Definition ex_full : list fitem :=
  [ FPost [BH 1]; FPost [BD 7; BJ]; FScan []; FScan [FGet true false]; FScan [FList false; FGet false false];
    FApply bf1; FCrash 0 ].
Definition ex_full_scans : list (list fault) :=
  [ []; [FList true]; [FGet true false]; repeat (FList false) 10; [FGet false false; FGet true false] ].

Example ex_full_run :
  let s := frun 0 ex_full in
  (rep (nd s), sheight (nd s), cur s, sdah s, top s, mget (hm (nd s)) 1, mget (dm (nd s)) 7) = (0, 1, 0, 0, 2, None, None) /\
  cur (frun 0 (ex_full ++ [FScan []; FScan [FList true]; FScan (repeat (FList false) 10)])) = 1 /\
  forallb (on_da (dal s)) (firstn 1 (chain (nd s))) = true /\
  top s + 1 <= cur s + n_served ex_full_scans /\
  let s' := frun 0 (ex_full ++ map FScan ex_full_scans ++ [FInclude]) in
  (rep (nd s'), cur s', meta_get (meta (nd s')) (KH 1), meta_get (meta (nd s')) (KT 1)) = (1, 3, Some 1, Some 2).
Proof. vm_compute. repeat split; try reflexivity; discriminate. Qed.

(* what the theorems exclude: a new process that resumed the scan at the DA height of the event that completed
   block 1 (cursor 2 instead of 0) would re-observe the data only and never report block 1 *)
Example resuming_above_a_needed_height_would_be_stuck :
  let s := frun 0 ex_full in
  let s2 := {| nd := nd s; cur := 2; sdah := 2; dal := dal s |} in
  let s' := frun_from s2 (map FScan [[]; []; []] ++ [FInclude; FRestart; FScan []; FScan []; FInclude]) in
  (rep (nd s'), cur s', mget (hm (nd s')) 1, mget (dm (nd s')) 7) = (0, 3, None, Some 2).
Proof. vm_compute. reflexivity. Qed.
