(* Props/C07.v — the DA-included (final) height is sound, monotone, durable and eventually reached.
   Statements only; every proof is [exact <lemma of Proofs/IncluderProofs.v or Proofs/IncluderScanProofs.v>].
   [run b h] is a node with genesis.InitialHeight = b+1 (any b >= 0) after history [h]; a history is any list
   over: a block is committed (IAppend), the header / data with a given hash is accepted by (aggregator) or
   observed on (full node) the DA layer at a DA height (IMarkH / IMarkD — the events block/submitter.go and
   block/retriever.go produce), the includer runs (IInclude), the process dies after k effects of an includer
   run and is started again (ICrash k; k = 0 is a crash at any other moment), effect k+1 of a run fails, the
   loop returns its error, the node shuts down cleanly and is started again (IFault k), clean shutdown and
   start (IRestart).  Any interleaving, any DA fault sequence (a fault is the absence of a mark), any mix of
   empty (bd = 0) and non-empty blocks, blocks sharing a data commitment. *)
From Coq Require Import String NArith List Bool.
From Verif Require Import Model.Includer Proofs.IncluderProofs Model.IncluderScan Proofs.IncluderScanProofs
  Model.IncluderAgg Proofs.IncluderAggProofs.
Import ListNotations.
Open Scope N_scope.

(* "Reported" = what GetDAIncludedHeight() returns at ANY instant: after a history ([rep (run b h)]), or
   [k] effects into an includer run at which the process dies or an effect fails ([seen_at_death b h k] — the
   effects of one height are Put rhb/h, Put rhb/d, SetFinal, Put d, publish-in-memory, in this order).
   The reported height never decreases: over any continuation; from the start of a run to any instant inside
   it; and from the instant of death (ICrash k) / of the failing effect (IFault k) to anything reported after
   the restart, whatever follows. *)
Theorem C07_monotone_full : forall (b : N) (h h' : list item) (k : nat),
  rep (run b h) <= rep (run b (h ++ h')) /\
  rep (run b h) <= seen_at_death b h k /\
  seen_at_death b h k <= rep (run b (h ++ ICrash k :: h')) /\
  seen_at_death b h k <= rep (run b (h ++ IFault k :: h')).
Proof. exact monotone. Qed.
Print Assumptions C07_monotone_full.

(* a clean restart and a crash outside an includer run report exactly the height reported before; a restart
   after a death / a failing effect k effects into a run reports the last height observable before it, or
   that height + 1 (when the Put of "d" happened and the publication did not) *)
Theorem C07_durable_full : forall (b : N) (h : list item) (k : nat),
  rep (run b (h ++ [IRestart])) = rep (run b h) /\
  rep (run b (h ++ [ICrash 0])) = rep (run b h) /\
  seen_at_death b h k <= rep (run b (h ++ [ICrash k])) <= seen_at_death b h k + 1 /\
  seen_at_death b h k <= rep (run b (h ++ [IFault k])) <= seen_at_death b h k + 1.
Proof. exact durable. Qed.
Print Assumptions C07_durable_full.

(* after any history, for every initial height b+1: InitialHeight-1 <= reported <= chain height; the values
   ever stored under "d" are exactly rep, rep-1, ..., InitialHeight (newest first: one height at a time, from
   InitialHeight-1); the executor's SetFinal log (newest first) has top m = rep or rep+1, every older entry
   equal to or one below its successor, oldest InitialHeight (in order, no height skipped, a repeat only of an
   entry whose store did not follow); every store of height n is preceded by SetFinal(n), every publication of
   n by the store of n; the persisted height (InitialHeight-1 when nothing is stored) equals the reported one *)
Theorem C07_safety_full : forall (b : N) (h : list item), let s := run b h in
  b <= rep s <= sheight s /\
  desc b (dputs (tr s)) (rep s) /\
  (exists m, (m = rep s \/ m = rep s + 1) /\ finsok b (fins (tr s)) m) /\
  asked_before (tr s) /\ persisted_before (tr s) /\
  kd s = rep s.
Proof. exact safety. Qed.
Print Assumptions C07_safety_full.

(* the same at every instant inside an includer run (death / failing effect after k effects): the reported
   height is the persisted one or one below it, never above *)
Theorem C07_safety_at_death_full : forall (b : N) (h : list item) (k : nat), let s := dying (run b h) k in
  (kd s = di s \/ kd s = di s + 1) /\ b <= di s /\
  kd s <= sheight s /\
  desc b (dputs (tr s)) (kd s) /\
  (exists m, (m = kd s \/ m = kd s + 1) /\ finsok b (fins (tr s)) m) /\
  asked_before (tr s) /\ persisted_before (tr s).
Proof. exact safety_at_death. Qed.
Print Assumptions C07_safety_at_death_full.

(* every height n from the initial height up to the reported one is a stored block whose header was accepted
   by / observed on the DA layer at the DA height recorded under rhb/<n>/h, and whose data — unless the block
   is empty, in which case rhb/<n>/d repeats the header's DA height — at the one recorded under rhb/<n>/d *)
Theorem C07_sound_full : forall (b : N) (h : list item) (n : N), let s := run b h in
  b < n <= rep s ->
  exists x hda dda,
    block_at s n = Some x /\
    meta_get (meta s) (KH n) = Some hda /\ meta_get (meta s) (KT n) = Some dda /\
    In (IMarkH (bh x) hda) h /\
    (if bempty x then dda = hda else In (IMarkD (bd x) dda) h).
Proof. exact sound. Qed.
Print Assumptions C07_sound_full.

Theorem C07_sound_at_death_full : forall (b : N) (h : list item) (k : nat) (n : N), let s := dying (run b h) k in
  b < n <= di s ->
  exists x hda dda,
    block_at s n = Some x /\
    meta_get (meta s) (KH n) = Some hda /\ meta_get (meta s) (KT n) = Some dda /\
    In (IMarkH (bh x) hda) h /\
    (if bempty x then dda = hda else In (IMarkD (bd x) dda) h).
Proof. exact sound_at_death. Qed.
Print Assumptions C07_sound_at_death_full.

(* liveness, for every initial height b+1 >= 1, under the guard [blocks_marked_since_crash]: if the header and
   (unless empty) the data of every block up to n were accepted / observed after the last crash (clean
   restarts and failing effects in between are allowed), one run of the includer reports at least n.
   What is missing relative to the property: marks produced before a crash. *)
Theorem C07_eventually_partial : forall (b : N) (h : list item) (n : N),
  n <= sheight (run b h) ->
  blocks_marked_since_crash b h n = true ->
  n <= rep (run b (h ++ [IInclude])).
Proof. exact eventually_guarded. Qed.
Print Assumptions C07_eventually_partial.

(* without the guard the statement is false: there is a history after which both parts of every block up to
   n are on the DA layer, and no continuation that lacks a NEW header mark — any number of includer runs,
   restarts, blocks, data marks — ever reports n.  On an aggregator nothing produces such a new mark (the
   submitter's watermark is persisted, the blob is never submitted again): defect F9. *)
Theorem C07_eventually_refuted :
  exists (b : N) (h : list item) (n : N),
    n <= sheight (run b h) /\ blocks_marked_ever b h n = true /\
    forall ext, forallb (fun i => negb (is_markh i)) ext = true -> rep (run b (h ++ ext)) < n.
Proof. exact eventually_refuted. Qed.
Print Assumptions C07_eventually_refuted.

Theorem C07_eventually_unguarded_refuted :
  ~ (forall (b : N) (h : list item) (n : N), n <= sheight (run b h) -> blocks_marked_ever b h n = true ->
       exists k, n <= rep (run b (h ++ repeat IInclude k))).
Proof. exact eventually_full_is_false. Qed.
Print Assumptions C07_eventually_unguarded_refuted.

(* ---- the full node (Model/IncluderScan.v) --------------------------------------------------------------
   [frun b h] is a NON-AGGREGATOR with genesis.InitialHeight = b+1 after history [h]; a history is any list over:
   trySyncNextBlock applies a block (FApply), the DA layer produces its next height with given blobs (FPost),
   one iteration of the DA scan whose fetch attempts meet a given list of faults before being served truthfully
   (FScan fs: GetIDs errors, Get errors after a successful listing — with or without the texts "blob: not found"
   / "given height is from the future" —; ten failed attempts or one from-the-future answer leave the cursor
   where it is), an includer run (FInclude), a death k effects into an includer run + start (FCrash k), a failing
   effect + clean shutdown + start (FFault k), clean shutdown + start (FRestart), and events that do not concern
   the node (FNop).  The mark events of Model/Includer.v are no longer inputs here: they are what the scan
   produces from the blobs that are on the DA layer. *)

(* the includer of a full node is the includer of Model/Includer.v on the translated history: every theorem above
   holds of [nd (frun b h)] with [ftrace (finit b) h] for the history *)
Theorem C07_fullnode_refines_full : forall (b : N) (h : list fitem),
  nd (frun b h) = run b (ftrace (finit b) h).
Proof. exact fullnode_refines. Qed.
Print Assumptions C07_fullnode_refines_full.

Theorem C07_fullnode_monotone_full : forall (b : N) (h h' : list fitem),
  rep (nd (frun b h)) <= rep (nd (frun b (h ++ h'))).
Proof. exact fullnode_monotone. Qed.
Print Assumptions C07_fullnode_monotone_full.

Theorem C07_fullnode_safety_full : forall (b : N) (h : list fitem), let s := nd (frun b h) in
  b <= rep s <= sheight s /\
  desc b (dputs (tr s)) (rep s) /\
  (exists m, (m = rep s \/ m = rep s + 1) /\ finsok b (fins (tr s)) m) /\
  asked_before (tr s) /\ persisted_before (tr s) /\
  kd s = rep s.
Proof. exact fullnode_safety. Qed.
Print Assumptions C07_fullnode_safety_full.

(* every height a full node reports is a stored block whose header IS on the DA layer at the DA height recorded
   under rhb/<n>/h and whose data — unless empty — IS on the DA layer at the one recorded under rhb/<n>/d *)
Theorem C07_fullnode_sound_full : forall (b : N) (h : list fitem) (n : N), let s := frun b h in
  b < n <= rep (nd s) ->
  exists x hda dda,
    block_at (nd s) n = Some x /\
    meta_get (meta (nd s)) (KH n) = Some hda /\ meta_get (meta (nd s)) (KT n) = Some dda /\
    In (BH (bh x)) (content (dal s) hda) /\
    (if bempty x then dda = hda else In (BD (bd x)) (content (dal s) dda)).
Proof. exact fullnode_sound. Qed.
Print Assumptions C07_fullnode_sound_full.

(* the State.DAHeight a full node has stored never moves (it is 0 after every history), so every new process —
   after a crash, a failing write or a clean shutdown — starts the DA scan at DA height 0: no blob on the DA
   layer is out of reach of a restarted node *)
Theorem C07_fullnode_resume_full : forall (b : N) (h : list fitem),
  sdah (frun b h) = 0 /\
  forall i, is_boot i = true -> cur (frun b (h ++ [i])) = 0.
Proof. exact resume. Qed.
Print Assumptions C07_fullnode_resume_full.

(* whatever the faults, the scan never leaves a DA height behind without this process having marked every
   genuine header and data blob of that height *)
Theorem C07_fullnode_scan_never_skips_full : forall (b : N) (h : list fitem) (d id : N), let s := frun b h in
  d < cur s ->
  (In (BH id) (content (dal s) d) -> mget (hm (nd s)) id <> None) /\
  (In (BD id) (content (dal s) d) -> mget (dm (nd s)) id <> None).
Proof. exact scan_never_skips. Qed.
Print Assumptions C07_fullnode_scan_never_skips_full.

(* C07 liveness on a full node, unguarded: after ANY history (crashes and restarts at any point included), if
   both parts of every block up to n are on the DA layer, then any further scan iterations — under any fault
   sequence, as long as enough of them ([n_served]: fewer than ten faults, none "from the future") are served to
   reach the tip of the DA layer — followed by one includer run make the node report at least n. *)
Theorem C07_eventually_fullnode_full : forall (b : N) (h : list fitem) (n : N) (fss : list (list fault)),
  let s := frun b h in
  n <= sheight (nd s) ->
  forallb (on_da (dal s)) (firstn (N.to_nat (n - b)) (chain (nd s))) = true ->
  top s + 1 <= cur s + n_served fss ->
  n <= rep (nd (frun b (h ++ map FScan fss ++ [FInclude]))).
Proof. exact fullnode_eventually. Qed.
Print Assumptions C07_eventually_fullnode_full.

(* an ADVERSARIAL DA layer (anybody can post to the namespace): forged copies of a header / of signed data — byte
   strings that decode with the fields of the genuine blob, hence carry the same header hash / data commitment, but
   are not validly signed by the proposer (blob classes BF id / BG id) — are so much junk to a full node: replace every
   one of them in any history by an arbitrary byte string and the includer state (reported height, effect log,
   metadata, both caches), the scan cursor and the stored State.DAHeight are the same, whatever the node had seen,
   applied (e.g. from P2P) or marked before the forged copy is scanned.  Together with C07_fullnode_sound_full
   (BH id / BD id are the GENUINE blobs) this is: no forged copy ever makes a height DA-included or ends up in a
   recorded DA height. *)
Theorem C07_fullnode_forged_blobs_are_junk_full : forall (b : N) (h : list fitem),
  let s := frun b h in let s' := frun b (map unforge_item h) in
  nd s' = nd s /\ cur s' = cur s /\ sdah s' = sdah s /\ dal s' = map (map unforge) (dal s).
Proof. exact forged_blobs_are_junk. Qed.
Print Assumptions C07_fullnode_forged_blobs_are_junk_full.

(* scanning a DA height that holds nothing but forged copies changes nothing in the includer's state *)
Theorem C07_fullnode_forged_only_height_marks_nothing_full : forall (b : N) (h : list fitem) (fs : list fault),
  let s := frun b h in
  forallb is_forged (content (dal s) (cur s)) = true ->
  nd (fstep s (FScan fs)) = nd s.
Proof. exact forged_only_height_marks_nothing. Qed.
Print Assumptions C07_fullnode_forged_only_height_marks_nothing_full.

(* ---- the aggregator (Model/IncluderAgg.v) ---------------------------------------------------------------
   [arun c b h] is a SEQUENCER node with directory configuration c (config.RootDir, config.DBPath: any strings)
   and genesis.InitialHeight = b+1 after history [h]; a history is any list over: a block is produced (AAppend),
   one iteration of the header / data submission loop during which the DA layer gives the ANSWERS sc to the
   successive SubmitWithOptions calls (ASubH sc / ASubD sc; an answer is: ids of a prefix of the blobs with a nil
   error — those blobs are then on a new DA height —, or an error of any class together with ANY number of ids
   while the DA layer in fact keeps any prefix of the blobs, or none; after sc everything is accepted), an includer
   run (AInclude), a death k effects into an includer run + start (ACrash k), a failing effect + clean shutdown +
   start (AFault k), clean shutdown + start (ARestart).  The mark events of Model/Includer.v are no longer inputs:
   they are what submitToDA's postSubmit produces from the DA layer's answers; the saved marks are what lies in the
   directory SaveCache writes to / LoadCache reads from. *)

(* the includer of an aggregator is the includer of Model/Includer.v on the translated history, for every
   configuration: every theorem above holds of [a_nd (arun c b h)] with [atrace (ainit c b) h] for the history *)
Theorem C07_aggregator_refines_full : forall (c : acfg) (b : N) (h : list aitem),
  a_nd (arun c b h) = run b (atrace (ainit c b) h).
Proof. exact aggregator_refines. Qed.
Print Assumptions C07_aggregator_refines_full.

(* marked DA-included => the DA layer holds the blob at the marked height: every mark in the caches of an
   aggregator at any time — set by this process or loaded from the cache files — whatever the DA layer answered *)
Theorem C07_aggregator_marks_sound_full : forall (c : acfg) (b : N) (h : list aitem) (id da : N),
  let s := arun c b h in
  (mget (hm (a_nd s)) id = Some da -> In (BH id) (content (a_dal s) da)) /\
  (mget (dm (a_nd s)) id = Some da -> In (BD id) (content (a_dal s) da)).
Proof. exact aggregator_marks_sound. Qed.
Print Assumptions C07_aggregator_marks_sound_full.

(* every height an aggregator reports is a stored block whose header IS on the DA layer at the DA height recorded
   under rhb/<n>/h and whose data — unless empty — IS on the DA layer at the one recorded under rhb/<n>/d *)
Theorem C07_aggregator_sound_full : forall (c : acfg) (b : N) (h : list aitem) (n : N), let s := arun c b h in
  b < n <= rep (a_nd s) ->
  exists x hda dda,
    block_at (a_nd s) n = Some x /\
    meta_get (meta (a_nd s)) (KH n) = Some hda /\ meta_get (meta (a_nd s)) (KT n) = Some dda /\
    In (BH (bh x)) (content (a_dal s) hda) /\
    (if bempty x then dda = hda else In (BD (bd x)) (content (a_dal s) dda)).
Proof. exact aggregator_sound. Qed.
Print Assumptions C07_aggregator_sound_full.

(* ids that come back next to an error have no effect whatever on a submission: the marks, the watermark and the DA
   layer afterwards are those of the same answers without the ids, for every pending list, answer script, fuel *)
Theorem C07_aggregator_ids_with_error_ignored_full :
  forall (f : nat) (rem : list (N * blob)) (sc : list answer) (wm : N) (d : list (list blob)),
  asubmit f rem (map strip_ids sc) wm d = asubmit f rem sc wm d.
Proof. exact ids_with_error_ignored. Qed.
Print Assumptions C07_aggregator_ids_with_error_ignored_full.

(* an answer with an error — any class, any ids, whatever the DA layer kept — sets no mark and moves no watermark:
   the submission goes on (a cancellation: ends) as if the call had not been made *)
Theorem C07_aggregator_error_marks_nothing_full :
  forall (f : nat) (rem : list (N * blob)) (sc : list answer) (wm : N) (d : list (list blob)) (e : eclass) (ids kept : N),
  asubmit (S f) rem (AErr e ids kept :: sc) wm d =
  let d' := da_keep d (map snd (firstn (N.to_nat kept) rem)) in
  match e with ECancel => ([], wm, d') | _ => asubmit f rem sc wm d' end.
Proof. exact error_answer_marks_nothing. Qed.
Print Assumptions C07_aggregator_error_marks_nothing_full.

(* after a clean stop + start (also the one that follows a failing effect) every mark that was set is still set,
   and no other: the caches of the new process are those of the old one — for EVERY configuration of RootDir and
   DBPath (SaveCache writes where LoadCache reads) *)
Theorem C07_aggregator_restart_keeps_marks_full : forall (c : acfg) (b : N) (h : list aitem) (k : nat),
  let s := arun c b h in
  hm (a_nd (arun c b (h ++ [ARestart]))) = hm (a_nd s) /\ dm (a_nd (arun c b (h ++ [ARestart]))) = dm (a_nd s) /\
  hm (a_nd (arun c b (h ++ [AFault k]))) = hm (a_nd s) /\ dm (a_nd (arun c b (h ++ [AFault k]))) = dm (a_nd s).
Proof. exact restart_keeps_marks. Qed.
Print Assumptions C07_aggregator_restart_keeps_marks_full.

(* C07 liveness on an aggregator under the guard [no_crash] (no process death in the history; clean stops / starts
   and failing effects at any point are allowed), for every configuration: once the DA layer has accepted the
   headers up to n (the header watermark has reached n) and the data of every non-empty block up to n (they lie at
   or below the data watermark), one includer run reports at least n.  What is missing relative to the property:
   histories with a process death (C07_eventually_refuted: the marks are lost, F9). *)
Theorem C07_eventually_aggregator_partial : forall (c : acfg) (b : N) (h : list aitem) (n : N),
  let s := arun c b h in
  no_crash h = true ->
  n <= a_wh s ->
  data_submitted s n = true ->
  n <= rep (a_nd (arun c b (h ++ [AInclude]))).
Proof. exact aggregator_eventually. Qed.
Print Assumptions C07_eventually_aggregator_partial.

(* ---- non-vacuity ---------------------------------------------------------------------------------- *)
Definition b1 := {| bh := 1; bd := 0 |}.       (* empty block *)
Definition b2 := {| bh := 2; bd := 7 |}.
Definition b3 := {| bh := 3; bd := 7 |}.       (* same transaction list as block 2 *)
(* two blocks, included one by one; a crash after SetFinal(2) and before the height is stored loses the
   marks; they are produced again at other DA heights; clean restart; a third block; a crash *)
Definition ex_history : list item :=
  [ IAppend b1; IAppend b2; IMarkH 1 10; IMarkH 2 10; IInclude; IMarkD 7 11; ICrash 3; IInclude;
    IMarkH 2 12; IMarkD 7 12; IRestart; IAppend b3; IInclude; IMarkH 3 13; ICrash 0; IInclude ].

Example ex_run :
  let s := run 0 ex_history in
  (rep s, sheight s, rev (fins (tr s)), rev (dputs (tr s))) = (2, 3, [1; 2; 2], [1; 2]) /\
  meta_get (meta s) (KH 2) = Some 12 /\ meta_get (meta s) (KT 2) = Some 12 /\
  meta_get (meta s) (KH 1) = Some 10 /\ meta_get (meta s) (KT 1) = Some 10.
Proof. vm_compute. repeat split; reflexivity. Qed.

(* the same history on a chain whose initial height is 5: heights 5, 6, 7 *)
Example ex_run_initial_height_5 :
  let s := run 4 ex_history in
  (rep s, sheight s, rev (fins (tr s)), rev (dputs (tr s))) = (6, 7, [5; 6; 6], [5; 6]) /\
  meta_get (meta s) (KH 6) = Some 12 /\ meta_get (meta s) (KT 5) = Some 10 /\ block_at s 6 = Some b2.
Proof. vm_compute. repeat split; reflexivity. Qed.

(* the guard of the liveness theorem is met by a history with a clean restart between mark and inclusion,
   for initial heights 1 and 3 *)
Definition ex_live : list item := [ IAppend b1; IAppend b2; IMarkH 1 10; IMarkD 7 11; IRestart; IMarkH 2 12 ].
Example ex_live_guard :
  blocks_marked_since_crash 0 ex_live 2 = true /\ 2 <= sheight (run 0 ex_live) /\
  rep (run 0 ex_live) = 0 /\ rep (run 0 (ex_live ++ [IInclude])) = 2 /\
  blocks_marked_since_crash 2 ex_live 4 = true /\ 4 <= sheight (run 2 ex_live) /\
  rep (run 2 ex_live) = 2 /\ rep (run 2 (ex_live ++ [IInclude])) = 4.
Proof. vm_compute. repeat split; try reflexivity; discriminate. Qed.

(* a death between the Put of "d" := 1 and its publication: 0 was the last height anyone saw, 1 is reported
   after the restart; one effect earlier the restart reports 0 *)
Example ex_death :
  let h := [IAppend b1; IMarkH 1 10] in
  (seen_at_death 0 h 4, rep (run 0 (h ++ [ICrash 4])), seen_at_death 0 h 3, rep (run 0 (h ++ [ICrash 3])),
   seen_at_death 0 h 5, rep (run 0 (h ++ [IFault 5]))) = (0, 1, 0, 0, 1, 1).
Proof. vm_compute. reflexivity. Qed.

(* ... and is not met by the history of the refutation, whose blobs are nevertheless on the DA layer *)
Example ex_f9 :
  blocks_marked_since_crash 0 f9_history 1 = false /\ blocks_marked_ever 0 f9_history 1 = true /\
  rep (run 0 (f9_history ++ [IInclude; IRestart; IInclude])) = 0.
Proof. vm_compute. repeat split; reflexivity. Qed.

(* Before the fix "DA inclusion with an initial height above 1" NewManager started the count at 0 whatever the
   initial height ([init_before_the_repair]): the includer asked for block 1, which does not exist below the
   initial height, and never moved (former known finding initial-height-gt1-includer-stuck).  From [init] the
   same history reaches the chain height. *)
Example before_the_repair_includer_stuck :
  let h := [IAppend b1; IAppend b2; IMarkH 1 10; IMarkH 2 10; IMarkD 7 11; IInclude; IInclude] in
  rep (run_from (init_before_the_repair 2) h) = 0 /\ sheight (run_from (init_before_the_repair 2) h) = 4 /\
  rep (run 2 h) = 4 /\ blocks_marked_ever 2 h 4 = true.
Proof. vm_compute. repeat split; reflexivity. Qed.

(* ---- full node ------------------------------------------------------------------------------------------ *)
(* header of block 1 at DA height 1, its data (with a junk blob) at DA height 2; the scan reaches height 1
   through a Get that fails once with "blob: not found"; the block is applied when its data is seen; the scan of
   height 2 meets two more faults; the process dies before the includer ran.  The new process starts the scan at
   DA height 0 with no marks; both parts of block 1 are on the DA layer; three served iterations (one of them
   after a from-the-future answer and one after ten failed attempts, which do not move the cursor) and one
   includer run report 1 with the DA heights 1 and 2 recorded. *)
Definition bf1 := {| bh := 1; bd := 7 |}.
Definition ex_full : list fitem :=
  [ FPost [BH 1]; FPost [BD 7; BJ]; FScan []; FScan [FGet true false]; FScan [FList false; FGet false false];
    FApply bf1; FCrash 0 ].
Definition ex_full_scans : list (list fault) :=
  [ []; [FList true]; [FGet true false]; repeat (FList false) 10; [FGet false false; FGet true false] ].

Example ex_full_run :
  let s := frun 0 ex_full in
  (rep (nd s), sheight (nd s), cur s, sdah s, top s, mget (hm (nd s)) 1, mget (dm (nd s)) 7) = (0, 1, 0, 0, 2, None, None) /\
  cur (frun 0 (ex_full ++ [FScan []; FScan [FList true]; FScan (repeat (FList false) 10)])) = 1 /\
  forallb (on_da (dal s)) (firstn 1 (chain (nd s))) = true /\
  top s + 1 <= cur s + n_served ex_full_scans /\
  let s' := frun 0 (ex_full ++ map FScan ex_full_scans ++ [FInclude]) in
  (rep (nd s'), cur s', meta_get (meta (nd s')) (KH 1), meta_get (meta (nd s')) (KT 1)) = (1, 3, Some 1, Some 2).
Proof. vm_compute. repeat split; try reflexivity; discriminate. Qed.

(* what the theorems exclude: a new process that resumed the scan at the DA height of the event that completed
   block 1 (cursor 2 instead of 0) would re-observe the data only and never report block 1 *)
Example resuming_above_a_needed_height_would_be_stuck :
  let s := frun 0 ex_full in
  let s2 := {| nd := nd s; cur := 2; sdah := 2; dal := dal s |} in
  let s' := frun_from s2 (map FScan [[]; []; []] ++ [FInclude; FRestart; FScan []; FScan []; FInclude]) in
  (rep (nd s'), cur s', mget (hm (nd s')) 1, mget (dm (nd s')) 7) = (0, 3, None, Some 2).
Proof. vm_compute. reflexivity. Qed.

(* block 1 (non-empty) reaches the node by P2P (its header hash is then marked as seen); the DA layer holds, at DA
   height 1, a forged copy of its header and its genuine data, and only at DA height 2 the genuine header.  After the
   scan of height 1 the header is NOT marked and an includer run reports nothing; after the scan of height 2 the run
   reports 1 with the header recorded at DA height 2.  A DA layer with the forged copy alone never gets the node to 1. *)
Definition ex_forged : list fitem :=
  [ FApply bf1; FPost [BF 1; BD 7]; FPost [BH 1]; FScan []; FScan []; FInclude ].
Example ex_forged_run :
  let s := frun 0 ex_forged in
  (rep (nd s), cur s, mget (hm (nd s)) 1, mget (dm (nd s)) 7) = (0, 2, None, Some 1) /\
  let s' := frun 0 (ex_forged ++ [FScan []; FInclude]) in
  (rep (nd s'), meta_get (meta (nd s')) (KH 1), meta_get (meta (nd s')) (KT 1)) = (1, Some 2, Some 1) /\
  let s'' := frun 0 ([FApply bf1; FPost [BF 1; BD 7]; FPost [BF 1; BG 7]] ++ map FScan [[]; []; []; []] ++ [FInclude]) in
  (rep (nd s''), cur s'', mget (hm (nd s'')) 1) = (0, 3, None) /\
  forallb is_forged (content (dal s'') 2) = true /\
  map unforge_item ex_forged = [ FApply bf1; FPost [BJ; BD 7]; FPost [BH 1]; FScan []; FScan []; FInclude ].
Proof. vm_compute. repeat split; reflexivity. Qed.

(* ---- aggregator ------------------------------------------------------------------------------------------ *)
(* a node whose db_path is not the default.  Two blocks (the first empty).  Header submission: the DA layer first
   answers with an error AND two ids while holding nothing (no mark, nothing moves), then accepts one of the two
   headers (DA height 1), then the other (DA height 2).  Data submission: the DA layer keeps the blob (DA height 3)
   but answers "timed out" with an id: no mark; the blob is submitted again and accepted at DA height 4.  Clean stop
   and start: the marks are still there; one includer run reports 2 with the DA heights of the ACCEPTED submissions. *)
Definition cfgx : acfg := {| c_root := "node"%string; c_db := "custom"%string |}.
Definition ex_agg : list aitem :=
  [ AAppend b1; AAppend b2; ASubH [AErr EOther 2 0; AOk 1]; ASubD [AErr ETimeout 1 1]; ARestart ].

Example ex_agg_run :
  let s := arun cfgx 0 ex_agg in
  (rep (a_nd s), a_wh s, a_wd s, a_dal s, mget (hm (a_nd s)) 1, mget (hm (a_nd s)) 2, mget (dm (a_nd s)) 7)
    = (0, 2, 2, [[BH 1]; [BH 2]; [BD 7]; [BD 7]], Some 1, Some 2, Some 4) /\
  atrace (ainit cfgx 0) ex_agg = [IAppend b1; IAppend b2; IMarkH 1 1; IMarkH 2 2; IMarkD 7 4; IRestart] /\
  no_crash ex_agg = true /\ 2 <= a_wh s /\ data_submitted s 2 = true /\
  let s' := arun cfgx 0 (ex_agg ++ [AInclude]) in
  (rep (a_nd s'), meta_get (meta (a_nd s')) (KH 2), meta_get (meta (a_nd s')) (KT 2)) = (2, Some 2, Some 4).
Proof. vm_compute. repeat split; try reflexivity; discriminate. Qed.

(* thirty-two failing answers: submitToDA gives up after maxSubmitAttempts = 30 calls with nothing marked; the
   next iteration (the DA layer accepts) marks both headers at the DA height of that call *)
Example ex_agg_exhausted :
  let s := arun cfgx 0 [AAppend b1; AAppend b2; ASubH (repeat (AErr EOther 1 0) 32)] in
  (a_wh s, a_dal s, mget (hm (a_nd s)) 1) = (0, [], None) /\
  let s' := astep s (ASubH []) in (a_wh s', a_dal s', mget (hm (a_nd s')) 2) = (2, [[BH 1; BH 2]], Some 1).
Proof. vm_compute. split; reflexivity. Qed.

(* what C07_aggregator_restart_keeps_marks_full excludes: a SaveCache that wrote below config.DBPath while LoadCache
   reads RootDir/data would leave the new process without marks whenever DBPath is not "data" *)
Example saving_below_db_path_would_lose_the_marks :
  fs_get (fs_put (c_root cfgx, c_db cfgx) ([(1, 1)], [(7, 4)]) []) (load_dir cfgx) = ([], []) /\
  fs_get (fs_put (save_dir cfgx) ([(1, 1)], [(7, 4)]) []) (load_dir cfgx) = ([(1, 1)], [(7, 4)]).
Proof. vm_compute. split; reflexivity. Qed.

(* FROM TRANSLATED CODE.  The DA-included marks survive a clean restart only through Manager.SaveCache (shutdown) and
   Manager.LoadCache (NewManager).  For ALL root directories and configurations — db_path included — the two functions,
   translated from /repo's source on every run (Check/GoLiteFiles.v), name the SAME directories, header cache first:
   what start-up reads is what shutdown wrote. *)
From Verif Require Check.GoLiteFiles.
Theorem C07_saved_marks_are_the_loaded_marks_full : forall w,
  GoLiteFiles.c_h_ok w = true -> GoLiteFiles.c_d_ok w = true ->
  exists s l, GoLiteFiles.run_calls GoLiteFiles.cache_globals "Manager.SaveCache" (Some (GoLiteFiles.cache_mgr w)) [] = Some s /\
              GoLiteFiles.run_calls GoLiteFiles.cache_globals "Manager.LoadCache" (Some (GoLiteFiles.cache_mgr w)) [] = Some l /\
              GoLiteFiles.dirs s = GoLiteFiles.dirs l /\ GoLiteFiles.dirs s = [GoLiteFiles.header_dir w; GoLiteFiles.data_dir w].
Proof. exact GoLiteFiles.cache_dirs_agree. Qed.
Print Assumptions C07_saved_marks_are_the_loaded_marks_full.
