(* Props/C07.v — the DA-included (final) height is sound, monotone, durable and eventually reached.
   Statements only; every proof is [exact <lemma of Proofs/IncluderProofs.v>].
   A history is any list over: a block is committed (IAppend), the header / data with a given hash is
   accepted by (aggregator) or observed on (full node) the DA layer at a DA height (IMarkH / IMarkD — the
   events block/submitter.go and block/retriever.go produce), the includer runs (IInclude), the process
   dies after k effects of an includer run and is started again (ICrash k; k = 0 is a crash at any other
   moment), clean shutdown and start (IRestart).  Any interleaving, any DA fault sequence (a fault is the
   absence of a mark), any mix of empty (bd = 0) and non-empty blocks, blocks sharing a data commitment. *)
From Coq Require Import NArith List Bool.
From Verif Require Import Model.Includer Proofs.IncluderProofs.
Import ListNotations.
Open Scope N_scope.

(* "Reported" = what GetDAIncludedHeight() returns at ANY instant: after a history ([rep (run h)]), or
   [k] effects into an includer run at which the process dies or an effect fails ([seen_at_death h k] — the
   effects of one height are Put rhb/h, Put rhb/d, SetFinal, Put d, publish-in-memory, in this order).
   The reported height never decreases: over any continuation; from the start of a run to any instant inside
   it; and from the instant of death (ICrash k) / of the failing effect (IFault k) to anything reported after
   the restart, whatever follows. *)
Theorem C07_monotone_full : forall (h h' : list item) (k : nat),
  rep (run h) <= rep (run (h ++ h')) /\
  rep (run h) <= seen_at_death h k /\
  seen_at_death h k <= rep (run (h ++ ICrash k :: h')) /\
  seen_at_death h k <= rep (run (h ++ IFault k :: h')).
Proof. exact monotone. Qed.
Print Assumptions C07_monotone_full.

(* a clean restart and a crash outside an includer run report exactly the height reported before; a restart
   after a death / a failing effect k effects into a run reports the last height observable before it, or
   that height + 1 (when the Put of "d" happened and the publication did not) *)
Theorem C07_durable_full : forall (h : list item) (k : nat),
  rep (run (h ++ [IRestart])) = rep (run h) /\
  rep (run (h ++ [ICrash 0])) = rep (run h) /\
  seen_at_death h k <= rep (run (h ++ [ICrash k])) <= seen_at_death h k + 1 /\
  seen_at_death h k <= rep (run (h ++ [IFault k])) <= seen_at_death h k + 1.
Proof. exact durable. Qed.
Print Assumptions C07_durable_full.

(* after any history: the reported height does not exceed the chain height; the values ever stored as the
   height are exactly rep, rep-1, ..., 1 (newest first: it advances one height at a time, from 0); the
   executor's SetFinal log (newest first) has top m = rep or rep+1, every older entry equal to or one below
   its successor, oldest 1 (in order, no height skipped, a repeat only of an entry whose store did not
   follow); every store of height n is preceded by SetFinal(n), every publication of n by the store of n; the
   persisted height equals the reported one *)
Theorem C07_safety_full : forall h : list item, let s := run h in
  rep s <= sheight s /\
  desc (dputs (tr s)) (rep s) /\
  (exists m, (m = rep s \/ m = rep s + 1) /\ finsok (fins (tr s)) m) /\
  asked_before (tr s) /\ persisted_before (tr s) /\
  kd (meta s) = rep s.
Proof. exact safety. Qed.
Print Assumptions C07_safety_full.

(* the same at every instant inside an includer run (death / failing effect after k effects): the reported
   height is the persisted one or one below it, never above *)
Theorem C07_safety_at_death_full : forall (h : list item) (k : nat), let s := dying (run h) k in
  (kd (meta s) = di s \/ kd (meta s) = di s + 1) /\
  kd (meta s) <= sheight s /\
  desc (dputs (tr s)) (kd (meta s)) /\
  (exists m, (m = kd (meta s) \/ m = kd (meta s) + 1) /\ finsok (fins (tr s)) m) /\
  asked_before (tr s) /\ persisted_before (tr s).
Proof. exact safety_at_death. Qed.
Print Assumptions C07_safety_at_death_full.

(* every height n up to the reported one is a stored block whose header was accepted by / observed on the
   DA layer at the DA height recorded under rhb/<n>/h, and whose data — unless the block is empty, in which
   case rhb/<n>/d repeats the header's DA height — was accepted / observed at the one recorded under rhb/<n>/d *)
Theorem C07_sound_full : forall (h : list item) (n : N), let s := run h in
  1 <= n <= rep s ->
  exists b hda dda,
    block_at (chain s) n = Some b /\
    meta_get (meta s) (KH n) = Some hda /\ meta_get (meta s) (KT n) = Some dda /\
    In (IMarkH (bh b) hda) h /\
    (if bempty b then dda = hda else In (IMarkD (bd b) dda) h).
Proof. exact sound. Qed.
Print Assumptions C07_sound_full.

Theorem C07_sound_at_death_full : forall (h : list item) (k : nat) (n : N), let s := dying (run h) k in
  1 <= n <= di s ->
  exists b hda dda,
    block_at (chain s) n = Some b /\
    meta_get (meta s) (KH n) = Some hda /\ meta_get (meta s) (KT n) = Some dda /\
    In (IMarkH (bh b) hda) h /\
    (if bempty b then dda = hda else In (IMarkD (bd b) dda) h).
Proof. exact sound_at_death. Qed.
Print Assumptions C07_sound_at_death_full.

(* liveness under the guard [blocks_marked_since_crash]: if the header and (unless empty) the data of every
   block up to n were accepted / observed after the last crash (clean restarts in between are allowed),
   one run of the includer reports at least n.
   What is missing relative to the property: marks produced before a crash; initial height above 1 (the guard
   is false when a height up to n is a hole). *)
Theorem C07_eventually_partial : forall (h : list item) (n : N),
  n <= sheight (run h) ->
  blocks_marked_since_crash h n = true ->
  n <= rep (run (h ++ [IInclude])).
Proof. exact eventually_guarded. Qed.
Print Assumptions C07_eventually_partial.

(* without the guard the statement is false: there is a history after which both parts of every block up to
   n are on the DA layer, and no continuation that lacks a NEW header mark — any number of includer runs,
   restarts, blocks, data marks — ever reports n.  On an aggregator nothing produces such a new mark (the
   submitter's watermark is persisted, the blob is never submitted again): defect F9. *)
Theorem C07_eventually_refuted :
  exists (h : list item) (n : N),
    n <= sheight (run h) /\ blocks_marked_ever h n = true /\
    forall ext, forallb (fun i => negb (is_markh i)) ext = true -> rep (run (h ++ ext)) < n.
Proof. exact eventually_refuted. Qed.
Print Assumptions C07_eventually_refuted.

Theorem C07_eventually_unguarded_refuted :
  ~ (forall (h : list item) (n : N), n <= sheight (run h) -> blocks_marked_ever h n = true ->
       exists k, n <= rep (run (h ++ repeat IInclude k))).
Proof. exact eventually_full_is_false. Qed.
Print Assumptions C07_eventually_unguarded_refuted.

(* second refutation: genesis.InitialHeight > 1.  Heights below it are holes of the block store; the includer
   starts at height 1, GetBlockData(1) fails, the loop breaks: whatever happens afterwards — marks included —
   the reported height stays 0, although every existing block up to n is on the DA layer. *)
Theorem C07_eventually_initial_height_refuted :
  exists (h : list item) (n : N),
    n <= sheight (run h) /\ blocks_marked_ever h n = true /\
    forall ext, rep (run (h ++ ext)) = 0 /\ rep (run (h ++ ext)) < n.
Proof. exact initial_height_refuted. Qed.
Print Assumptions C07_eventually_initial_height_refuted.

(* ---- non-vacuity ---------------------------------------------------------------------------------- *)
Definition b1 := {| bh := 1; bd := 0 |}.       (* empty block *)
Definition b2 := {| bh := 2; bd := 7 |}.
Definition b3 := {| bh := 3; bd := 7 |}.       (* same transaction list as block 2 *)
(* two blocks, included one by one; a crash after SetFinal(2) and before the height is stored loses the
   marks; they are produced again at other DA heights; clean restart; a third block; a crash *)
Definition ex_history : list item :=
  [ IAppend b1; IAppend b2; IMarkH 1 10; IMarkH 2 10; IInclude; IMarkD 7 11; ICrash 3; IInclude;
    IMarkH 2 12; IMarkD 7 12; IRestart; IAppend b3; IInclude; IMarkH 3 13; ICrash 0; IInclude ].

Example ex_run :
  let s := run ex_history in
  (rep s, sheight s, rev (fins (tr s)), rev (dputs (tr s))) = (2, 3, [1; 2; 2], [1; 2]) /\
  meta_get (meta s) (KH 2) = Some 12 /\ meta_get (meta s) (KT 2) = Some 12 /\
  meta_get (meta s) (KH 1) = Some 10 /\ meta_get (meta s) (KT 1) = Some 10.
Proof. vm_compute. repeat split; reflexivity. Qed.

(* the guard of the liveness theorem is met by a history with a clean restart between mark and inclusion *)
Definition ex_live : list item := [ IAppend b1; IAppend b2; IMarkH 1 10; IMarkD 7 11; IRestart; IMarkH 2 12 ].
Example ex_live_guard :
  blocks_marked_since_crash ex_live 2 = true /\ 2 <= sheight (run ex_live) /\
  rep (run ex_live) = 0 /\ rep (run (ex_live ++ [IInclude])) = 2.
Proof. vm_compute. repeat split; try reflexivity; discriminate. Qed.

(* ... and is not met by the history of the refutation, whose blobs are nevertheless on the DA layer *)
(* a death between the Put of "d" := 1 and its publication: 0 was the last height anyone saw, 1 is reported
   after the restart; one effect earlier the restart reports 0 *)
Example ex_death :
  let h := [IAppend b1; IMarkH 1 10] in
  (seen_at_death h 4, rep (run (h ++ [ICrash 4])), seen_at_death h 3, rep (run (h ++ [ICrash 3])),
   seen_at_death h 5, rep (run (h ++ [IFault 5]))) = (0, 1, 0, 0, 1, 1).
Proof. vm_compute. reflexivity. Qed.

Example ex_f9 :
  blocks_marked_since_crash f9_history 1 = false /\ blocks_marked_ever f9_history 1 = true /\
  rep (run (f9_history ++ [IInclude; IRestart; IInclude])) = 0.
Proof. vm_compute. repeat split; reflexivity. Qed.
