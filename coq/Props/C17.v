(* Props/C17.v — lazy mode: blocks on demand and on the idle interval, never a lost wake-up; normal mode:
   one block per block interval regardless of notifications.
   Statements only; every proof is [exact <lemma of Proofs/LazyProofs.v>].
   All theorems quantify over every configuration [c] (mode, block time, lazy interval in any ratio,
   genesis offset, production durations shorter or longer than either interval), every list [ns] of
   notification instants, and every schedule: [reach c ns s] = the loop can be in state [s] after some
   sequence of handled select cases, notifications and productions, whatever `select` picked among
   simultaneously ready cases.  Time is in nanoseconds; [prods s] lists (start, duration) newest first. *)
From Coq Require Import ZArith NArith List Bool.
From Verif Require Import Model.Lazy Proofs.LazyProofs.
Import ListNotations.
Open Scope Z_scope.

(* "never produces blocks faster than one per block interval" is FALSE of the loop as written: nothing
   relates the lazy interval to the block time, and with a lazy interval below the block time the lazy
   timer alone produces blocks closer together than one block time (witness: block time 2 s, lazy
   interval 1 s, productions at 0 and 1 s). *)
Theorem C17_rate_refuted :
  ~ (forall c ns s, reach c ns s -> gaps_ge (eff_bt c) (prods s)).
Proof. exact rate_refuted. Qed.
Print Assumptions C17_rate_refuted.

(* guard [rate_guard c]: normal mode, or block time <= lazy interval.  Under it consecutive production
   starts are at least one block time apart — for all notification instants (including coincidences
   with either timer and with an in-flight production), durations and schedules. *)
Theorem C17_rate_partial : forall c ns s,
  rate_guard c = true -> reach c ns s -> gaps_ge (eff_bt c) (prods s).
Proof. exact rate_partial. Qed.
Print Assumptions C17_rate_partial.

(* on demand: a notification delivered (step CEnv, at instant [now s1]) while the loop waits in select is
   followed by a production that starts no later than one block interval afterwards (max with the
   1 ms floor of getRemainingSleep, which only matters for block times below 1 ms): once time has
   passed that bound, such a production is in the trace. *)
Theorem C17_on_demand_full : forall c ns s s1 s2,
  c_lazy c = true -> reach c ns s ->
  step c s CEnv = Some s1 -> steps c s1 s2 -> now s1 + Z.max (eff_bt c) ms < now s2 ->
  exists new p, prods s2 = new ++ prods s1 /\ In p new /\
                now s1 <= fst p /\ fst p <= now s1 + Z.max (eff_bt c) ms.
Proof. exact on_demand. Qed.
Print Assumptions C17_on_demand_full.

(* no lost wake-up: if a production (started at [tau c s], lasting [d]) begins while a notification sits in
   the channel or a notification arrives at any instant up to its end, then a FURTHER production starts
   strictly after its end and no later than the block timer it re-armed
   (start + block time, or end + 1 ms when it overran the block time). *)
Theorem C17_no_lost_wakeup_full : forall c ns s ch s1 s2,
  c_lazy c = true -> reach c ns s ->
  step c s ch = Some s1 -> produces c s ch = true ->
  (chan s = true \/ exists x, In x (pend s) /\ x <= tau c s + pdur c s) ->
  steps c s1 s2 -> next_fire (eff_bt c) (tau c s, pdur c s) < now s2 ->
  exists new p, prods s2 = new ++ (tau c s, pdur c s) :: prods s /\ In p new /\
                tau c s + pdur c s < fst p /\
                fst p <= next_fire (eff_bt c) (tau c s, pdur c s).
Proof. exact no_lost_wakeup. Qed.
Print Assumptions C17_no_lost_wakeup_full.

(* idle interval, no notifications: the first production starts when the loop enters select, every
   other one exactly when the lazy timer armed by its predecessor fires (start + lazy interval, or end
   + 1 ms after an overrun), and time cannot pass an armed lazy timer without a production. *)
Theorem C17_idle_full : forall c s,
  c_lazy c = true -> reach c [] s ->
  chain (eff_li c) (t0 c) (prods s) /\ now s <= armed (eff_li c) (t0 c) (prods s).
Proof. exact idle_exact. Qed.
Print Assumptions C17_idle_full.

(* idle interval, any notifications: at least one production per idle interval *)
Theorem C17_idle_bound_full : forall c ns s,
  c_lazy c = true -> reach c ns s ->
  chain_le (eff_li c) (prods s) /\ now s <= armed (eff_li c) (t0 c) (prods s).
Proof. exact idle_upper. Qed.
Print Assumptions C17_idle_bound_full.

(* the first production of a lazy run starts the instant the loop enters its select *)
Theorem C17_first_block_full : forall c ns s,
  c_lazy c = true -> reach c ns s ->
  (prods s = [] /\ now s = t0 c /\ lz s = t0 c) \/ (exists l d, prods s = l ++ [(t0 c, d)]).
Proof. exact first_at_t0. Qed.
Print Assumptions C17_first_block_full.

(* normal mode: whatever the notifications, productions are exactly the block-timer chain *)
Theorem C17_normal_full : forall c ns s,
  c_lazy c = false -> reach c ns s ->
  chain (eff_bt c) (t0 c) (prods s) /\ now s <= armed (eff_bt c) (t0 c) (prods s).
Proof. exact normal_exact. Qed.
Print Assumptions C17_normal_full.

(* the bounds above say "once time has passed the bound the production is in the trace"; time does pass:
   in every state some select case or the next notification is enabled, so no schedule gets stuck *)
Theorem C17_never_blocks_full : forall c s, exists ch s', step c s ch = Some s'.
Proof. exact progress. Qed.
Print Assumptions C17_never_blocks_full.

(* ---- histories: every notification instant of a run, and the reaper as their producer ---------------- *)

(* the two response clauses at the level of whole histories: for EVERY notification instant [x] of the
   run (wherever it falls relative to the two timers, to the start-up sleep and to productions in
   flight) and every reachable state, [answered c x s] (Model/Lazy.v): a production starts in
   [x, x + block interval], or — x strictly inside a production — a further production starts after
   that production's end and no later than the block timer it re-armed. *)
Theorem C17_every_notification_answered_full : forall c ns s x,
  c_lazy c = true -> reach c ns s -> In x ns -> answered c x s.
Proof. exact every_notification_answered. Qed.
Print Assumptions C17_every_notification_answered_full.

(* Reaper.SubmitTxs: each batch of new transactions the sequencer accepted is non-empty and emits a
   notification at that instant — for all histories of executor answers (errors, repeated and
   duplicated transactions), sequencer refusals and failed seen-store writes ... *)
Theorem C17_reaper_notifies_full : forall evs x b,
  In (x, b) (rsubs evs) -> b <> [] /\ In x (rnotifs evs).
Proof. exact reaper_sub_notifies. Qed.
Print Assumptions C17_reaper_notifies_full.

(* ... and the reaper notifies only then *)
Theorem C17_reaper_notifies_only_new_full : forall evs x,
  In x (rnotifs evs) -> exists b, b <> [] /\ In (x, b) (rsubs evs).
Proof. exact reaper_notify_has_sub. Qed.
Print Assumptions C17_reaper_notifies_only_new_full.

(* no lost wake-up over histories of reaper submissions: whatever the reaper's history [evs] and
   whatever other notifications [extra], every batch of transactions handed to the sequencer — before,
   DURING or after a production in flight — is answered: a block within one block interval, never the
   idle interval. *)
Theorem C17_reaper_no_lost_wakeup_full : forall c extra evs s x b,
  c_lazy c = true -> reach c (extra ++ rnotifs evs) s -> In (x, b) (rsubs evs) ->
  b <> [] /\ answered c x s.
Proof. exact reaper_tx_answered. Qed.
Print Assumptions C17_reaper_no_lost_wakeup_full.

(* ---- non-vacuity: concrete schedules meeting the hypotheses ---------------------------------------- *)

(* block time 1 s, lazy interval 3 s, productions of 10 ms, no start-up sleep *)
Definition ex_cfg : cfg :=
  {| c_lazy := true; c_bt := 1000 * ms; c_li := 3000 * ms; c_gen := -1000 * ms; c_durs := []; c_ddef := 10 * ms |}.

Example ex_rate_guard : rate_guard ex_cfg = true.
Proof. vm_compute. reflexivity. Qed.

(* on demand: notification at 1.5 s (idle) -> production at 2 s; the run goes on past 2.5 s *)
Example ex_on_demand :
  exists s s1 s2, reach ex_cfg [1500 * ms] s /\ step ex_cfg s CEnv = Some s1 /\ steps ex_cfg s1 s2 /\
    now s1 = 1500 * ms /\ now s1 + Z.max (eff_bt ex_cfg) ms < now s2 /\
    rev (map fst (prods s2)) = [0; 2000 * ms].
Proof.
  destruct (run ex_cfg (init ex_cfg [1500 * ms]) [CLazy; CBlock]) as [s|] eqn:E; [|vm_compute in E; discriminate].
  destruct (step ex_cfg s CEnv) as [s1|] eqn:E1;
    [|vm_compute in E; inversion E; subst s; vm_compute in E1; discriminate].
  destruct (run ex_cfg s1 [CRecv; CBlock; CBlock]) as [s2|] eqn:E2;
    [|vm_compute in E; inversion E; subst s; vm_compute in E1; inversion E1; subst s1; vm_compute in E2; discriminate].
  exists s, s1, s2. split; [eapply run_reach; exact E|]. split; [exact E1|].
  split; [eapply run_steps; exact E2|].
  vm_compute in E; inversion E; subst s; vm_compute in E1; inversion E1; subst s1;
    vm_compute in E2; inversion E2; subst s2. vm_compute. repeat split; reflexivity.
Qed.

(* lost wake-up: production of 500 ms at 0, notification at 200 ms inside it -> further production at 1 s *)
Definition ex_cfg2 : cfg :=
  {| c_lazy := true; c_bt := 1000 * ms; c_li := 3000 * ms; c_gen := -1000 * ms; c_durs := []; c_ddef := 500 * ms |}.

Example ex_lost_wakeup :
  exists s1 s2, let s := init ex_cfg2 [200 * ms] in
    step ex_cfg2 s CLazy = Some s1 /\ produces ex_cfg2 s CLazy = true /\
    (exists x, In x (pend s) /\ x <= tau ex_cfg2 s + pdur ex_cfg2 s) /\
    steps ex_cfg2 s1 s2 /\ next_fire (eff_bt ex_cfg2) (tau ex_cfg2 s, pdur ex_cfg2 s) < now s2 /\
    rev (map fst (prods s2)) = [0; 1000 * ms].
Proof.
  destruct (step ex_cfg2 (init ex_cfg2 [200 * ms]) CLazy) as [s1|] eqn:E1; [|vm_compute in E1; discriminate].
  destruct (run ex_cfg2 s1 [CRecv; CBlock]) as [s2|] eqn:E2;
    [|vm_compute in E1; inversion E1; subst s1; vm_compute in E2; discriminate].
  exists s1, s2. cbv zeta. split; [exact E1|]. split; [reflexivity|].
  split; [exists (200 * ms); split; [vm_compute; left; reflexivity | vm_compute; intro HH; discriminate HH]|].
  split; [eapply run_steps; exact E2|].
  vm_compute in E1; inversion E1; subst s1; vm_compute in E2; inversion E2; subst s2.
  vm_compute. split; reflexivity.
Qed.

(* idle: no notifications, productions at 0, 3 s, 6 s *)
Example ex_idle :
  exists s, reach ex_cfg [] s /\ rev (map fst (prods s)) = [0; 3000 * ms; 6000 * ms].
Proof.
  destruct (run ex_cfg (init ex_cfg []) [CBlock; CLazy; CBlock; CBlock; CLazy; CBlock; CBlock; CLazy]) as [s|] eqn:E;
    [|vm_compute in E; discriminate].
  exists s. split; [eapply run_reach; exact E|]. vm_compute in E; inversion E; subst s. reflexivity.
Qed.

(* normal mode with a notification: productions at 0, 1 s, 2 s *)
Definition ex_cfg3 : cfg :=
  {| c_lazy := false; c_bt := 1000 * ms; c_li := 3000 * ms; c_gen := -1000 * ms; c_durs := []; c_ddef := 10 * ms |}.

Example ex_normal :
  exists s, reach ex_cfg3 [500 * ms] s /\ rev (map fst (prods s)) = [0; 1000 * ms; 2000 * ms].
Proof.
  destruct (run ex_cfg3 (init ex_cfg3 [500 * ms]) [CBlock; CEnv; CRecv; CBlock; CBlock]) as [s|] eqn:E;
    [|vm_compute in E; discriminate].
  exists s. split; [eapply run_reach; exact E|]. vm_compute in E; inversion E; subst s. reflexivity.
Qed.

(* the refutation witness as numbers *)
Example ex_rate_witness :
  exists s, reach refute_cfg [] s /\ prods s = [(1000 * ms, 0); (0, 0)] /\ eff_bt refute_cfg = 2000 * ms.
Proof. exact rate_refuted_trace. Qed.

(* reaper: tx 1 submitted at 1.2 s (idle) -> production at 2 s (500 ms); the executor lists tx 1 again
   at 1.5 s (nothing new: no call, no notification); tx 3 refused by the sequencer at 1.7 s (no
   notification, not marked seen); tx 2 (listed twice, with tx 1) submitted at 2.2 s INSIDE the production
   -> further production at 3 s *)
Definition ex_revs : list (Z * rin) :=
  [ (1200 * ms, {| ri_get := Some [1%N]; ri_ok := true; ri_seen_ok := true |});
    (1500 * ms, {| ri_get := Some [1%N]; ri_ok := true; ri_seen_ok := true |});
    (1600 * ms, {| ri_get := None; ri_ok := true; ri_seen_ok := true |});
    (1700 * ms, {| ri_get := Some [3%N]; ri_ok := false; ri_seen_ok := true |});
    (2200 * ms, {| ri_get := Some [1%N; 2%N; 2%N]; ri_ok := true; ri_seen_ok := true |}) ].

Example ex_reaper_history :
  rsubs ex_revs = [(1200 * ms, [1%N]); (2200 * ms, [2%N])] /\
  rnotifs ex_revs = [1200 * ms; 2200 * ms] /\
  rcalls ex_revs = [(1200 * ms, ([1%N], true)); (1700 * ms, ([3%N], false)); (2200 * ms, ([2%N], true))].
Proof. vm_compute. repeat split; reflexivity. Qed.

Example ex_reaper_lost_wakeup :
  exists s, reach ex_cfg2 ([] ++ rnotifs ex_revs) s /\ In (2200 * ms, [2%N]) (rsubs ex_revs) /\
    In (2000 * ms, 500 * ms) (prods s) /\ 2000 * ms < 2200 * ms <= 2000 * ms + 500 * ms /\
    next_fire (eff_bt ex_cfg2) (2000 * ms, 500 * ms) < now s /\
    rev (map fst (prods s)) = [0; 2000 * ms; 3000 * ms].
Proof.
  destruct (run ex_cfg2 (init ex_cfg2 ([] ++ rnotifs ex_revs)) [CLazy; CBlock; CEnv; CRecv; CBlock; CRecv; CBlock]) as [s|] eqn:E;
    [|vm_compute in E; discriminate].
  exists s. split; [eapply run_reach; exact E|]. vm_compute in E; inversion E; subst s.
  split; [vm_compute; right; left; reflexivity|].
  split; [vm_compute; right; left; reflexivity|].
  vm_compute. repeat split; try reflexivity; intro HH; discriminate HH.
Qed.
