(* Props/C20.v — based sequencer: DA-ordered, size-bounded, restart-safe batches.
   Statements only; every proof is [exact <lemma of Proofs/BasedProofs.v>].
   The model (Model/Based.v) is sequencers/based AS REPAIRED by fixes/C20-based-scan-position.diff and by the
   commit "fix: based sequencer: a request that cannot be used does not consume the carry-over queue"; the four
   defects of the pinned code are recorded as fixed findings (findings/C20.entries.json).

   Quantification: [cfg] = any start height and drift; [daf] = any DA contents (any number and size of
   transactions per height, empty heights), [wf_da] only says that a transaction found at height h is labelled
   h; a history [h : list item] = any sequence of calls and restarts, each call with any size limit (0 = the
   default; limits below one transaction included), any DA tip (heights above it are "from the future" during
   that call), any retrieval error script, and any kind of request: an ordinary one, one made under a
   cancelled context (every retrieval of the call fails), one with a foreign chain id, one whose LastBatchData
   is malformed (its last id has 8 bytes or fewer and cannot name a DA height) — the last two cannot be used
   and are answered with an error ([unusable c = Some e]).  [manager_lbd h] restricts ONLY the LastBatchData
   argument: it is what block.Manager passes (the ids of the last non-empty batch), nothing, or malformed —
   never forged to name a height; the property does not quantify over LastBatchData.  C20_size_full,
   C20_carry_first_full, C20_restart_full, C20_unusable_request_no_effect_full hold without it. *)
From Coq Require Import NArith List Bool.
From Verif Require Import Model.Based Proofs.BasedProofs Check.BasedCheck.
Import ListNotations.
Open Scope N_scope.

(* DA order, each exactly once, nothing dropped: at every moment, what has been released so far followed by
   the carry-over queue IS the DA contents of the heights from the start height up to the scan position, in
   (height, position) order — so the released sequence is a prefix of the DA stream (no duplicate, no
   reordering, no gap), and every transaction below the scan position is released or waiting in the queue. *)
Theorem C20_order_once_full : forall cfg daf (h : list item),
  wf_da daf -> manager_lbd h = true ->
  released cfg daf init_sys h ++ carry (final cfg daf init_sys h) =
  stream daf (cf_start cfg) (scan_pos cfg (sy_st (final cfg daf init_sys h))).
Proof. exact order_once. Qed.
Print Assumptions C20_order_once_full.

Theorem C20_prefix_full : forall cfg daf (h : list item),
  wf_da daf -> manager_lbd h = true ->
  exists b rest, stream daf (cf_start cfg) b = released cfg daf init_sys h ++ rest.
Proof. exact order_prefix. Qed.
Print Assumptions C20_prefix_full.

(* the scan position never passes a height that did not exist yet: it stays at or below (largest tip seen)+1 *)
Theorem C20_never_past_tip_full : forall cfg daf (h : list item),
  wf_da daf -> manager_lbd h = true ->
  scan_pos cfg (sy_st (final cfg daf init_sys h)) <= N.max (cf_start cfg) (max_tip h + 1).
Proof. exact pos_bound. Qed.
Print Assumptions C20_never_past_tip_full.

(* no batch exceeds the requested size: after ANY history, for ANY call (any LastBatchData) *)
Theorem C20_size_full : forall cfg daf (h : list item) (c : call),
  total (batch_of (call_resp cfg daf (final cfg daf init_sys h) c)) <= eff_max (c_max c).
Proof. exact size_bound. Qed.
Print Assumptions C20_size_full.

(* the transaction that did not fit comes first in the next batch: after ANY history with a carry-over head t,
   ANY call whose request can be used (a cancelled context included) either returns a batch starting with t, or
   returns nothing and leaves the queue as it is — and the latter only when t alone exceeds the limit.  (A call
   whose request cannot be used returns an error and leaves everything as it is:
   C20_unusable_request_no_effect_full.) *)
Theorem C20_carry_first_full : forall cfg daf (h : list item) (c : call) t rest,
  unusable c = None ->
  carry (final cfg daf init_sys h) = t :: rest ->
  (exists txs ts, call_resp cfg daf (final cfg daf init_sys h) c = MBatch (t :: txs) ts) \/
  (call_resp cfg daf (final cfg daf init_sys h) c = MNone /\
   carry (after_call cfg daf (final cfg daf init_sys h) c) = t :: rest /\
   eff_max (c_max c) < t_sz t).
Proof. exact carry_first. Qed.
Print Assumptions C20_carry_first_full.

(* restart safety: the responses, the DA heights retrieved and the persisted states of a history are those of
   the same history with the restarts removed *)
Theorem C20_restart_full : forall cfg daf (h : list item),
  trace cfg daf init_sys h = trace cfg daf init_sys (no_restarts h) /\
  final cfg daf init_sys h = final cfg daf init_sys (no_restarts h).
Proof. exact restart_safe. Qed.
Print Assumptions C20_restart_full.

(* a request that cannot be used has no effect.  After ANY history h1 (any LastBatchData), a call with a foreign
   chain id or a malformed LastBatchData returns the error, and the system after it IS the system before it:
   the carry-over queue in memory, the stored queue, the stored scan position (and what the caller passes
   next); whatever history h2 follows, what is released and where the system ends are what they are without
   that call.  Second statement: the same for any number of such calls anywhere in a history. *)
Theorem C20_unusable_request_no_effect_full : forall cfg daf (h1 h2 : list item) (c : call) e,
  unusable c = Some e ->
  call_resp cfg daf (final cfg daf init_sys h1) c = MErr e /\
  after_call cfg daf (final cfg daf init_sys h1) c = final cfg daf init_sys h1 /\
  released cfg daf init_sys (h1 ++ ICall c :: h2) = released cfg daf init_sys (h1 ++ h2) /\
  final cfg daf init_sys (h1 ++ ICall c :: h2) = final cfg daf init_sys (h1 ++ h2).
Proof. exact unusable_no_effect. Qed.
Print Assumptions C20_unusable_request_no_effect_full.

Theorem C20_unusable_requests_interleaved_full : forall cfg daf (h : list item),
  released cfg daf init_sys h = released cfg daf init_sys (usable_only h) /\
  final cfg daf init_sys h = final cfg daf init_sys (usable_only h).
Proof. exact (fun cfg daf h => unusable_interleaved cfg daf h init_sys). Qed.
Print Assumptions C20_unusable_requests_interleaved_full.

(* progress (the "at least once" half): with an empty queue, a usable call whose first retrieval is answered
   (so: not under a cancelled context) moves the scan position forward; a carry-over head that fits the limit
   is released by the next usable call *)
Theorem C20_progress_scan_full : forall cfg daf (h : list item) (c : call) txs,
  wf_da daf -> manager_lbd (h ++ [ICall c]) = true ->
  unusable c = None ->
  carry (final cfg daf init_sys h) = [] ->
  retrieve daf (c_tip c) (scan_pos cfg (sy_st (final cfg daf init_sys h))) (hd 0 (call_errs c)) = DOk txs ->
  scan_pos cfg (sy_st (final cfg daf init_sys h)) <
  scan_pos cfg (sy_st (after_call cfg daf (final cfg daf init_sys h) c)).
Proof. exact progress_scan. Qed.
Print Assumptions C20_progress_scan_full.

Theorem C20_progress_carry_full : forall cfg daf (h : list item) (c : call) t rest,
  unusable c = None ->
  carry (final cfg daf init_sys h) = t :: rest ->
  t_sz t <= eff_max (c_max c) ->
  exists txs ts, call_resp cfg daf (final cfg daf init_sys h) c = MBatch (t :: txs) ts.
Proof. exact progress_carry. Qed.
Print Assumptions C20_progress_carry_full.

(* ---- non-vacuity: a concrete history meeting the hypotheses, with a push-back, a limit below one transaction,
   a restart with a non-empty queue, retrieval errors, an empty height, a future height, requests that cannot
   be used (before the first call, with a carry-over waiting, around restarts), a cancelled context ---------- *)
Definition ex_cfg := {| cf_start := 1; cf_drift := 2 |}.
Definition ex_da : list (N * list N) := [(0,[9]); (1,[3;2;6]); (3,[4]); (5,[2;2]); (6,[1])].
Definition ex_history : list item :=
  [ ICall (mkcallq 5 1 [] LShort QOk);          (* malformed LastBatchData before anything was stored *)
    ICall (mkcall 5 1 [] LMgr);                 (* height 1: 3 taken, 2 does not fit (3+2>=5): pushed back with 6 *)
    ICall (mkcallq 5 1 [] LShort QOk);          (* malformed LastBatchData while a carry-over is waiting *)
    IRestart;
    ICall (mkcallq 5 1 [] LMgr QForeignId);     (* foreign chain id right after a restart *)
    ICall (mkcall 5 1 [] LMgr);                 (* carry-over: 2 popped, 6 blocks; no scan *)
    ICall (mkcall 5 4 [] LMgr);                 (* 6 > 5: nothing can be released, nothing overtakes it *)
    ICall (mkcallq 7 4 [] LMgr QCancelled);     (* cancelled context: 6 released; the retrieval of height 2 fails *)
    ICall (mkcall 7 4 [0;2] LNone);             (* height 2 empty, height 3: Get fails *)
    ICall (mkcallq 0 9 [] LNone QForeignId);    (* foreign chain id right before a restart *)
    IRestart;
    ICall (mkcall 7 4 [] LMgr);                 (* height 3 released; height 4 empty; height 5 is in the future: stop there *)
    ICall (mkcallq 0 9 [] LShort QCancelled);   (* malformed LastBatchData under a cancelled context *)
    ICall (mkcall 0 9 [] LMgr) ].               (* default limit: everything else *)

Example ex_hypotheses : wf_da (da_at ex_da) /\ manager_lbd ex_history = true.
Proof. split; [exact (da_at_wf ex_da)|vm_compute; reflexivity]. Qed.

Definition err_class (rp : response) : N :=
  match rp with MErr EInvalidId => 1 | MErr EBadLbd => 2 | _ => 0 end.

Example ex_trace :
  map (fun o => (err_class (fst (fst o)), ids_of (batch_of (fst (fst o))), snd (fst o), dur_scan (snd o), proj_q (dur_q (snd o))))
      (trace ex_cfg (da_at ex_da) init_sys ex_history) =
  [ (2, [], [], None, []);
    (0, [(1, 0)], [1], Some 2, [([(1, 1); (1, 2)], Some 1)]);
    (2, [], [], Some 2, [([(1, 1); (1, 2)], Some 1)]);
    (1, [], [], Some 2, [([(1, 1); (1, 2)], Some 1)]);
    (0, [(1, 1)], [], Some 2, [([(1, 2)], Some 1)]);
    (0, [], [], Some 2, [([(1, 2)], Some 1)]);
    (0, [(1, 2)], [2], Some 2, []);
    (0, [], [2; 3], Some 3, []);
    (1, [], [], Some 3, []);
    (0, [(3, 0)], [3; 4; 5], Some 5, []);
    (2, [], [], Some 5, []);
    (0, [(5, 0); (5, 1); (6, 0)], [5; 6; 7], Some 8, []) ].
Proof. vm_compute. reflexivity. Qed.

Example ex_released_is_the_stream :
  released ex_cfg (da_at ex_da) init_sys ex_history = stream (da_at ex_da) 1 8 /\
  ids_of (stream (da_at ex_da) 1 8) = [(1, 0); (1, 1); (1, 2); (3, 0); (5, 0); (5, 1); (6, 0)].
Proof. vm_compute. split; reflexivity. Qed.

(* five of the calls cannot be used; the history without them has nine items *)
Example ex_unusable_calls :
  map (fun it => match it with ICall c => err_class (match unusable c with Some e => MErr e | None => MNone end) | IRestart => 0 end) ex_history
  = [2; 0; 2; 0; 1; 0; 0; 0; 0; 1; 0; 0; 2; 0] /\
  length (usable_only ex_history) = 9%nat.
Proof. vm_compute. split; reflexivity. Qed.

(* hypotheses of the two progress theorems and of carry-first are met along this history *)
Example ex_progress_hypotheses :
  carry (final ex_cfg (da_at ex_da) init_sys (firstn 2 ex_history)) <> [] /\
  carry (final ex_cfg (da_at ex_da) init_sys (firstn 8 ex_history)) = [] /\
  manager_lbd (firstn 11 ex_history ++ [ICall (mkcall 7 4 [] LMgr)]) = true /\
  unusable (mkcall 7 4 [] LMgr) = None /\
  exists txs, retrieve (da_at ex_da) 4 (scan_pos ex_cfg (sy_st (final ex_cfg (da_at ex_da) init_sys (firstn 11 ex_history)))) (hd 0 (call_errs (mkcall 7 4 [] LMgr))) = DOk txs.
Proof. vm_compute. repeat split; try discriminate. eexists. reflexivity. Qed.

(* the fourth repaired defect (findings/C20-unusable-request-consumes-carry-over.json): DA heights
   1:{6,6} 2:{6} 3:{6} bytes, limit 10; call 1 releases (1,0) and carries (1,1) over; call 2 comes with a
   LastBatchData whose last id is too short.  The repaired sequencer releases everything, in order; *)
Definition probe_da : list (N * list N) := [(1,[6;6]); (2,[6]); (3,[6])].
Definition probe_history : list item :=
  [ ICall (mkcall 10 9 [] LMgr); ICall (mkcallq 10 9 [] LShort QOk);
    ICall (mkcall 10 9 [] LMgr); ICall (mkcall 10 9 [] LMgr); ICall (mkcall 10 9 [] LMgr); ICall (mkcall 10 9 [] LMgr) ].

Example witness_unusable_request_after_the_repair :
  ids_of (released {| cf_start := 1; cf_drift := 2 |} (da_at probe_da) init_sys probe_history)
  = [(1,0); (1,1); (2,0); (3,0)].
Proof. vm_compute. reflexivity. Qed.

(* before the repair the queue was popped (and the shortened queue stored) ahead of the LastBatchData check:
   (1,1) is in no batch and is never released *)
Example witness_unusable_request_before_the_repair :
  ids_of (released_before_repair {| cf_start := 1; cf_drift := 2 |} (da_at probe_da) init_sys probe_history)
  = [(1,0); (2,0); (3,0)].
Proof. vm_compute. reflexivity. Qed.

(* without a request that cannot be used the pre-repair rule is the repaired one *)
Example before_the_repair_differs_only_there :
  released_before_repair ex_cfg (da_at ex_da) init_sys (usable_only ex_history)
  = released ex_cfg (da_at ex_da) init_sys ex_history.
Proof. vm_compute. reflexivity. Qed.

(* the witnesses of the three earlier repaired defects (findings/C20-*.json), evaluated in the model *)
Example witness_rerelease_after_pushback :   (* pinned code: [(4,0)] [(4,0)] ... for ever *)
  map (fun o => ids_of (batch_of (fst (fst o))))
      (trace {| cf_start := 2; cf_drift := 2 |} (da_at [(4,[4;6])]) init_sys
             [ICall (mkcall 8 12 [] LMgr); ICall (mkcall 0 12 [] LMgr)]) = [[(4,0)]; [(4,1)]].
Proof. vm_compute. reflexivity. Qed.

Example witness_future_height_stepped_over : (* pinned code: position 4 after the first call, (5,0) is lost *)
  map (fun o => (ids_of (batch_of (fst (fst o))), dur_scan (snd o)))
      (trace {| cf_start := 0; cf_drift := 3 |} (da_at [(5,[2])]) init_sys
             [ICall (mkcall 1000 1 [] LMgr); ICall (mkcall 1000 4 [] LMgr); ICall (mkcall 1000 6 [] LMgr)])
  = [([], Some 2); ([], Some 5); ([(5,0)], Some 7)].
Proof. vm_compute. reflexivity. Qed.

Example witness_carry_over_overtaken :       (* pinned code: second batch [(1,0)] again; with only the first two repairs: [(2,0)] *)
  map (fun o => ids_of (batch_of (fst (fst o))))
      (trace {| cf_start := 0; cf_drift := 2 |} (da_at [(1,[1;5]); (2,[1])]) init_sys
             [ICall (mkcall 3 9 [] LMgr); ICall (mkcall 3 12 [] LMgr); ICall (mkcall 9 12 [] LMgr)])
  = [[(1,0)]; []; [(1,1); (2,0)]].
Proof. vm_compute. reflexivity. Qed.
