(* Props/C20.v — based sequencer: DA-ordered, size-bounded, restart-safe batches.
   Statements only; every proof is [exact <lemma of Proofs/BasedProofs.v>].
   The model (Model/Based.v) is sequencers/based AS REPAIRED by fixes/C20-based-scan-position.diff; the three
   defects of the pinned code are recorded as fixed findings (findings/C20.entries.json).

   Quantification: [cfg] = any start height and drift; [daf] = any DA contents (any number and size of
   transactions per height, empty heights), [wf_da] only says that a transaction found at height h is labelled
   h; a history [h : list item] = any sequence of calls and restarts, each call with any size limit (0 = the
   default; limits below one transaction included), any DA tip (heights above it are "from the future" during
   that call) and any retrieval error script.  [manager_lbd h] restricts ONLY the LastBatchData argument: it is
   what block.Manager passes (the ids of the last non-empty batch) or nothing, never forged; the property does
   not quantify over LastBatchData.  C20_size_full, C20_carry_first_full, C20_restart_full hold without it. *)
From Coq Require Import NArith List Bool.
From Verif Require Import Model.Based Proofs.BasedProofs Check.BasedCheck.
Import ListNotations.
Open Scope N_scope.

(* DA order, each exactly once, nothing dropped: at every moment, what has been released so far followed by
   the carry-over queue IS the DA contents of the heights from the start height up to the scan position, in
   (height, position) order — so the released sequence is a prefix of the DA stream (no duplicate, no
   reordering, no gap), and every transaction below the scan position is released or waiting in the queue. *)
Theorem C20_order_once_full : forall cfg daf (h : list item),
  wf_da daf -> manager_lbd h = true ->
  released cfg daf init_sys h ++ carry (final cfg daf init_sys h) =
  stream daf (cf_start cfg) (scan_pos cfg (sy_st (final cfg daf init_sys h))).
Proof. exact order_once. Qed.
Print Assumptions C20_order_once_full.

Theorem C20_prefix_full : forall cfg daf (h : list item),
  wf_da daf -> manager_lbd h = true ->
  exists b rest, stream daf (cf_start cfg) b = released cfg daf init_sys h ++ rest.
Proof. exact order_prefix. Qed.
Print Assumptions C20_prefix_full.

(* the scan position never passes a height that did not exist yet: it stays at or below (largest tip seen)+1 *)
Theorem C20_never_past_tip_full : forall cfg daf (h : list item),
  wf_da daf -> manager_lbd h = true ->
  scan_pos cfg (sy_st (final cfg daf init_sys h)) <= N.max (cf_start cfg) (max_tip h + 1).
Proof. exact pos_bound. Qed.
Print Assumptions C20_never_past_tip_full.

(* no batch exceeds the requested size: after ANY history, for ANY call (any LastBatchData) *)
Theorem C20_size_full : forall cfg daf (h : list item) (c : call),
  total (batch_of (call_resp cfg daf (final cfg daf init_sys h) c)) <= eff_max (c_max c).
Proof. exact size_bound. Qed.
Print Assumptions C20_size_full.

(* the transaction that did not fit comes first in the next batch: after ANY history with a carry-over head t,
   ANY call either returns a batch starting with t, or returns nothing and leaves the queue as it is — and the
   latter only when t alone exceeds the limit *)
Theorem C20_carry_first_full : forall cfg daf (h : list item) (c : call) t rest,
  carry (final cfg daf init_sys h) = t :: rest ->
  (exists txs ts, call_resp cfg daf (final cfg daf init_sys h) c = MBatch (t :: txs) ts) \/
  (call_resp cfg daf (final cfg daf init_sys h) c = MNone /\
   carry (after_call cfg daf (final cfg daf init_sys h) c) = t :: rest /\
   eff_max (c_max c) < t_sz t).
Proof. exact carry_first. Qed.
Print Assumptions C20_carry_first_full.

(* restart safety: the responses, the DA heights retrieved and the persisted states of a history are those of
   the same history with the restarts removed *)
Theorem C20_restart_full : forall cfg daf (h : list item),
  trace cfg daf init_sys h = trace cfg daf init_sys (no_restarts h) /\
  final cfg daf init_sys h = final cfg daf init_sys (no_restarts h).
Proof. exact restart_safe. Qed.
Print Assumptions C20_restart_full.

(* progress (the "at least once" half): with an empty queue, a call whose first retrieval is answered moves
   the scan position forward; a carry-over head that fits the limit is released by the next call *)
Theorem C20_progress_scan_full : forall cfg daf (h : list item) (c : call) txs,
  wf_da daf -> manager_lbd (h ++ [ICall c]) = true ->
  carry (final cfg daf init_sys h) = [] ->
  retrieve daf (c_tip c) (scan_pos cfg (sy_st (final cfg daf init_sys h))) (hd 0 (c_errs c)) = DOk txs ->
  scan_pos cfg (sy_st (final cfg daf init_sys h)) <
  scan_pos cfg (sy_st (after_call cfg daf (final cfg daf init_sys h) c)).
Proof. exact progress_scan. Qed.
Print Assumptions C20_progress_scan_full.

Theorem C20_progress_carry_full : forall cfg daf (h : list item) (c : call) t rest,
  carry (final cfg daf init_sys h) = t :: rest ->
  t_sz t <= eff_max (c_max c) ->
  exists txs ts, call_resp cfg daf (final cfg daf init_sys h) c = MBatch (t :: txs) ts.
Proof. exact progress_carry. Qed.
Print Assumptions C20_progress_carry_full.

(* ---- non-vacuity: a concrete history meeting the hypotheses, with a push-back, a limit below one transaction,
   a restart with a non-empty queue, retrieval errors, an empty height, a future height ------------------------ *)
Definition ex_cfg := {| cf_start := 1; cf_drift := 2 |}.
Definition ex_da : list (N * list N) := [(0,[9]); (1,[3;2;6]); (3,[4]); (5,[2;2]); (6,[1])].
Definition ex_history : list item :=
  [ ICall (mkcall 5 1 [] LMgr);        (* height 1: 3 taken, 2 does not fit (3+2>=5): pushed back with 6 *)
    IRestart;
    ICall (mkcall 5 1 [] LMgr);        (* carry-over: 2 popped, 6 blocks; no scan *)
    ICall (mkcall 5 4 [] LMgr);        (* 6 > 5: nothing can be released, nothing overtakes it *)
    ICall (mkcall 7 4 [1] LMgr);       (* 6 released; the retrieval of height 2 fails *)
    ICall (mkcall 7 4 [0;2] LNone);    (* height 2 empty, height 3: Get fails *)
    IRestart;
    ICall (mkcall 7 4 [] LMgr);        (* height 3 released; height 4 empty; height 5 is in the future: stop there *)
    ICall (mkcall 0 9 [] LMgr) ].      (* default limit: everything else *)

Example ex_hypotheses : wf_da (da_at ex_da) /\ manager_lbd ex_history = true.
Proof. split; [exact (da_at_wf ex_da)|vm_compute; reflexivity]. Qed.

Example ex_trace :
  map (fun o => (ids_of (batch_of (fst (fst o))), snd (fst o), dur_scan (snd o), proj_q (dur_q (snd o))))
      (trace ex_cfg (da_at ex_da) init_sys ex_history) =
  [ ([(1, 0)], [1], Some 2, [([(1, 1); (1, 2)], Some 1)]);
    ([(1, 1)], [], Some 2, [([(1, 2)], Some 1)]);
    ([], [], Some 2, [([(1, 2)], Some 1)]);
    ([(1, 2)], [2], Some 2, []);
    ([], [2; 3], Some 3, []);
    ([(3, 0)], [3; 4; 5], Some 5, []);
    ([(5, 0); (5, 1); (6, 0)], [5; 6; 7], Some 8, []) ].
Proof. vm_compute. reflexivity. Qed.

Example ex_released_is_the_stream :
  released ex_cfg (da_at ex_da) init_sys ex_history = stream (da_at ex_da) 1 8 /\
  ids_of (stream (da_at ex_da) 1 8) = [(1, 0); (1, 1); (1, 2); (3, 0); (5, 0); (5, 1); (6, 0)].
Proof. vm_compute. split; reflexivity. Qed.

(* hypotheses of the two progress theorems and of carry-first are met along this history *)
Example ex_progress_hypotheses :
  carry (final ex_cfg (da_at ex_da) init_sys (firstn 1 ex_history)) <> [] /\
  carry (final ex_cfg (da_at ex_da) init_sys (firstn 5 ex_history)) = [] /\
  manager_lbd (firstn 7 ex_history ++ [ICall (mkcall 7 4 [] LMgr)]) = true /\
  exists txs, retrieve (da_at ex_da) 4 (scan_pos ex_cfg (sy_st (final ex_cfg (da_at ex_da) init_sys (firstn 7 ex_history)))) 0 = DOk txs.
Proof. vm_compute. repeat split; try discriminate. eexists. reflexivity. Qed.

(* the witnesses of the three repaired defects (findings/C20-*.json), evaluated in the model *)
Example witness_rerelease_after_pushback :   (* pinned code: [(4,0)] [(4,0)] ... for ever *)
  map (fun o => ids_of (batch_of (fst (fst o))))
      (trace {| cf_start := 2; cf_drift := 2 |} (da_at [(4,[4;6])]) init_sys
             [ICall (mkcall 8 12 [] LMgr); ICall (mkcall 0 12 [] LMgr)]) = [[(4,0)]; [(4,1)]].
Proof. vm_compute. reflexivity. Qed.

Example witness_future_height_stepped_over : (* pinned code: position 4 after the first call, (5,0) is lost *)
  map (fun o => (ids_of (batch_of (fst (fst o))), dur_scan (snd o)))
      (trace {| cf_start := 0; cf_drift := 3 |} (da_at [(5,[2])]) init_sys
             [ICall (mkcall 1000 1 [] LMgr); ICall (mkcall 1000 4 [] LMgr); ICall (mkcall 1000 6 [] LMgr)])
  = [([], Some 2); ([], Some 5); ([(5,0)], Some 7)].
Proof. vm_compute. reflexivity. Qed.

Example witness_carry_over_overtaken :       (* pinned code: second batch [(1,0)] again; with only the first two repairs: [(2,0)] *)
  map (fun o => ids_of (batch_of (fst (fst o))))
      (trace {| cf_start := 0; cf_drift := 2 |} (da_at [(1,[1;5]); (2,[1])]) init_sys
             [ICall (mkcall 3 9 [] LMgr); ICall (mkcall 3 12 [] LMgr); ICall (mkcall 9 12 [] LMgr)])
  = [[(1,0)]; []; [(1,1); (2,0)]].
Proof. vm_compute. reflexivity. Qed.
