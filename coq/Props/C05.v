(* Props/C05.v — full node recovers from a crash at any point of block application.
   Statements only; every proof is [exact <lemma of Proofs/Syncer(Old)Proofs.v>].
   Histories: events, clean restarts, [ICrash e k] (the process dies while handling event e after k
   atomic datastore writes — an application is three writes: block batch, state, height — and a new
   process starts on that image with the cache files of the last clean shutdown), [ICrashBoot k]
   (a start that itself dies after k of its writes, including those of the trySyncNextBlock call it
   makes on the loaded caches), in any number and nesting.
   Model = the code after the repairs f41125c (block before state) and 5877669 (try the loaded caches
   when SyncLoop starts). *)
From Coq Require Import String NArith ZArith List Bool.
From Verif Require Import Base.KV Base.Keys Model.Types Model.Syncer Proofs.SyncerProofs.
From Verif Require Model.SyncerOld Proofs.SyncerOldProofs.
Import ListNotations.
Open Scope list_scope.
Open Scope N_scope.

(* for every execution function, genesis, valid chain and EVERY history — crashes after ANY number of
   writes of ANY event, crashes during start-up, recurring, nested, clean restarts — NO guard: the node is
   running and holds exactly a prefix of the proposer's chain: every height up to the recorded height has
   the proposer's block, and the recorded state (on disk and in memory) is the state of exactly that
   height (state.height = height). *)
Theorem C05_recovery_full : forall exec g k C h,
  ChainValid exec g k C -> Forall (item_in C) h -> recovered exec g C (run exec g h).
Proof. exact recovery. Qed.
Print Assumptions C05_recovery_full.

(* "after restart it continues syncing and reaches the proposer's chain": after ANY past h1 (crashes
   included), if the clean suffix h2 delivers — in any order — the header of every block up to m that is
   not yet applied and the data of every such non-empty block, the node reaches height initial + m - 1.
   GUARD: distinct_commitmentsb C (the still-open C02 finding: two blocks with equal non-empty tx lists);
   that is the only thing missing for _full. *)
Theorem C05_resync_partial : forall exec g k C h1 h2 m,
  ChainValid exec g k C -> Forall (item_in C) (h1 ++ h2) -> forallb is_clean h2 = true ->
  distinct_commitmentsb C = true -> (m <= length C)%nat ->
  (forall i b, (i < m)%nat -> nth_error C i = Some b ->
     g_initial g + N.of_nat i <= d_height (n_disk (run exec g h1)) \/ header_delivered h2 b) ->
  (forall i b, (i < m)%nat -> nth_error C i = Some b -> d_txs (snd b) <> [] ->
     g_initial g + N.of_nat i <= d_height (n_disk (run exec g h1)) \/ data_delivered h2 b) ->
  g_initial g + N.of_nat m - 1 <= d_height (n_disk (run exec g (h1 ++ h2))).
Proof. exact progress. Qed.
Print Assumptions C05_resync_partial.

(* ---- the two defects of the code BEFORE the repairs, on the frozen old model (Model/SyncerOld.v) ---- *)
(* F7: a crash after the state write and before the block save left state.height = n without block n *)
Example before_the_repair_recovery_refuted :
  exists exec g k C h,
    SyncerOld.ChainValid exec g k C /\ Forall (SyncerOld.item_in C) h /\
    ~ SyncerOld.recovered exec g C (SyncerOld.run exec g h).
Proof. exact SyncerOldProofs.old_recovery_refuted. Qed.
(* stale cache files: both parts of the next block cached and seen, never applied after a crash *)
Example before_the_repair_resync_refuted :
  exists exec g k C h1 h2,
    SyncerOld.ChainValid exec g k C /\ Forall (SyncerOld.item_in C) (h1 ++ h2) /\
    SyncerOld.no_bad_crash exec g (SyncerOld.init g) (h1 ++ h2) = true /\ forallb SyncerOld.is_clean h2 = true /\
    (forall b, In b C -> SyncerOld.header_delivered h2 b /\ SyncerOld.data_delivered h2 b) /\
    SyncerOld.d_height (SyncerOld.n_disk (SyncerOld.run exec g (h1 ++ h2))) < SyncerOld.g_initial g + N.of_nat (length C) - 1.
Proof. exact SyncerOldProofs.old_resync_refuted. Qed.

(* ---- non-vacuity: crashes at write indices 5 (inside the second block of one trySyncNextBlock run),
   1 (after the block save, before the state), 2, 0 and 3, crashes during start-up, recurring crashes, a
   clean restart with non-empty cache files; the node ends fully synced (initial height 2, heights 2..5) *)
Definition ex5 := ex_chain 2 [([], 100%Z); ([1], 101%Z); ([], 101%Z); ([2; 3], 105%Z)].
Definition crash_h (C : list block) (i : nat) (q : nat) : item :=
  ICrash (EvHeader (fst (nth i C (genesis_block (ex_g 1)))) 0) q.
Definition ex5_hist :=
  [ evh ex5 3 1; evd ex5 3 1; IRestart; evd ex5 1 1; evh ex5 1 1;
    crash_h ex5 0 5; ICrashBoot 1; crash_h ex5 2 1; ICrashBoot 0; crash_h ex5 2 2; evh ex5 0 4 ].
Example ex5_meets_hypotheses :
  ChainValid ex_exec (ex_g 2) 1 ex5 /\ Forall (item_in ex5) ex5_hist /\ distinct_commitmentsb ex5 = true.
Proof.
  split; [chain_valid|]. split; [repeat constructor; cbn; try exact I; eexists; solve_in|vm_compute; reflexivity].
Qed.
Example ex5_heights :
  map (fun n => d_height (n_disk (run ex_exec (ex_g 2) (firstn n ex5_hist)))) [5; 6; 7; 8; 9; 10; 11]%nat = [1; 3; 3; 3; 3; 5; 5].
Proof. vm_compute. reflexivity. Qed.

(* REFINEMENT FROM TRANSLATED CODE.  The loop the histories above run, [try_sync], is what Manager.trySyncNextBlock
   does — the Go function itself (block/sync.go), translated from /repo's source on every run (coq/gen/GoLiteFuns.v: one
   iteration of its endless loop, with Manager.updateState inside it) and evaluated by Model/GoLite.v against scripted
   collaborators (Check/GoLiteSync.v: [go_trySyncNextBlock], for ALL worlds).  For EVERY loop state of the model and
   every executor, the translated iteration
     - returns nil, having written nothing, exactly when [try_sync] stops for want of the next header or data;
     - returns an error, having written nothing and not having called the executor, exactly when [try_sync] halts;
     - otherwise goes round again after the durable writes of [block_writes] in the model's order — block, state,
       height (fix f41125c) — which is the write sequence the crash points of the histories cut. *)
From Verif Require Proofs.GoLiteSyncRefine.
Theorem C05_translated_sync_refines_try_sync_full : forall exec (f : nat) (st : loopst),
  exists o, Check.GoLiteSync.run_sync (GoLiteSyncRefine.sworld_of st) = Some o /\
    let next := (d_height (l_disk st) + 1)%N in
    match Syncer.lookup (c_hdrs (l_cache st)) next, Syncer.lookup (c_data (l_cache st)) next with
    | Some sh, Some d =>
        if validate (l_last st) sh d then
          Check.GoLiteSync.so_result o = [Check.GoLiteSync.continue_v] /\
          exists st', try_sync exec (S f) st = try_sync exec f st' /\
                      exists ws, l_ws st' = (l_ws st ++ ws)%list /\
                                 GoLiteSyncRefine.reaching_disk (d_height (l_disk st)) (GoLiteSyncRefine.code_writes o)
                                 = flat_map GoLiteSyncRefine.kind_of_wr ws
        else
          Check.GoLiteSync.so_result o = [Model.GoLite.VErr true] /\ GoLiteSyncRefine.code_writes o = [] /\
          GoLiteSyncRefine.executor_called o = false /\ try_sync exec (S f) st = GoLiteSyncRefine.halted st
    | _, _ =>
        Check.GoLiteSync.so_result o = [Model.GoLite.VNil] /\ GoLiteSyncRefine.code_writes o = [] /\
        GoLiteSyncRefine.executor_called o = false /\ try_sync exec (S f) st = st
    end.
Proof. exact GoLiteSyncRefine.translated_sync_refines_try_sync. Qed.
Print Assumptions C05_translated_sync_refines_try_sync_full.

(* THE WHOLE LOOP.  [code_try_sync] runs the translated iteration again and again, reading the code's own result (go
   round again / nil / an error); for every executor, every fuel and every loop state it is Syncer.try_sync. *)
Theorem C05_translated_sync_loop_is_try_sync_full : forall exec fuel st,
  GoLiteSyncRefine.code_try_sync exec fuel st = try_sync exec fuel st.
Proof. exact GoLiteSyncRefine.code_try_sync_is_try_sync. Qed.
Print Assumptions C05_translated_sync_loop_is_try_sync_full.

(* ---- the start of NewManager TRANSLATED FROM THE SOURCE (Check/GoLiteStartup.v, regenerated on every run) ----------
   Whenever the initial state was obtained, the start-up asks the store to set its height to EXACTLY the state's
   LastBlockHeight, in every world (go_NewManager_start gives the complete call sequence): the write by which a
   start-up repairs a process that died between the state write and the height write of a block. *)
From Verif Require Check.GoLiteStartup.
Theorem C05_translated_startup_sets_the_height_full : forall w : GoLiteStartup.nworld,
  GoLiteStartup.n_init_ok w = true -> In (GoLiteStartup.height_call w) (snd (GoLiteStartup.start_expect w)).
Proof. exact GoLiteStartup.startup_always_sets_the_height. Qed.
Print Assumptions C05_translated_startup_sets_the_height_full.
