(* Props/C05.v — full node recovers from a crash at any point of block application.
   Statements only; every proof is [exact <lemma of Proofs/SyncerProofs.v>].
   Histories: events, clean restarts, [ICrash e k] (the process dies while handling event e after k
   atomic datastore writes — an application is three writes: state, block batch, height — and a new
   process starts on that image with the cache files of the last clean shutdown), [ICrashBoot k]
   (a start that itself dies after k writes), in any number and nesting. *)
From Coq Require Import String NArith ZArith List Bool.
From Verif Require Import Base.KV Base.Keys Model.Types Model.Syncer Proofs.SyncerProofs.
Import ListNotations.
Open Scope list_scope.
Open Scope N_scope.

(* recovery AS WORDED IS FALSE of the code (F7): a crash after the state write and before the block save
   of an application (write index 1) leaves state.height = n without block n; start-up raises the chain
   height to n, events at heights <= n are skipped, and the block at height n is never the proposer's *)
Theorem C05_recovery_refuted :
  exists exec g k C h,
    ChainValid exec g k C /\ Forall (item_in C) h /\ ~ recovered exec g C (run exec g h).
Proof. exact recovery_refuted. Qed.
Print Assumptions C05_recovery_refuted.

(* "continues syncing and reaches the proposer's chain" IS ALSO FALSE without any crash at write index 1:
   after a clean stop the cache files hold header+data of block n+1 as cached and seen; if the process
   later dies exactly between the applications of n and n+1, the new process loads those files, every
   further copy of block n+1's header and data is dropped as seen, and trySyncNextBlock is never called
   again although both parts sit in the cache — the node stays below the chain it has fully received *)
Theorem C05_resync_refuted :
  exists exec g k C h1 h2,
    ChainValid exec g k C /\ Forall (item_in C) (h1 ++ h2) /\
    no_bad_crash exec g (init g) (h1 ++ h2) = true /\ forallb is_clean h2 = true /\
    (forall b, In b C -> header_delivered h2 b /\ data_delivered h2 b) /\
    d_height (n_disk (run exec g (h1 ++ h2))) < g_initial g + N.of_nat (length C) - 1.
Proof. exact resync_refuted. Qed.
Print Assumptions C05_resync_refuted.

(* GUARDED: for every execution function, genesis, valid chain and EVERY history of chain events, clean
   restarts, crashes inside event handling after any number of writes and crashes during start-up — in any
   number and nesting — in which no crash lands at write index 1 of an application (decidable guard
   [no_bad_crash], evaluated along the run): after the history the node is running and holds exactly a
   prefix of the proposer's chain: every height up to the recorded height has the proposer's block, the
   recorded state is the state of exactly that height (state.height = height), in memory and on disk.
   What is missing w.r.t. the property as worded: crashes at write index 1 (refuted above) and the
   "continues syncing ... reaches the proposer's chain" clause after a restart (refuted above when cache
   files of an earlier clean stop exist; otherwise only tested). *)
Theorem C05_recovery_partial : forall exec g k C h,
  ChainValid exec g k C -> Forall (item_in C) h -> no_bad_crash exec g (init g) h = true ->
  recovered exec g C (run exec g h).
Proof. exact recovery_partial. Qed.
Print Assumptions C05_recovery_partial.

(* ---- non-vacuity: crashes at write indices 5 (inside the second block of one trySyncNextBlock run),
   2, 0 and 3, crashes during start-up, recurring crashes, a clean restart; the guard holds and the node
   ends fully synced (initial height 2, four blocks: heights 2..5) ------------------------------------------------------------------------------------ *)
Definition ex5 := ex_chain 2 [([], 100%Z); ([1], 101%Z); ([], 101%Z); ([2; 3], 105%Z)].
Definition crash_h (C : list block) (i : nat) (q : nat) : item :=
  ICrash (EvHeader (fst (nth i C (genesis_block (ex_g 1)))) 0) q.
Definition ex5_hist :=
  [ IRestart; evh ex5 3 1; evd ex5 3 1; evd ex5 1 1; evh ex5 1 1; evh ex5 2 1;
    crash_h ex5 0 5; ICrashBoot 1; evh ex5 3 2; evd ex5 3 2; crash_h ex5 2 2; crash_h ex5 3 0; ICrashBoot 0;
    evd ex5 3 3; crash_h ex5 3 3; evh ex5 0 4 ].
Example ex5_meets_hypotheses :
  ChainValid ex_exec (ex_g 2) 1 ex5 /\ Forall (item_in ex5) ex5_hist /\
  no_bad_crash ex_exec (ex_g 2) (init (ex_g 2)) ex5_hist = true.
Proof.
  split; [chain_valid|]. split; [repeat constructor; cbn; try exact I; eexists; solve_in|vm_compute; reflexivity].
Qed.
Example ex5_heights :
  map (fun n => d_height (n_disk (run ex_exec (ex_g 2) (firstn n ex5_hist)))) [6; 7; 10; 11; 14; 15; 16]%nat = [1; 3; 3; 4; 4; 5; 5].
Proof. vm_compute. reflexivity. Qed.

(* the F7 witness is outside the guard of the partial theorem *)
Example f7_outside_guard : no_bad_crash ex_exec (ex_g 1) (init (ex_g 1)) f7_hist = false.
Proof. exact recovery_refuted_guard. Qed.
