(* Props/C08.v — the pending-submission limit throttles but never deadlocks block production.
   Statements only; every proof is [exact <lemma of Proofs/ThrottleProofs.v>].

   The model (Model/Throttle.v) is the REPAIRED code: publishBlockInternal refuses when
       L != 0 && (numPendingHeaders >= L || (numPendingData >= L && numWaitingData >= L))
   where numWaitingData (block/pending_data.go, added by fixes/C08-empty-data-counted-as-pending.diff) counts the
   pending data items that carry transactions and steps the data watermark over leading empty ones.  Before the
   repair the second test was numPendingData >= L alone: the data watermark only moves when a non-empty data
   blob is accepted, so L consecutive empty blocks stopped production for ever (findings/C08-*.json).

   Quantification: [c] = any initial height >= 1 and any limit L (L = 0 switches the limit off); [hist] = any
   history over  IProduce ne  (a production attempt; the sequencer hands out a batch with / without
   transactions — so any mix of empty and non-empty blocks, including all-empty),  IHeaders sc / IData sc
   (one iteration of the header / data submission loop whose DA calls are answered by sc: accept k, accept
   all, failure; the end of sc cancels the context — so DA outages of any finite length, also longer than the
   30 attempts of one iteration),  IRestart  (NewManager on the same datastore).
   [final c hist] is the state after hist, started from an empty datastore.

   waits s h : the committed block h still waits for the DA layer = its header has not been accepted, or its
   data carries transactions and has not been accepted.  num_waiting_blocks counts them among the committed
   heights.  The DA layer answers truthfully (lost acknowledgements are C06's subject).

   CONCURRENCY (second half of this file, Model/ThrottleConc.v): the aggregation goroutine runs concurrently
   with the two submission loops, and the limit check of one production attempt reads the shared watermarks at
   distinct instants.  [xhist] = histories that additionally contain  XProduceI q ne : a production attempt with
   whole submission iterations running INSIDE it, placed by the schedule q at any of: before the header
   watermark is read, between that read and numPendingData's read, between numPendingData's read and
   getPending's read, while the pending range is fetched, before each item numWaitingData's loop examines,
   and after the decision while the block is built.  The C08_*_interleaved / _concurrent / _stale_ theorems
   quantify over all such histories and all schedules.

   NOT in Coq: that blobs decode to the committed headers / data (C06, C12); timing of the loops' tickers;
   a submission iteration is still an atomic step (a production attempt running INSIDE a submission iteration,
   e.g. between two DA calls of submitToDA, is not modelled); restarts inside an attempt. *)
From Coq Require Import NArith List Bool.
From Verif Require Import Model.Throttle Proofs.ThrottleProofs Model.ThrottleConc Proofs.ThrottleConcProofs.
Import ListNotations.
Open Scope N_scope.

(* Throttling is justified.  Whenever a production attempt does not produce a block, it is the limit that
   refused it (the height is unchanged, L != 0) and at least L committed blocks are genuinely still waiting
   to be accepted by the DA layer. *)
Theorem C08_refusal_justified_full : forall (c : cfg) (hist : list item) (ne : bool), 1 <= c_init c ->
  let s := final c hist in
  t_height (produce c s ne) <> t_height s + 1 ->
  t_height (produce c s ne) = t_height s /\ c_limit c <> 0 /\ c_limit c <= num_waiting_blocks c s.
Proof. exact c08_refusal_justified. Qed.
Print Assumptions C08_refusal_justified_full.

(* Resumption, as soon as the DA layer has accepted them: at any moment at which fewer than L committed
   blocks wait for the DA layer, the next production attempt produces a block. *)
Theorem C08_resumes_when_accepted_full : forall (c : cfg) (hist : list item) (ne : bool), 1 <= c_init c ->
  let s := final c hist in
  num_waiting_blocks c s < c_limit c -> t_height (produce c s ne) = t_height s + 1.
Proof. exact c08_resumes_when_accepted. Qed.
Print Assumptions C08_resumes_when_accepted_full.

(* … and a DA layer that accepts does get them accepted: after ANY history, one header iteration and one data
   iteration (in either order) against a DA layer that accepts — at once or after an outage shorter than the
   30 attempts of an iteration — leave no committed block waiting, and the next attempt produces a block. *)
Theorem C08_resumes_full : forall (c : cfg) (hist : list item) (hfirst : bool) (sh sd : list outcome) (ne : bool),
  1 <= c_init c -> eventually_accepts sh -> eventually_accepts sd ->
  let s := final c (hist ++ sub_round hfirst sh sd) in
  num_waiting_blocks c s = 0 /\ t_height (produce c s ne) = t_height s + 1.
Proof. exact c08_resumes. Qed.
Print Assumptions C08_resumes_full.

(* No deadlock.  After any history (any outages, any restarts), with a DA layer that accepts, every round
   (both submission iterations, then one production attempt) produces a block, for every limit, every initial
   height and every mix of empty and non-empty blocks — in particular on an idle chain of empty blocks only. *)
Theorem C08_no_deadlock_full : forall (c : cfg) (hist : list item) (rs : list round), 1 <= c_init c ->
  Forall round_ok rs ->
  t_height (final c (hist ++ flat_map round_items rs)) = t_height (final c hist) + N.of_nat (length rs).
Proof. exact c08_no_deadlock. Qed.
Print Assumptions C08_no_deadlock_full.

(* It does throttle: with a limit L >= 1, every committed block whose header the DA layer has not accepted
   is among the L newest blocks — never more than L blocks are produced ahead of the DA layer. *)
Theorem C08_limit_enforced_full : forall (c : cfg) (hist : list item) (h : N), 1 <= c_init c -> c_limit c <> 0 ->
  let s := final c hist in
  c_init c <= h <= t_height s -> ~ In h (t_dah s) -> t_height s < h + c_limit c.
Proof. exact c08_limit_enforced. Qed.
Print Assumptions C08_limit_enforced_full.

(* The uint64 subtraction of numPending never wraps: both watermarks stay between initial height - 1 and the
   chain height (proved, not assumed). *)
Theorem C08_no_wrap_full : forall (c : cfg) (hist : list item), 1 <= c_init c ->
  let s := final c hist in
  c_init c - 1 <= t_wh s <= t_height s /\ c_init c - 1 <= t_wd s <= t_height s /\
  sub64 (t_height s) (t_wh s) = t_height s - t_wh s /\ sub64 (t_height s) (t_wd s) = t_height s - t_wd s.
Proof. exact c08_no_wrap. Qed.
Print Assumptions C08_no_wrap_full.

(* The run-length item of the case files (an idle stretch of n attempts without transactions) is nothing but
   n single attempts: the theorems above, which quantify over all histories, cover it. *)
Theorem C08_run_length_full : forall (c : cfg) (hist : list item) (n : N),
  final c (hist ++ [IProduceEmptyN n]) = final c (hist ++ repeat (IProduce false) (N.to_nat n)).
Proof. exact c08_run_length. Qed.
Print Assumptions C08_run_length_full.

(* ---- non-vacuity ------------------------------------------------------------------------------------------- *)
Definition acc1 : list outcome := [OAcceptAll].
Definition out3 : list outcome := [OFail; OFail; OFail; OAcceptAll].

Example accepts_at_once : eventually_accepts acc1.
Proof. exists 0%nat, []. split; [unfold max_attempts; repeat constructor | reflexivity]. Qed.
Example accepts_after_outage : eventually_accepts out3.
Proof. exists 3%nat, []. split; [unfold max_attempts; repeat constructor | reflexivity]. Qed.

(* a refusal does occur: L = 2, DA layer down (40 failures: the iteration gives up), third attempt refused,
   and exactly 2 blocks wait *)
Example refusal_happens :
  let c := mk_cfg 1 2 in
  let hist := [IProduce false; IProduce true; IHeaders (repeat OFail 40); IData (repeat OFail 40)] in
  let s := final c hist in
  refused c s = true /\ t_height (produce c s true) = t_height s /\ num_waiting_blocks c s = 2 /\ t_height s = 2.
Proof. vm_compute. repeat split. Qed.

(* the idle chain: initial height 5, L = 1, only empty blocks; 6 rounds produce 6 blocks (before the repair
   the second attempt was refused for ever) *)
Example idle_chain_goes_on :
  let c := mk_cfg 5 1 in
  let rs := repeat (mk_round true acc1 out3 false) 6 in
  let s := final c (flat_map round_items rs) in
  t_height s = 10 /\ t_nes s = [] /\ t_wd s = 9 /\ t_wh s = 9.
Proof. vm_compute. repeat split. Qed.
Example idle_rounds_ok : Forall round_ok (repeat (mk_round true acc1 out3 false) 6).
Proof. repeat constructor; try exact accepts_at_once; exact accepts_after_outage. Qed.

(* the repaired path is exercised: blocks E N E, all headers accepted, data not yet; the pending data range
   has L = 3 blocks but only one of them waits: not refused, and the data watermark stepped over block 1 *)
Example empty_blocks_do_not_count :
  let c := mk_cfg 1 3 in
  let s := final c [IProduce false; IProduce true; IProduce false; IHeaders acc1] in
  sub64 (t_height s) (t_wd s) = 3 /\ num_waiting_blocks c s = 1 /\ refused c s = false /\
  t_wd (produce c s false) = 1 /\ t_height (produce c s false) = 4.
Proof. vm_compute. repeat split. Qed.

(* a long idle stretch with a limit above it: 300 empty blocks at once (limit 1000), three blocks with
   transactions, one round: everything is on the DA layer (600 + 3 heights would be a size boundary for any
   per-round cap on the pending range; the code has none) *)
Example long_idle_stretch :
  let c := mk_cfg 1 1000 in
  let s := final c [IProduceEmptyN 300; IProduce true; IProduce true; IProduce true; IHeaders acc1; IData acc1] in
  t_height s = 303 /\ t_wh s = 303 /\ t_wd s = 303 /\ t_dad s = [301; 302; 303] /\ num_waiting_blocks c s = 0.
Proof. vm_compute. repeat split. Qed.

(* what the uint64 arithmetic would do if a watermark ever exceeded the height (excluded by C08_no_wrap_full) *)
Example sub64_wraps : sub64 3 5 = 18446744073709551614.
Proof. vm_compute. reflexivity. Qed.

(* ================================================================================================================ *)
(* Production attempts interleaved with the submission loops (Model/ThrottleConc.v)                                 *)
(* ================================================================================================================ *)

(* The interleaved model extends the atomic one: with nothing scheduled inside, an attempt is Throttle.produce,
   and a history of atomic items is run as before — so every theorem below specialises to the ones above. *)
Theorem C08_interleaved_sequential_full : forall (c : cfg) (s : state) (ne : bool),
  attempt_i c s no_sched ne = (produce c s ne, (refused c s, [])).
Proof. exact c08i_sequential. Qed.
Print Assumptions C08_interleaved_sequential_full.

Theorem C08_interleaved_atomic_histories_full : forall (c : cfg) (hist : list item),
  xfinal c (map XI hist) = final c hist.
Proof. exact c08i_atomic_histories. Qed.
Print Assumptions C08_interleaved_atomic_histories_full.

(* Throttling is justified, under any schedule: an attempt that does not produce a block leaves the height
   unchanged, L != 0, and at least L committed blocks were genuinely waiting for the DA layer when the attempt
   began (the count it acted on may be out of date by the time it returns, never invented). *)
Theorem C08_refusal_justified_interleaved_full : forall (c : cfg) (xhist : list xitem) (q : sched) (ne : bool),
  1 <= c_init c ->
  let s := xfinal c xhist in
  let s' := xfinal c (xhist ++ [XProduceI q ne]) in
  t_height s' <> t_height s + 1 ->
  t_height s' = t_height s /\ c_limit c <> 0 /\ c_limit c <= num_waiting_blocks c s.
Proof. exact c08i_refusal_justified. Qed.
Print Assumptions C08_refusal_justified_interleaved_full.

(* Resumption as soon as the DA layer has accepted them, under any schedule: if fewer than L committed blocks
   wait when an attempt begins — after ANY interleaved history, in particular right after an attempt that was
   refused on an out-of-date count — the attempt produces a block.  The decision is recomputed from the stored
   watermarks at every attempt; nothing of an earlier refusal is remembered. *)
Theorem C08_resumes_when_accepted_interleaved_full : forall (c : cfg) (xhist : list xitem) (q : sched) (ne : bool),
  1 <= c_init c ->
  let s := xfinal c xhist in
  num_waiting_blocks c s < c_limit c ->
  t_height (xfinal c (xhist ++ [XProduceI q ne])) = t_height s + 1.
Proof. exact c08i_resumes_when_accepted. Qed.
Print Assumptions C08_resumes_when_accepted_interleaved_full.

Theorem C08_resumes_interleaved_full : forall (c : cfg) (xhist : list xitem) (hfirst : bool) (sh sd : list outcome)
  (q : sched) (ne : bool),
  1 <= c_init c -> eventually_accepts sh -> eventually_accepts sd ->
  let s := xfinal c (xhist ++ map XI (sub_round hfirst sh sd)) in
  num_waiting_blocks c s = 0 /\
  t_height (xfinal c (xhist ++ map XI (sub_round hfirst sh sd) ++ [XProduceI q ne])) = t_height s + 1.
Proof. exact c08i_resumes. Qed.
Print Assumptions C08_resumes_interleaved_full.

(* A stale decision delays production by at most one attempt.  Two consecutive attempts under any schedules q1,
   q2, where a DA layer that accepts takes one header and one data iteration somewhere INSIDE the first: either
   the first produces a block, or nothing is left waiting after it and the second produces one. *)
Theorem C08_stale_refusal_one_attempt_full : forall (c : cfg) (xhist : list xitem) (q1 q2 : sched) (ne1 ne2 : bool),
  1 <= c_init c -> c_limit c <> 0 -> sched_accepts q1 ->
  let s0 := xfinal c xhist in
  let s1 := xfinal c (xhist ++ [XProduceI q1 ne1]) in
  let s2 := xfinal c (xhist ++ [XProduceI q1 ne1; XProduceI q2 ne2]) in
  t_height s1 = t_height s0 + 1 \/ (num_waiting_blocks c s1 = 0 /\ t_height s2 = t_height s1 + 1).
Proof. exact c08i_stale_refusal_one_attempt. Qed.
Print Assumptions C08_stale_refusal_one_attempt_full.

(* No deadlock with interleaved attempts: after any interleaved history, every round (both submission iterations
   against an accepting DA layer, then one attempt under ANY schedule) produces a block. *)
Theorem C08_no_deadlock_interleaved_full : forall (c : cfg) (rs : list xround) (xhist : list xitem), 1 <= c_init c ->
  Forall xround_ok rs ->
  t_height (xfinal c (xhist ++ flat_map xround_items rs)) = t_height (xfinal c xhist) + N.of_nat (length rs).
Proof. exact c08i_no_deadlock. Qed.
Print Assumptions C08_no_deadlock_interleaved_full.

(* No deadlock when the submission loops run ONLY inside the attempts: if every attempt has an accepting header
   and an accepting data iteration somewhere inside it, at least every second attempt produces a block. *)
Theorem C08_no_deadlock_concurrent_full : forall (c : cfg) (xhist : list xitem) (atts : list (sched * bool)),
  1 <= c_init c -> c_limit c <> 0 -> Forall (fun a => sched_accepts (fst a)) atts ->
  t_height (xfinal c xhist) + N.of_nat (Nat.div2 (length atts)) <=
  t_height (xfinal c (xhist ++ map (fun a => XProduceI (fst a) (snd a)) atts)).
Proof. exact c08i_no_deadlock_concurrent. Qed.
Print Assumptions C08_no_deadlock_concurrent_full.

Theorem C08_limit_enforced_interleaved_full : forall (c : cfg) (xhist : list xitem) (h : N), 1 <= c_init c ->
  c_limit c <> 0 ->
  let s := xfinal c xhist in
  c_init c <= h <= t_height s -> ~ In h (t_dah s) -> t_height s < h + c_limit c.
Proof. exact c08i_limit_enforced. Qed.
Print Assumptions C08_limit_enforced_interleaved_full.

Theorem C08_no_wrap_interleaved_full : forall (c : cfg) (xhist : list xitem), 1 <= c_init c ->
  let s := xfinal c xhist in
  c_init c - 1 <= t_wh s <= t_height s /\ c_init c - 1 <= t_wd s <= t_height s /\
  sub64 (t_height s) (t_wh s) = t_height s - t_wh s /\ sub64 (t_height s) (t_wd s) = t_height s - t_wd s.
Proof. exact c08i_no_wrap. Qed.
Print Assumptions C08_no_wrap_interleaved_full.

(* ---- non-vacuity ------------------------------------------------------------------------------------------- *)
(* the stale refusal exists: L = 3; block 1 empty, blocks 2..4 with transactions; all headers accepted, no data
   yet.  The next attempt counts 3 waiting data items; while it fetches them the data loop gets all three
   accepted.  The attempt is refused although nothing waits any more when it returns — and the following
   attempt (nothing scheduled inside) produces block 5. *)
Definition stale_hist : list xitem :=
  map XI [IProduce false; IProduce true; IProduce true; IHeaders acc1; IProduce true; IHeaders acc1].
Definition stale_q : sched := mk_sched [] [] [] [SData acc1] [] [].
Example stale_refusal_happens :
  let c := mk_cfg 1 3 in
  let s0 := xfinal c stale_hist in
  let s1 := xfinal c (stale_hist ++ [XProduceI stale_q true]) in
  let s2 := xfinal c (stale_hist ++ [XProduceI stale_q true; XProduceI no_sched true]) in
  num_waiting_blocks c s0 = 3 /\ attempt_refused c s0 stale_q true = true /\ t_height s1 = 4 /\
  num_waiting_blocks c s1 = 0 /\ t_wd s1 = 4 /\ t_height s2 = 5.
Proof. vm_compute. repeat split. Qed.

(* the same iteration one read earlier (before numPendingData's load) is seen by the attempt: not refused *)
Example early_enough_is_seen :
  let c := mk_cfg 1 3 in
  t_height (xfinal c (stale_hist ++ [XProduceI (mk_sched [] [SData acc1] [] [] [] []) true])) = 5.
Proof. vm_compute. reflexivity. Qed.

(* the watermark step of numWaitingData meets the data loop: L = 3; blocks 1,2 empty, 3 with transactions, all
   three headers accepted, then block 4 empty.  numWaitingData is called (4 data items pending); it steps over
   block 1; before it examines block 2 the data loop gets block 3 accepted and moves the watermark to 3: the
   later step "to 2" must not move it back. *)
Example mark_meets_data_loop :
  let c := mk_cfg 1 3 in
  let h := map XI [IProduce false; IProduce false; IProduce true; IHeaders acc1; IProduce false] in
  let s := xfinal c (h ++ [XProduceI (mk_sched [] [] [] [] [[]; [SData acc1]] []) false]) in
  t_wd s = 3 /\ t_pd s = 3 /\ t_height s = 5 /\ t_dad s = [3].
Proof. vm_compute. repeat split. Qed.

Example stale_q_accepts : sched_accepts (mk_sched [SHeaders acc1] [] [] [SData out3] [] []).
Proof.
  split; [exists acc1 | exists out3]; (split; [cbn; tauto|]); [exact accepts_at_once | exact accepts_after_outage].
Qed.

(* REFINEMENT FROM TRANSLATED CODE.  The refusal test of [limit_check] is the test Manager.publishBlockInternal
   makes — the Go function itself, translated from /repo's source on every run and evaluated by Model/GoLite.v
   (Check/GoLitePublish.v): for ALL limits, watermarks and backlogs the two agree, and a refused attempt returns nil
   having called NOTHING — not the store, not the sequencing layer, not the executor. *)
From Verif Require Proofs.GoLitePublishRefine.
Theorem C08_refusal_test_is_the_codes_full : forall (c : cfg) (s : state),
  fst (limit_check c s) =
  GoLitePublishRefine.refused4 (c_limit c) (sub64 (t_height s) (t_wh s)) (sub64 (t_height s) (t_wd s)) (fst (num_waiting s)).
Proof. exact GoLitePublishRefine.refused_is_limit_check. Qed.
Print Assumptions C08_refusal_test_is_the_codes_full.

Theorem C08_translated_refusal_calls_nothing_full : forall w,
  Check.GoLitePublish.wf w -> Check.GoLitePublish.w_cancel w = false -> Check.GoLitePublish.refused w = true ->
  exists o, Check.GoLitePublish.run_publish w = Some o /\ Check.GoLitePublish.o_calls o = [] /\
            GoLitePublishRefine.nil_result o = true.
Proof. exact GoLitePublishRefine.translated_publish_refused. Qed.
Print Assumptions C08_translated_refusal_calls_nothing_full.

(* ================================================================================================================ *)
(* One tick of a submission loop (Model/ThrottleTick.v)                                                             *)
(* ================================================================================================================ *)
(* Production is refused on the distance between the height and the two watermarks; the watermarks move in the
   submission loops only.  What keeps the limit from being a deadlock is therefore what ONE TICK of
   HeaderSubmissionLoop / DataSubmissionLoop does when it finds something pending.  The tick of the model
   (Throttle.headers_iter / data_iter) is a function of the state and of the DA layer's answers and of nothing
   else: not of config.Node.LazyMode, not of the limit, not of the number of pending items, not of whether the
   pending blocks are empty, not of the size of any blob — the theorems below hold for all of them because the
   tick cannot see them.  The harness drives the real HeaderSubmissionLoop / DataSubmissionLoop for one tick
   (lazy and normal mode, limits 1..10, blobs from 1 KB to 1.9 MB) and compares requests and watermarks with this
   tick on every run. *)
From Verif Require Import Model.ThrottleTick Proofs.ThrottleTickProofs.

(* After any interleaved history, whatever the DA layer answers: the DA requests of a tick form a chain over what
   is pending — the first carries ALL pending items (headers: the heights above the header watermark; data: those
   above the data watermark whose block has transactions), every later one carries all items the DA layer has not
   taken yet; no request is empty, no request holds an item back. *)
Theorem C08_tick_offers_everything_full : forall (c : cfg) (xhist : list xitem) (sc : list outcome), 1 <= c_init c ->
  let s := xfinal c xhist in
  chain (pending_headers s) (headers_calls s sc) /\ chain (pending_data s) (data_calls s sc).
Proof. exact c08_tick_offers_everything. Qed.
Print Assumptions C08_tick_offers_everything_full.

Theorem C08_tick_requests_full : forall (c : cfg) (xhist : list xitem) (sc : list outcome), 1 <= c_init c ->
  let s := xfinal c xhist in
  Forall (fun call => call <> [] /\ exists k, call = skipn k (pending_headers s)) (headers_calls s sc) /\
  Forall (fun call => call <> [] /\ exists k, call = skipn k (pending_data s)) (data_calls s sc).
Proof. exact c08_tick_requests. Qed.
Print Assumptions C08_tick_requests_full.

(* Something pending and a DA layer that takes something => the watermark moves, in that very tick: after any
   interleaved history, if a header (a block with transactions) is pending and the first answer of the DA layer
   takes at least one blob, the header (data) watermark is strictly higher after the tick; if it takes all, the
   header watermark is the chain height (every pending block with transactions is on the DA layer). *)
Theorem C08_tick_progress_full : forall (c : cfg) (xhist : list xitem) (o : outcome) (sc : list outcome),
  1 <= c_init c -> accepts_some o = true ->
  let s := xfinal c xhist in
  (pending_headers s <> [] ->
     let s' := fst (headers_iter s (o :: sc)) in
     t_wh s < t_wh s' /\ (o = OAcceptAll -> t_wh s' = t_height s)) /\
  (pending_data s <> [] ->
     let s' := fst (data_iter s (o :: sc)) in
     t_wd s < t_wd s' /\ (o = OAcceptAll -> forall h, In h (pending_data s) -> In h (t_dad s'))).
Proof. exact c08_tick_progress. Qed.
Print Assumptions C08_tick_progress_full.

(* non-vacuity: the idle chain below a small limit.  L = 3, three empty blocks: production is refused (3 headers
   pending); ONE header tick against an accepting DA layer carries all three headers in its only request and
   production goes on.  (A tick that waited for more headers here would wait for ever: no block can be produced.) *)
Example idle_tick_submits_below_any_batch_size :
  let c := mk_cfg 1 3 in
  let s := xfinal c (map XI [IProduce false; IProduce false; IProduce false]) in
  refused c s = true /\ pending_headers s = [1; 2; 3] /\ headers_calls s acc1 = [[1; 2; 3]] /\
  refused c (fst (headers_iter s acc1)) = false.
Proof. vm_compute. repeat split. Qed.

(* requests after a partial acceptance: 4 blocks with transactions pending, the DA layer takes 1, fails, takes all *)
Example tick_chain_example :
  let c := mk_cfg 1 10 in
  let s := xfinal c (map XI [IProduce false; IProduce true; IProduce true; IProduce true; IProduce true]) in
  pending_data s = [2; 3; 4; 5] /\
  data_calls s [OAccept 1; OFail; OAcceptAll] = [[2; 3; 4; 5]; [3; 4; 5]; [3; 4; 5]] /\
  t_wd (fst (data_iter s [OAccept 1])) = 2.
Proof. vm_compute. repeat split. Qed.

(* ================================================================================================================ *)
(* The two submission loops as long-lived processes of the node (Model/ThrottleLoop.v)                              *)
(* ================================================================================================================ *)
(* Every theorem above quantifies over histories in which an item IHeaders sc / IData sc IS an iteration of a
   submission loop.  In the node the iteration happens only if the loop goroutine is there: node/full.go spawns
   HeaderSubmissionLoop and DataSubmissionLoop once per process, and the only `return` of either loop function is
   the one behind <-ctx.Done() of the node's own context.  Model/ThrottleLoop.v makes "the goroutine is there" a
   part of the state ([node]: the state + one flag per loop; a tick nobody serves does nothing; after an iteration
   the loop goes round again iff [loop_goes_on] of what the iteration did; restart = both loops return, the new
   process spawns both).  [nrun c xhist] runs an interleaved history on that node and reports, per item, whether
   each goroutine is there after it.  The DA layer's answers are as before; the end of a script is the DA layer
   answering "context canceled" (coreda.ErrContextCanceled — an ANSWER, e.g. of a DA node that is restarting; the
   node's own context is alive), which ends that iteration with nil.
   The harness runs a share of its cases (and a DA-outage stream) with the two REAL goroutines serving every tick
   of the history — started once per process, parked between ticks — and Check/ThrottleCheck.v compares their being
   there (tc_live) with [nrun] per item. *)
From Verif Require Import Model.ThrottleLoop Proofs.ThrottleLoopProofs.

(* Whatever happened — DA outages of any length and kind, iterations that gave up after 30 attempts, iterations
   the DA layer answered with "context canceled", restarts, attempts interleaved under any schedule —, both loop
   goroutines are there after every item of every history. *)
Theorem C08_loops_never_return_full : forall (c : cfg) (xhist : list xitem),
  Forall (fun o : nobs => snd o = (true, true)) (snd (nrun c xhist)) /\
  n_hl (nfinal c xhist) = true /\ n_dl (nfinal c xhist) = true.
Proof. exact c08l_loops_never_return. Qed.
Print Assumptions C08_loops_never_return_full.

(* … hence every tick of every history is served: the node with its long-lived loops runs exactly as
   Model/ThrottleConc.v says (same final state, same observations), and all theorems above are theorems about it. *)
Theorem C08_loop_processes_refine_full : forall (c : cfg) (xhist : list xitem),
  n_s (nfinal c xhist) = xfinal c xhist /\ map fst (snd (nrun c xhist)) = snd (xrun c xhist).
Proof. exact c08l_refines. Qed.
Print Assumptions C08_loop_processes_refine_full.

(* A tick request after any history is served, and it is the iteration of Model/Throttle.v. *)
Theorem C08_tick_is_served_full : forall (c : cfg) (xhist : list xitem) (u : sub),
  nsub_step (nfinal c xhist) u = (let '(s', o) := sub_step (xfinal c xhist) u in (mk_node s' true true, o)).
Proof. exact c08l_tick_served. Qed.
Print Assumptions C08_tick_is_served_full.

(* No deadlock, on the node: after any interleaved history, every round (each loop gets a tick against a DA layer
   that accepts — at once or after fewer than 30 failures —, then one production attempt under any schedule)
   produces a block. *)
Theorem C08_no_deadlock_loop_processes_full : forall (c : cfg) (rs : list xround) (xhist : list xitem), 1 <= c_init c ->
  Forall xround_ok rs ->
  t_height (n_s (nfinal c (xhist ++ flat_map xround_items rs))) = t_height (n_s (nfinal c xhist)) + N.of_nat (length rs).
Proof. exact c08l_no_deadlock. Qed.
Print Assumptions C08_no_deadlock_loop_processes_full.

(* THE CODE SIDE of loop_goes_on.  One iteration of Manager.HeaderSubmissionLoop / Manager.DataSubmissionLoop,
   translated from /repo's source on every run and evaluated by Model/GoLite.v (Check/GoLiteSubmitTick.v), in ALL
   worlds (nothing pending, failing fetch, empty / non-empty list, submit…ToDA returning nil or an error): with the
   node's context alive it ends in `continue` — the for loop goes round again —, and the loop function returns
   only when the node's context is cancelled, having called nothing. *)
From Verif Require Check.GoLiteSubmitTick Proofs.ThrottleLoopCodeProofs.
Theorem C08_translated_loops_return_on_shutdown_only_full : forall w name,
  name = ThrottleLoopCodeProofs.header_loop \/ name = ThrottleLoopCodeProofs.data_loop ->
  (GoLiteSubmitTick.t_cancel w = true -> GoLiteSubmitTick.run_tick name w = Some ([], [])) /\
  (GoLiteSubmitTick.t_cancel w = false -> exists calls, GoLiteSubmitTick.run_tick name w = Some (GoLiteSubmitTick.go_on, calls)).
Proof. exact ThrottleLoopCodeProofs.translated_loops_return_on_shutdown_only. Qed.
Print Assumptions C08_translated_loops_return_on_shutdown_only_full.

(* non-vacuity: L = 2, two blocks committed, the DA layer is down: the header tick is answered failure, failure,
   "context canceled", the data tick "context canceled" at once; production is refused (rightly: 2 blocks wait),
   both goroutines are there; the outage ends, each loop gets its tick, production goes on. *)
Example cancelled_answers_do_not_end_the_loops :
  let c := mk_cfg 1 2 in
  let h := map XI [IProduce false; IProduce true; IHeaders [OFail; OFail]; IData []; IProduce true] in
  let n := nfinal c h in
  t_height (n_s n) = 2 /\ refused c (n_s n) = true /\ num_waiting_blocks c (n_s n) = 2 /\
  map snd (snd (nrun c h)) = repeat (true, true) 5 /\
  let n' := nfinal c (h ++ map XI [IHeaders acc1; IData acc1; IProduce true]) in
  t_height (n_s n') = 3 /\ num_waiting_blocks c (n_s n') = 1.
Proof. vm_compute. repeat split. Qed.

(* a tick nobody serves does nothing — what the theorems above exclude: with the header goroutine gone the header
   watermark stays, and production stays refused although the DA layer accepts *)
Example unserved_ticks_would_deadlock :
  let c := mk_cfg 1 2 in
  let s := xfinal c (map XI [IProduce false; IProduce true]) in
  let n := mk_node s false true in
  let n1 := fst (nstep c (fst (nstep c n (XI (IHeaders acc1)))) (XI (IData acc1))) in
  snd (nsub_step n (SHeaders acc1)) = not_served /\ t_wh (n_s n1) = 0 /\ refused c (n_s n1) = true.
Proof. vm_compute. repeat split. Qed.

(* ---- THE LIMIT INSIDE THE LAZY AGGREGATION LOOP (Model/ThrottleLazy.v) ------------------------------------------
   The theorems above are about production ATTEMPTS; in lazy mode it is the aggregation loop that decides when an
   attempt is made: lazyTimer (one-shot, re-armed only by produceBlock) and blockTimer (produces only when
   transactions were announced).  The node of Model/ThrottleLazy.v is the lazy loop on its two timers, in virtual
   time, with publishBlockInternal = Throttle.produce behind it and the submission iterations / transaction
   announcements as events at instants of the environment's choosing.  [lreach c s]: s is reachable under ANY such
   environment (any outages, any number of refused attempts, any instants).  Times in ms; l_bt / l_li = block time /
   lazy interval.  Tied to the real Manager.AggregationLoop on every run (lazy-loop stream, Check/ThrottleLazyCheck.v:
   every call the loop makes of publishBlock — instant, produced or refused, height — is compared). *)
From Verif Require Import Model.ThrottleLazy Proofs.ThrottleLazyProofs.

(* the store / watermarks / DA layer of the node are those of a history of Model/Throttle.v: every theorem about
   [final c hist] above holds of the node with its lazy loop *)
Theorem C08_lazy_node_states_are_histories_full : forall c s, lreach c s -> exists hist, l_s s = final (l_c c) hist.
Proof. exact lreach_hist. Qed.
Print Assumptions C08_lazy_node_states_are_histories_full.

(* the lazy timer is armed in every reachable state, no further ahead than one lazy interval (one block time before
   the first block) after the last thing that happened: there is always a next call of publishBlock *)
Theorem C08_lazy_timer_always_armed_full : forall c s, lreach c s ->
  l_now s <= l_lz s /\ l_lz s <= l_now s + N.max (l_li c) (l_bt c).
Proof. exact lreach_armed. Qed.
Print Assumptions C08_lazy_timer_always_armed_full.

(* … and the next call of publishBlock lies between now and that timer *)
Theorem C08_lazy_next_attempt_bounded_full : forall c s, 0 < l_bt c -> lreach c s ->
  l_now s <= next_attempt c s /\ next_attempt c s <= l_lz s.
Proof. exact lreach_next_attempt. Qed.
Print Assumptions C08_lazy_next_attempt_bounded_full.

(* every attempt — produced or REFUSED — re-arms both timers, counted from the attempt *)
Theorem C08_lazy_every_attempt_rearms_full : forall c s,
  l_now (attempt c s) = next_attempt c s /\
  l_lz (attempt c s) = next_attempt c s + l_li c /\ l_bk (attempt c s) = next_attempt c s + l_bt c.
Proof. exact attempt_rearms. Qed.
Print Assumptions C08_lazy_every_attempt_rearms_full.

(* with nothing else happening, the node's next step IS that attempt, once the horizon reaches its instant *)
Theorem C08_lazy_quiet_node_attempts_full : forall f c s H, next_attempt c s <= H ->
  lrun (S f) c s [] H = lrun f c (attempt c s) [] H.
Proof. exact lrun_quiet_attempts. Qed.
Print Assumptions C08_lazy_quiet_node_attempts_full.

(* No deadlock in lazy mode.  In any reachable state in which fewer than L committed blocks wait for the DA layer
   (or no limit is set), the loop's next call of publishBlock comes by itself — no transaction needed — no later than
   the armed lazy timer, and it produces a block. *)
Theorem C08_lazy_resumes_full : forall c s, 1 <= c_init (l_c c) -> lreach c s ->
  num_waiting_blocks (l_c c) (l_s s) < c_limit (l_c c) \/ c_limit (l_c c) = 0 ->
  next_attempt c s <= l_lz s /\ l_lz s <= l_now s + N.max (l_li c) (l_bt c) /\
  t_height (l_s (attempt c s)) = t_height (l_s s) + 1 /\
  l_atts (attempt c s) = (next_attempt c s, (true, t_height (l_s s) + 1)) :: l_atts s.
Proof. exact c08_lazy_resumes. Qed.
Print Assumptions C08_lazy_resumes_full.

(* … and a DA layer that is back gets the node there: after ANY reachable state (an outage of any length, any number
   of refused attempts, on an idle chain or not), one header and one data iteration against an accepting DA layer, in
   either order, at any instants before the next attempt, leave nothing waiting and the lazy timer where it was; the
   attempt it triggers produces the next block. *)
Theorem C08_lazy_resumes_after_outage_full : forall c s (hfirst : bool) sh sd t1 t2, 1 <= c_init (l_c c) -> lreach c s ->
  eventually_accepts sh -> eventually_accepts sd ->
  let e1 := if hfirst then LHeaders sh else LData sd in
  let e2 := if hfirst then LData sd else LHeaders sh in
  let s1 := fst (event c s t1 e1) in
  let s2 := fst (event c s1 t2 e2) in
  l_now s <= t1 -> t1 < next_attempt c s -> t1 <= t2 -> t2 < next_attempt c s1 ->
  lreach c s2 /\ num_waiting_blocks (l_c c) (l_s s2) = 0 /\ l_lz s2 = l_lz s /\
  next_attempt c s2 <= l_lz s /\ l_lz s <= l_now s + N.max (l_li c) (l_bt c) /\
  t_height (l_s (attempt c s2)) = t_height (l_s s) + 1 /\
  l_atts (attempt c s2) = (next_attempt c s2, (true, t_height (l_s s) + 1)) :: l_atts s.
Proof. exact c08_lazy_resumes_after_outage. Qed.
Print Assumptions C08_lazy_resumes_after_outage_full.

(* non-vacuity: idle lazy chain, L = 2, block time 1 s, lazy interval 2.5 s, the DA layer down: blocks at 1 s and
   3.5 s, refusals at 6 s, 8.5 s, 11 s (each re-arms the lazy timer); the DA layer is back at 12.25 s; the loop
   produces by itself at 13.5 s and 16 s, and is refused again at 18.5 s (two blocks wait again) *)
Example lazy_idle_chain_lives_through_an_outage :
  let c := mk_lcfg (mk_cfg 1 2) 1000 2500 in
  match lrun 40 c (linit c) [(12250, LHeaders acc1); (12250, LData acc1)] 19000 with
  | Some (s, _) => rev (l_atts s) = [(1000, (true, 1)); (3500, (true, 2)); (6000, (false, 2)); (8500, (false, 2));
                                     (11000, (false, 2)); (13500, (true, 3)); (16000, (true, 4)); (18500, (false, 4))]
                   /\ l_lz s = 21000
  | None => False
  end.
Proof. vm_compute. split; reflexivity. Qed.
