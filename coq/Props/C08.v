(* Props/C08.v — the pending-submission limit throttles but never deadlocks block production.
   Statements only; every proof is [exact <lemma of Proofs/ThrottleProofs.v>].

   The model (Model/Throttle.v) is the REPAIRED code: publishBlockInternal refuses when
       L != 0 && (numPendingHeaders >= L || (numPendingData >= L && numWaitingData >= L))
   where numWaitingData (block/pending_data.go, added by fixes/C08-empty-data-counted-as-pending.diff) counts the
   pending data items that carry transactions and steps the data watermark over leading empty ones.  Before the
   repair the second test was numPendingData >= L alone: the data watermark only moves when a non-empty data
   blob is accepted, so L consecutive empty blocks stopped production for ever (findings/C08-*.json).

   Quantification: [c] = any initial height >= 1 and any limit L (L = 0 switches the limit off); [hist] = any
   history over  IProduce ne  (a production attempt; the sequencer hands out a batch with / without
   transactions — so any mix of empty and non-empty blocks, including all-empty),  IHeaders sc / IData sc
   (one iteration of the header / data submission loop whose DA calls are answered by sc: accept k, accept
   all, failure; the end of sc cancels the context — so DA outages of any finite length, also longer than the
   30 attempts of one iteration),  IRestart  (NewManager on the same datastore).
   [final c hist] is the state after hist, started from an empty datastore.

   waits s h : the committed block h still waits for the DA layer = its header has not been accepted, or its
   data carries transactions and has not been accepted.  num_waiting_blocks counts them among the committed
   heights.  The DA layer answers truthfully (lost acknowledgements are C06's subject).

   NOT in Coq: that blobs decode to the committed headers / data (C06, C12); timing of the loops' tickers
   (an iteration is an atomic step here; the real loops run concurrently with production — the watermarks are
   atomics and each is written by one loop only, plus the production step for the data watermark via
   numWaitingData; that interleaving is not modelled). *)
From Coq Require Import NArith List Bool.
From Verif Require Import Model.Throttle Proofs.ThrottleProofs.
Import ListNotations.
Open Scope N_scope.

(* Throttling is justified.  Whenever a production attempt does not produce a block, it is the limit that
   refused it (the height is unchanged, L != 0) and at least L committed blocks are genuinely still waiting
   to be accepted by the DA layer. *)
Theorem C08_refusal_justified_full : forall (c : cfg) (hist : list item) (ne : bool), 1 <= c_init c ->
  let s := final c hist in
  t_height (produce c s ne) <> t_height s + 1 ->
  t_height (produce c s ne) = t_height s /\ c_limit c <> 0 /\ c_limit c <= num_waiting_blocks c s.
Proof. exact c08_refusal_justified. Qed.
Print Assumptions C08_refusal_justified_full.

(* Resumption, as soon as the DA layer has accepted them: at any moment at which fewer than L committed
   blocks wait for the DA layer, the next production attempt produces a block. *)
Theorem C08_resumes_when_accepted_full : forall (c : cfg) (hist : list item) (ne : bool), 1 <= c_init c ->
  let s := final c hist in
  num_waiting_blocks c s < c_limit c -> t_height (produce c s ne) = t_height s + 1.
Proof. exact c08_resumes_when_accepted. Qed.
Print Assumptions C08_resumes_when_accepted_full.

(* … and a DA layer that accepts does get them accepted: after ANY history, one header iteration and one data
   iteration (in either order) against a DA layer that accepts — at once or after an outage shorter than the
   30 attempts of an iteration — leave no committed block waiting, and the next attempt produces a block. *)
Theorem C08_resumes_full : forall (c : cfg) (hist : list item) (hfirst : bool) (sh sd : list outcome) (ne : bool),
  1 <= c_init c -> eventually_accepts sh -> eventually_accepts sd ->
  let s := final c (hist ++ sub_round hfirst sh sd) in
  num_waiting_blocks c s = 0 /\ t_height (produce c s ne) = t_height s + 1.
Proof. exact c08_resumes. Qed.
Print Assumptions C08_resumes_full.

(* No deadlock.  After any history (any outages, any restarts), with a DA layer that accepts, every round
   (both submission iterations, then one production attempt) produces a block, for every limit, every initial
   height and every mix of empty and non-empty blocks — in particular on an idle chain of empty blocks only. *)
Theorem C08_no_deadlock_full : forall (c : cfg) (hist : list item) (rs : list round), 1 <= c_init c ->
  Forall round_ok rs ->
  t_height (final c (hist ++ flat_map round_items rs)) = t_height (final c hist) + N.of_nat (length rs).
Proof. exact c08_no_deadlock. Qed.
Print Assumptions C08_no_deadlock_full.

(* It does throttle: with a limit L >= 1, every committed block whose header the DA layer has not accepted
   is among the L newest blocks — never more than L blocks are produced ahead of the DA layer. *)
Theorem C08_limit_enforced_full : forall (c : cfg) (hist : list item) (h : N), 1 <= c_init c -> c_limit c <> 0 ->
  let s := final c hist in
  c_init c <= h <= t_height s -> ~ In h (t_dah s) -> t_height s < h + c_limit c.
Proof. exact c08_limit_enforced. Qed.
Print Assumptions C08_limit_enforced_full.

(* The uint64 subtraction of numPending never wraps: both watermarks stay between initial height - 1 and the
   chain height (proved, not assumed). *)
Theorem C08_no_wrap_full : forall (c : cfg) (hist : list item), 1 <= c_init c ->
  let s := final c hist in
  c_init c - 1 <= t_wh s <= t_height s /\ c_init c - 1 <= t_wd s <= t_height s /\
  sub64 (t_height s) (t_wh s) = t_height s - t_wh s /\ sub64 (t_height s) (t_wd s) = t_height s - t_wd s.
Proof. exact c08_no_wrap. Qed.
Print Assumptions C08_no_wrap_full.

(* The run-length item of the case files (an idle stretch of n attempts without transactions) is nothing but
   n single attempts: the theorems above, which quantify over all histories, cover it. *)
Theorem C08_run_length_full : forall (c : cfg) (hist : list item) (n : N),
  final c (hist ++ [IProduceEmptyN n]) = final c (hist ++ repeat (IProduce false) (N.to_nat n)).
Proof. exact c08_run_length. Qed.
Print Assumptions C08_run_length_full.

(* ---- non-vacuity ------------------------------------------------------------------------------------------- *)
Definition acc1 : list outcome := [OAcceptAll].
Definition out3 : list outcome := [OFail; OFail; OFail; OAcceptAll].

Example accepts_at_once : eventually_accepts acc1.
Proof. exists 0%nat, []. split; [unfold max_attempts; repeat constructor | reflexivity]. Qed.
Example accepts_after_outage : eventually_accepts out3.
Proof. exists 3%nat, []. split; [unfold max_attempts; repeat constructor | reflexivity]. Qed.

(* a refusal does occur: L = 2, DA layer down (40 failures: the iteration gives up), third attempt refused,
   and exactly 2 blocks wait *)
Example refusal_happens :
  let c := mk_cfg 1 2 in
  let hist := [IProduce false; IProduce true; IHeaders (repeat OFail 40); IData (repeat OFail 40)] in
  let s := final c hist in
  refused c s = true /\ t_height (produce c s true) = t_height s /\ num_waiting_blocks c s = 2 /\ t_height s = 2.
Proof. vm_compute. repeat split. Qed.

(* the idle chain: initial height 5, L = 1, only empty blocks; 6 rounds produce 6 blocks (before the repair
   the second attempt was refused for ever) *)
Example idle_chain_goes_on :
  let c := mk_cfg 5 1 in
  let rs := repeat (mk_round true acc1 out3 false) 6 in
  let s := final c (flat_map round_items rs) in
  t_height s = 10 /\ t_nes s = [] /\ t_wd s = 9 /\ t_wh s = 9.
Proof. vm_compute. repeat split. Qed.
Example idle_rounds_ok : Forall round_ok (repeat (mk_round true acc1 out3 false) 6).
Proof. repeat constructor; try exact accepts_at_once; exact accepts_after_outage. Qed.

(* the repaired path is exercised: blocks E N E, all headers accepted, data not yet; the pending data range
   has L = 3 blocks but only one of them waits: not refused, and the data watermark stepped over block 1 *)
Example empty_blocks_do_not_count :
  let c := mk_cfg 1 3 in
  let s := final c [IProduce false; IProduce true; IProduce false; IHeaders acc1] in
  sub64 (t_height s) (t_wd s) = 3 /\ num_waiting_blocks c s = 1 /\ refused c s = false /\
  t_wd (produce c s false) = 1 /\ t_height (produce c s false) = 4.
Proof. vm_compute. repeat split. Qed.

(* a long idle stretch with a limit above it: 300 empty blocks at once (limit 1000), three blocks with
   transactions, one round: everything is on the DA layer (600 + 3 heights would be a size boundary for any
   per-round cap on the pending range; the code has none) *)
Example long_idle_stretch :
  let c := mk_cfg 1 1000 in
  let s := final c [IProduceEmptyN 300; IProduce true; IProduce true; IProduce true; IHeaders acc1; IData acc1] in
  t_height s = 303 /\ t_wh s = 303 /\ t_wd s = 303 /\ t_dad s = [301; 302; 303] /\ num_waiting_blocks c s = 0.
Proof. vm_compute. repeat split. Qed.

(* what the uint64 arithmetic would do if a watermark ever exceeded the height (excluded by C08_no_wrap_full) *)
Example sub64_wraps : sub64 3 5 = 18446744073709551614.
Proof. vm_compute. reflexivity. Qed.
