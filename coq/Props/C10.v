(* Props/C10.v — the single sequencer's batch queue is a durable FIFO with exactly-once delivery.
   Statements only; every proof is [exact <lemma of Proofs/QueueProofs.v>].

   Histories: lists over  IOp (OSubmit chain_id_ok batch) | IOp (ONext chain_id_ok) | IRestart |
   ICrash op n  (the process dies inside op after n of its datastore writes became durable, then restarts);
   a submitted batch is SNil | SEmpty | SB key contents, where key is the datastore key the code computes
   (hex SHA-256 of the contents).  [fifo_refines max h]: every result of the model of the code equals the
   result of a plain FIFO (enqueue at the back when accepted, dequeue at the front, restarts and crashes
   change nothing except that a crashed operation whose write survived counts as done), the in-memory
   queue is exactly the pending batches in acceptance order, and the datastore holds exactly the pending
   batches. *)
From Coq Require Import NArith List Bool.
From Verif Require Import Model.Queue Proofs.QueueProofs.
Import ListNotations.
Open Scope N_scope.

(* What the specification means: in every run of the FIFO specification, over all histories, the sequence
   of batches accepted equals the sequence handed out followed by what is still pending — every accepted
   batch is handed out at most once, in acceptance order, nothing else is handed out, nothing is dropped.
   (A statement about the specification, not about the code.) *)
Theorem C10_spec_is_exactly_once_fifo : forall max h,
  a_accepted max [] h = a_delivered max [] h ++ map snd (a_final max h).
Proof. exact spec_exactly_once0. Qed.
Print Assumptions C10_spec_is_exactly_once_fifo.

(* The property as worded — for all content-hash keyed histories the code refines the FIFO — is FALSE of
   the faithful model.  Two independent kernel-checked witnesses (the harness reproduces both on the real
   code): (a) two accepted batches with equal contents share one datastore record, so after the first is
   handed out a restart loses the second; (b) a restart reloads the pending batches in key (= hash) order,
   not in acceptance order. *)
Theorem C10_fifo_equal_batches_refuted :
  ~ (forall max tbl h, hash_keyedb tbl h = true -> fifo_refines max h).
Proof. exact fifo_full_refuted_by_equal_batches. Qed.
Print Assumptions C10_fifo_equal_batches_refuted.

Theorem C10_fifo_reload_order_refuted :
  ~ (forall max tbl h, hash_keyedb tbl h = true -> fifo_refines max h).
Proof. exact fifo_full_refuted_by_reload_order. Qed.
Print Assumptions C10_fifo_reload_order_refuted.

(* What does hold, for ALL histories (any bound, any interleaving of submit / next / restart / crash inside
   an operation, foreign chain ids, empty submissions) that satisfy the decidable guard [fifo_guard]:
   (1) no submission is accepted while a batch with the same key (= equal contents) is pending, and
   (2) whenever the process restarts or crashes, the keys of the pending batches are strictly increasing in
       acceptance order (always true with at most one pending batch).
   MISSING: every history with two equal pending batches, and every restart with two or more pending batches
   whose hashes are not in acceptance order (for random contents: about half of the restarts with two
   pending batches, 5/6 with three, ...). *)
Theorem C10_fifo_partial : forall max h,
  fifo_guard max [] h = true -> fifo_refines max h.
Proof. exact fifo_partial. Qed.
Print Assumptions C10_fifo_partial.

(* The same model is a durable exactly-once FIFO on every history whose keys grow with every submission —
   the shape a repaired key scheme must have (e.g. a persisted sequence number in front of the hash).
   For the code as it is this covers only histories whose hashes happen to be increasing. *)
Theorem C10_fifo_monotone_keys_partial : forall max h,
  monotone_keys h = true -> fifo_refines max h.
Proof. exact fifo_monotone_keys. Qed.
Print Assumptions C10_fifo_monotone_keys_partial.

(* The queue bound is respected — for all histories, no guard: neither the in-memory queue nor the set of
   durable records (what a restart reloads) ever exceeds a positive bound. *)
Theorem C10_bound_full : forall max h,
  0 < max ->
  N.of_nat (length (mem (final max h))) <= max /\ N.of_nat (length (db (final max h))) <= max.
Proof. exact bound_both. Qed.
Print Assumptions C10_bound_full.

(* A submission (or request) rejected because the chain id is foreign or the queue is full leaves no
   trace: state unchanged, no datastore write — in every state, no guard. *)
Theorem C10_rejected_no_trace_full : forall max st o r,
  snd (step max st (IOp o)) = Some r -> (r = RInvalidId \/ r = RFull) ->
  fst (step max st (IOp o)) = st /\ snd (step_mem max (mem st) o) = [].
Proof. exact rejected_no_trace. Qed.
Print Assumptions C10_rejected_no_trace_full.

(* ... and so does an empty submission (nil batch or zero transactions) *)
Theorem C10_empty_submission_no_trace_full : forall max st ok s, s = SNil \/ s = SEmpty ->
  fst (step max st (IOp (OSubmit ok s))) = st /\ snd (step_mem max (mem st) (OSubmit ok s)) = [].
Proof. exact empty_submission_no_trace. Qed.
Print Assumptions C10_empty_submission_no_trace_full.

(* ---- non-vacuity ------------------------------------------------------------------------------------ *)
(* contents 1,2,3 with keys 30,10,20 (hash order differs from id order) *)
Definition B1 := SB 30 1.
Definition B2 := SB 10 2.
Definition B3 := SB 20 3.
Definition ex_tbl : list (batch * key) := [(1, 30); (2, 10); (3, 20)].

(* inside the guard: bound 2, a full rejection, a foreign chain id, empty submissions, a restart with two
   pending batches that happen to be in hash order (2 then 3), the same contents accepted again after it
   was handed out, a crash that loses a submission, a crash that loses a delete, a crash after a delete *)
Definition ex_guarded : list item :=
  [ IOp (OSubmit true B2); IOp (OSubmit false B1); IOp (OSubmit true SEmpty); IOp (OSubmit true B3);
    IOp (OSubmit true B1); IRestart; IOp (ONext true); IOp (OSubmit true SNil); ICrash (ONext true) 0;
    IOp (ONext true); IOp (ONext true); IOp (ONext false); IOp (OSubmit true B2); ICrash (OSubmit true B3) 0;
    ICrash (ONext true) 1; IOp (ONext true); IOp (OSubmit true B1); IRestart; IOp (ONext true) ].

Example ex_guarded_meets_hypotheses :
  hash_keyedb ex_tbl ex_guarded = true /\ fifo_guard 2 [] ex_guarded = true.
Proof. vm_compute. split; reflexivity. Qed.

Example ex_guarded_outputs :
  outputs 2 ex_guarded =
  [ Some ROk; Some RInvalidId; Some ROk; Some ROk; Some RFull; None; Some (RBatch 2); Some ROk; None;
    Some (RBatch 3); Some REmpty; Some RInvalidId; Some ROk; None; None; Some REmpty; Some ROk; None;
    Some (RBatch 1) ].
Proof. vm_compute. reflexivity. Qed.

(* a history with monotone keys: three pending over a restart and a crash, equal contents under different keys *)
Definition ex_mono : list item :=
  [ IOp (OSubmit true (SB 1 7)); IOp (OSubmit true (SB 2 7)); IOp (OSubmit true (SB 3 5)); IRestart;
    IOp (ONext true); ICrash (OSubmit true (SB 4 7)) 1; IOp (ONext true); IOp (ONext true); IOp (ONext true) ].
Example ex_mono_meets_hypothesis : monotone_keys ex_mono = true.
Proof. vm_compute. reflexivity. Qed.
Example ex_mono_outputs :
  outputs 0 ex_mono =
  [ Some ROk; Some ROk; Some ROk; None; Some (RBatch 7); None; Some (RBatch 7); Some (RBatch 5); Some (RBatch 7) ].
Proof. vm_compute. reflexivity. Qed.

(* the two refutation witnesses are content-hash keyed, lie outside the guard, and show the loss / the
   reordering in the model's results (specification: RBatch 1, RBatch 1 and RBatch 1 respectively) *)
Example witnesses_outside_guard :
  hash_keyedb w_tbl w_equal = true /\ hash_keyedb w_tbl w_order = true /\
  fifo_guard 0 [] w_equal = false /\ fifo_guard 0 [] w_order = false.
Proof. vm_compute. repeat split; reflexivity. Qed.
Example witness_equal_outputs :
  outputs 0 w_equal = [Some ROk; Some ROk; Some (RBatch 1); None; Some REmpty] /\
  a_outputs 0 w_equal = [Some ROk; Some ROk; Some (RBatch 1); None; Some (RBatch 1)].
Proof. vm_compute. split; reflexivity. Qed.
Example witness_order_outputs :
  outputs 0 w_order = [Some ROk; Some ROk; None; Some (RBatch 2)] /\
  a_outputs 0 w_order = [Some ROk; Some ROk; None; Some (RBatch 1)].
Proof. vm_compute. split; reflexivity. Qed.
