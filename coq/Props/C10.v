(* Props/C10.v — the single sequencer's batch queue is a durable FIFO with exactly-once delivery.
   Statements only; every proof is [exact <lemma of Proofs/QueueProofs.v, QueueKeysProofs.v, QueueBudgetProofs.v, QueueStartsProofs.v>].
   The model is the code AFTER the repair of the key scheme (fix recorded in findings/C10.entries.json).

   Histories (first part: one bound for the whole history; second part: a bound per process start): lists over  UOp (USubmit chain_id_ok batch) | UOp (UNext chain_id_ok) | URestart |
   UCrash op n  (the process dies inside op after n of its datastore writes became durable, then restarts;
   every operation has at most one write, so this is a crash at every write boundary);
   a submitted batch is UNil | UEmpty | UB contents (equal contents = equal ids, and may recur freely). *)
From Coq Require Import NArith List Bool.
From Verif Require Import Model.Queue Proofs.QueueProofs.
From Verif Require Import Model.QueueKeys Proofs.QueueKeysProofs Model.QueueBudget Proofs.QueueBudgetProofs.
From Verif Require Import Model.QueueStarts Proofs.QueueStartsProofs.
From Verif Require Proofs.GoLiteQueueRefine.
Import ListNotations.
Open Scope N_scope.

(* What the specification means: in every run of the FIFO specification, over all histories, the sequence
   of batches accepted equals the sequence handed out followed by what is still pending — every accepted
   batch is handed out at most once, in acceptance order, nothing else is handed out, nothing is dropped.
   (A statement about the specification, not about the code.) *)
Theorem C10_spec_is_exactly_once_fifo : forall max h,
  s_accepted max [] h = s_delivered max [] h ++ s_final max h.
Proof. exact spec_exactly_once0. Qed.
Print Assumptions C10_spec_is_exactly_once_fifo.

(* THE PROPERTY, at full strength: for ALL histories (any bound, any interleaving of submit / next /
   restart / crash inside an operation, identical contents, empty submissions, foreign chain ids) every
   result of the code's model equals the result of the plain FIFO (accept = enqueue at the back unless
   full, next = hand out the oldest; restarts and crashes change nothing, except that a crashed operation
   whose write survived counts as done), the in-memory queue is exactly the pending batches in acceptance
   order, and the datastore holds exactly the pending batches in acceptance order — so that the statement
   holds again after any further restart. *)
Theorem C10_fifo_full : forall max h, r_fifo max h.
Proof. exact fifo_full. Qed.
Print Assumptions C10_fifo_full.

(* The queue bound is respected: neither the in-memory queue nor the set of durable records (what a
   restart reloads) ever exceeds a positive bound. *)
Theorem C10_bound_full : forall max h,
  0 < max ->
  N.of_nat (length (mem (core (r_final max h)))) <= max /\ N.of_nat (length (db (core (r_final max h)))) <= max.
Proof. exact r_bound_both. Qed.
Print Assumptions C10_bound_full.

(* A submission (or request) rejected because the chain id is foreign or the queue is full leaves no
   trace: state (queue, records, sequence counter) unchanged, no datastore write — in every state. *)
Theorem C10_rejected_no_trace_full : forall max rst o r,
  snd (r_step max rst (UOp o)) = Some r -> (r = RInvalidId \/ r = RFull) ->
  fst (r_step max rst (UOp o)) = rst /\ r_wlog max rst [UOp o] = [].
Proof. exact r_rejected_no_trace. Qed.
Print Assumptions C10_rejected_no_trace_full.

(* ... and so does an empty submission (nil batch or zero transactions) *)
Theorem C10_empty_submission_no_trace_full : forall max rst ok s, s = UNil \/ s = UEmpty ->
  fst (r_step max rst (UOp (USubmit ok s))) = rst /\ r_wlog max rst [UOp (USubmit ok s)] = [].
Proof. exact r_empty_submission_no_trace. Qed.
Print Assumptions C10_empty_submission_no_trace_full.

(* Admission of ONE submission is ONE atomic step, whatever the submission contains (a batch id stands for the whole
   transaction list: any number of transactions of any sizes): either nothing happens — no datastore write, queue,
   records and sequence counter unchanged — or the whole submission becomes exactly one queue entry and one record,
   by exactly one datastore write.  There is no state in which part of a submission is queued or stored. *)
Theorem C10_submission_atomic_full : forall max rst ok s,
  (fst (r_step max rst (UOp (USubmit ok s))) = rst /\ r_wlog max rst [UOp (USubmit ok s)] = []) \/
  (exists b, s = UB b /\ ok = true /\
     snd (r_step max rst (UOp (USubmit ok s))) = Some ROk /\
     r_wlog max rst [UOp (USubmit ok s)] = [WPut (nseq rst) b] /\
     mem (core (fst (r_step max rst (UOp (USubmit ok s))))) = mem (core rst) ++ [(nseq rst, b)] /\
     db (core (fst (r_step max rst (UOp (USubmit ok s))))) = db_put (nseq rst) b (db (core rst)) /\
     nseq (fst (r_step max rst (UOp (USubmit ok s)))) = nseq rst + 1).
Proof. exact r_submission_atomic. Qed.
Print Assumptions C10_submission_atomic_full.

(* ... also under a process death at ANY point inside the submission (n = number of its datastore writes that became
   durable, any n): the restarted process is built from the old records or from the old records plus the whole
   submission as one record. *)
Theorem C10_submission_crash_atomic_full : forall max rst ok s n,
  fst (r_step max rst (UCrash (USubmit ok s) n)) = r_boot (db (core rst)) \/
  (exists b, s = UB b /\
     fst (r_step max rst (UCrash (USubmit ok s) n)) = r_boot (db_put (nseq rst) b (db (core rst)))).
Proof. exact r_submission_crash_atomic. Qed.
Print Assumptions C10_submission_crash_atomic_full.

(* ... spelled out for a submission given as its list of transactions (id, size in bytes): for every naming [enc]
   of transaction lists, every list, every size. *)
Theorem C10_submission_of_any_size_atomic_full : forall (enc : list tx -> batch) max rst ok req,
  (fst (r_step max rst (UOp (USubmit ok (sub_of enc req)))) = rst /\
   r_wlog max rst [UOp (USubmit ok (sub_of enc req))] = []) \/
  (exists l, req = Some l /\ l <> [] /\ ok = true /\
     snd (r_step max rst (UOp (USubmit ok (sub_of enc req)))) = Some ROk /\
     r_wlog max rst [UOp (USubmit ok (sub_of enc req))] = [WPut (nseq rst) (enc l)] /\
     mem (core (fst (r_step max rst (UOp (USubmit ok (sub_of enc req)))))) = mem (core rst) ++ [(nseq rst, enc l)] /\
     db (core (fst (r_step max rst (UOp (USubmit ok (sub_of enc req)))))) = db_put (nseq rst) (enc l) (db (core rst))).
Proof. exact r_sized_submission_atomic. Qed.
Print Assumptions C10_submission_of_any_size_atomic_full.

(* ==== THE BOUND IS A PARAMETER OF EVERY PROCESS START ======================================================
   Histories over  VOp op | VStart max | VCrash op n max : every restart and every recovery from a crash names the
   maxQueueSize of the process it starts (the operator lowers / raises the bound, an upgrade from "unlimited": any
   sequence of bounds, incl. bounds smaller than the number of batches pending at that moment).  [max0] is the bound
   of the first process. *)

(* THE PROPERTY across restarts with CHANGING bounds, at full strength: for ALL such histories every result of the code's
   model is the plain FIFO's (a submission is judged by the bound of the process that receives it; a restart changes
   NOTHING, whatever the old and the new bound), the in-memory queue is exactly the pending batches in acceptance order
   and so are the durable records.  In particular nothing pending is left behind by a process start, and nothing
   accepted later is handed out before it. *)
Theorem C10_fifo_any_bounds_full : forall max0 h, v_fifo max0 h.
Proof. exact v_fifo_full. Qed.
Print Assumptions C10_fifo_any_bounds_full.

(* ... and that specification means: accepted = handed out ++ pending (exactly once, in order), also with changing bounds *)
Theorem C10_spec_any_bounds_is_exactly_once_fifo : forall max0 h,
  sv_accepted max0 [] h = sv_delivered max0 [] h ++ sv_final max0 h.
Proof. exact sv_exactly_once0. Qed.
Print Assumptions C10_spec_any_bounds_is_exactly_once_fifo.

(* A process start reloads EVERY durable record — it does not look at the old or the new bound — and continues the
   sequence numbering above all of them (in every state, for every bound). *)
Theorem C10_start_loads_everything_full : forall st m,
  vr (fst (v_step st (VStart m))) = r_boot (db (core (vr st))) /\
  mem (core (vr (fst (v_step st (VStart m))))) = db (core (vr st)) /\
  db (core (vr (fst (v_step st (VStart m))))) = db (core (vr st)) /\
  vmax (fst (v_step st (VStart m))) = m /\
  (forall k, In k (keys (db (core (vr st)))) -> k < nseq (vr (fst (v_step st (VStart m))))).
Proof. exact v_start_loads_everything. Qed.
Print Assumptions C10_start_loads_everything_full.

Theorem C10_crash_recovery_loads_everything_full : forall st o n m,
  exists d, vr (fst (v_step st (VCrash o n m))) = r_boot d /\
    d = apply_ws (db (core (vr st))) (firstn n (snd (step_mem (vmax st) (mem (core (vr st))) (key_op (nseq (vr st)) o)))) /\
    vmax (fst (v_step st (VCrash o n m))) = m.
Proof. exact v_crash_loads_everything. Qed.
Print Assumptions C10_crash_recovery_loads_everything_full.

(* Admission enforces the bound of the running process: an accepted submission found fewer than [max] batches queued;
   a queue that holds [max] or more (e.g. reloaded by a process with a smaller bound) refuses, without a trace. *)
Theorem C10_accepted_below_current_bound_full : forall max rst ok s,
  0 < max -> snd (r_step max rst (UOp (USubmit ok s))) = Some ROk -> s <> UNil -> s <> UEmpty ->
  N.of_nat (length (mem (core rst))) < max.
Proof. exact r_accept_below_bound. Qed.
Print Assumptions C10_accepted_below_current_bound_full.

Theorem C10_over_bound_refuses_full : forall max rst b,
  0 < max -> max <= N.of_nat (length (mem (core rst))) ->
  r_step max rst (UOp (USubmit true (UB b))) = (rst, Some RFull) /\ r_wlog max rst [UOp (USubmit true (UB b))] = [].
Proof. exact r_over_bound_refuses. Qed.
Print Assumptions C10_over_bound_refuses_full.

(* The bound across process starts: the queue of a process with a positive bound never exceeds the larger of that
   bound and the number of batches its start reloaded; the durable records are exactly as many as the queue. *)
Theorem C10_bound_any_bounds_full : forall max0 h,
  0 < vmax (v_final max0 h) ->
  N.of_nat (length (mem (core (vr (v_final max0 h))))) <= N.max (vmax (v_final max0 h)) (vload (v_final max0 h)) /\
  length (db (core (vr (v_final max0 h)))) = length (mem (core (vr (v_final max0 h)))).
Proof. exact v_bound_full. Qed.
Print Assumptions C10_bound_any_bounds_full.

(* Histories whose process starts all use ONE bound are exactly the histories of the theorems above ([r_run]). *)
Theorem C10_one_bound_is_an_instance_full : forall max h,
  v_outputs max (map (v_of max) h) = r_outputs max h /\ vr (v_final max (map (v_of max) h)) = r_final max h.
Proof. exact v_const_outputs. Qed.
Print Assumptions C10_one_bound_is_an_instance_full.

(* non-vacuity: five batches accepted by an unlimited process; restart with bound 3 (smaller than the five pending):
   all five are reloaded, a submission is refused (5 >= 3) until three were handed out, the batch accepted then (6) is
   handed out after the older 4 and 5 and gets a sequence number above theirs; a crash inside a hand-out whose delete
   survived, recovered by a process with bound 1 (two pending: refuses), and a restart with an unlimited bound *)
Definition ex_vhistory : list vitem :=
  [ VOp (USubmit true (UB 1)); VOp (USubmit true (UB 2)); VOp (USubmit true (UB 3)); VOp (USubmit true (UB 4));
    VOp (USubmit true (UB 5)); VStart 3; VOp (USubmit true (UB 6)); VOp (UNext true); VOp (UNext true);
    VOp (USubmit true (UB 6)); VOp (UNext true); VOp (USubmit true (UB 6)); VCrash (UNext true) 1 1;
    VOp (USubmit true (UB 8)); VOp (UNext true); VStart 0; VOp (USubmit true (UB 7)); VOp (UNext true);
    VOp (UNext true); VOp (UNext true) ].
Example ex_voutputs :
  v_outputs 0 ex_vhistory =
  [ Some ROk; Some ROk; Some ROk; Some ROk; Some ROk; None; Some RFull; Some (RBatch 1); Some (RBatch 2);
    Some RFull; Some (RBatch 3); Some ROk; None; Some RFull; Some (RBatch 5); None; Some ROk; Some (RBatch 6);
    Some (RBatch 7); Some REmpty ] /\
  v_wlog (v_st0 0) ex_vhistory =
  [ WPut 0 1; WPut 1 2; WPut 2 3; WPut 3 4; WPut 4 5; WDel 0; WDel 1; WDel 2; WPut 5 6; WDel 3; WDel 4;
    WPut 6 7; WDel 5; WDel 6 ] /\
  sv_accepted 0 [] ex_vhistory = [1; 2; 3; 4; 5; 6; 7] /\ sv_delivered 0 [] ex_vhistory = [1; 2; 3; 4; 5; 6; 7].
Proof. vm_compute. repeat split; reflexivity. Qed.

(* ---- non-vacuity: a concrete history -------------------------------------------------------------------- *)
(* bound 3: identical contents pending together (7, 7), a restart with three pending, a full rejection, a
   foreign chain id, empty submissions, a crash that loses a submission, one that keeps it, a crash that
   loses a delete, one after the delete, everything handed out, the counter restarting from an empty store *)
Definition ex_history : list uitem :=
  [ UOp (USubmit true (UB 7)); UOp (USubmit true (UB 7)); UOp (USubmit false (UB 9)); UOp (USubmit true UEmpty);
    UOp (USubmit true (UB 5)); UOp (USubmit true (UB 9)); URestart; UOp (UNext true); UOp (USubmit true UNil);
    UCrash (UNext true) 0; UOp (UNext true); UCrash (USubmit true (UB 7)) 0; UCrash (USubmit true (UB 4)) 1;
    UCrash (UNext true) 1; UOp (UNext true); UOp (UNext false); UOp (UNext true); URestart;
    UOp (USubmit true (UB 7)); URestart; UOp (UNext true) ].

Example ex_outputs :
  r_outputs 3 ex_history =
  [ Some ROk; Some ROk; Some RInvalidId; Some ROk; Some ROk; Some RFull; None; Some (RBatch 7); Some ROk;
    None; Some (RBatch 7); None; None; None; Some (RBatch 4); Some RInvalidId; Some REmpty; None;
    Some ROk; None; Some (RBatch 7) ].
Proof. vm_compute. reflexivity. Qed.

Example ex_accepted_delivered :
  s_accepted 3 [] ex_history = [7; 7; 5; 4; 7] /\ s_delivered 3 [] ex_history = [7; 7; 5; 4; 7] /\
  s_final 3 ex_history = [].
Proof. vm_compute. repeat split; reflexivity. Qed.

(* ---- before the repair ------------------------------------------------------------------------------------ *)
(* With content-hash keys (the key a function of the contents; contents 1, 2 with keys 20, 10) the same
   queue core did NOT refine the FIFO: equal pending batches shared one record and one was lost over a
   restart; a restart reloaded in hash order.  Both were reproduced on the real code before the fix. *)
Example before_the_repair_equal_batches :
  hash_keyedb w_tbl w_equal = true /\
  outputs 0 w_equal = [Some ROk; Some ROk; Some (RBatch 1); None; Some REmpty] /\
  a_outputs 0 w_equal = [Some ROk; Some ROk; Some (RBatch 1); None; Some (RBatch 1)].
Proof. vm_compute. repeat split; reflexivity. Qed.

Example before_the_repair_reload_order :
  hash_keyedb w_tbl w_order = true /\
  outputs 0 w_order = [Some ROk; Some ROk; None; Some (RBatch 2)] /\
  a_outputs 0 w_order = [Some ROk; Some ROk; None; Some (RBatch 1)].
Proof. vm_compute. repeat split; reflexivity. Qed.

(* the same two histories on the repaired code *)
Example after_the_repair :
  r_outputs 0 [UOp (USubmit true (UB 1)); UOp (USubmit true (UB 1)); UOp (UNext true); URestart; UOp (UNext true)]
    = [Some ROk; Some ROk; Some (RBatch 1); None; Some (RBatch 1)] /\
  r_outputs 0 [UOp (USubmit true (UB 1)); UOp (USubmit true (UB 2)); URestart; UOp (UNext true)]
    = [Some ROk; Some ROk; None; Some (RBatch 1)].
Proof. vm_compute. split; reflexivity. Qed.

(* a 2.1 MB submission of three 700 kB transactions into a queue of bound 2 with one batch pending (the contents id 8
   stands for the whole list): accepted as ONE entry under ONE record; a second one is rejected whole; after a crash
   inside a submission whose write was lost, and a restart, exactly the two accepted batches are handed out, once *)
Definition ex_large : list tx := [(1, 700000); (2, 700000); (3, 700000)].
Example ex_large_submission :
  payload ex_large = 2100000 /\
  let enc := fun _ : list tx => 8 in
  let h := [ UOp (USubmit true (UB 5)); UOp (USubmit true (sub_of enc (Some ex_large)));
             UOp (USubmit true (sub_of enc (Some ex_large))); UCrash (USubmit true (sub_of enc (Some ex_large))) 0;
             UOp (UNext true); URestart; UOp (UNext true); UOp (UNext true) ] in
  r_outputs 2 h = [Some ROk; Some ROk; Some RFull; None; Some (RBatch 5); None; Some (RBatch 8); Some REmpty] /\
  r_wlog 2 r_st0 h = [WPut 0 5; WPut 1 8; WDel 0; WDel 1].
Proof. vm_compute. repeat split; reflexivity. Qed.

(* REFINEMENT FROM TRANSLATED CODE.  A history whose operations are executed by the Go functions themselves —
   Sequencer.SubmitBatchTxs / GetNextBatch with BatchQueue.AddBatch / Next / batchKey underneath, translated from
   /repo's source on every run (coq/gen/GoLiteFuns.v) and evaluated by Model/GoLite.v — is, step for step, a
   history of the model ([go_run_is_r_run]); hence it is the exactly-once FIFO of the specification: every result is
   the specification's, the in-memory queue and the durable records are exactly the pending batches in acceptance
   order.  Process starts (BatchQueue.Load, a loop over a datastore query) and crash cuts are the model's. *)
Theorem C10_translated_code_refines_model_full : forall me max h rst,
  GoLiteQueueRefine.go_run me max rst h = Some (r_run max rst h).
Proof. exact GoLiteQueueRefine.go_run_is_r_run. Qed.
Print Assumptions C10_translated_code_refines_model_full.

Theorem C10_translated_code_is_fifo_full : forall me max h,
  exists rst outs, GoLiteQueueRefine.go_run me max r_st0 h = Some (rst, outs) /\
    outs = s_outputs max h /\
    map snd (mem (core rst)) = s_final max h /\
    map snd (db (core rst)) = s_final max h.
Proof. exact GoLiteQueueRefine.go_run_fifo. Qed.
Print Assumptions C10_translated_code_is_fifo_full.

(* ... and with a bound per process start: every operation executed by the translated code under the bound of the
   process it runs in (the maxQueueSize field of the translated queue object) *)
Theorem C10_translated_code_refines_model_any_bounds_full : forall me h st,
  GoLiteQueueRefine.go_vrun me st h = Some (v_run st h).
Proof. exact GoLiteQueueRefine.go_vrun_is_v_run. Qed.
Print Assumptions C10_translated_code_refines_model_any_bounds_full.

Theorem C10_translated_code_is_fifo_any_bounds_full : forall me max0 h,
  exists st outs, GoLiteQueueRefine.go_vrun me (v_st0 max0) h = Some (st, outs) /\
    outs = sv_outputs max0 h /\
    map snd (mem (core (vr st))) = sv_final max0 h /\
    map snd (db (core (vr st))) = sv_final max0 h.
Proof. exact GoLiteQueueRefine.go_vrun_fifo. Qed.
Print Assumptions C10_translated_code_is_fifo_any_bounds_full.

(* ==== THE RECORD KEYS AS BYTE STRINGS (Model/QueueKeys.v) ==================================================================
   The theorems above identify a record's key with its sequence number and take the datastore's iteration order to be
   numeric order.  The datastore orders byte strings.  For ALL uint64 sequence numbers and ALL hashes: the string order
   of batchKey's keys ("s" ++ 16 hex digits ++ "-" ++ hash) is the numeric order of the sequence numbers — so a reload
   in key order (Load, OrderByKey) is a reload in acceptance order however long the queue has been running, in
   particular across every change of the number's digit count (15 -> 16, 255 -> 256, ...). *)
Theorem C10_key_string_order_is_acceptance_order_full : forall a b ha hb, u64 a -> u64 b -> a <> b ->
  lex_lt (key_string a ha) (key_string b hb) = (a <? b).
Proof. exact key_string_order. Qed.
Print Assumptions C10_key_string_order_is_acceptance_order_full.

(* ... hence records listed in string-key order are listed in sequence-number order (what [db] of Model/Queue.v is) *)
Theorem C10_records_in_key_string_order_full : forall (recs : list (N * list N)),
  Forall (fun r => u64 (fst r)) recs -> NoDup (map fst recs) ->
  sorted_by lex_lt (map (fun r => key_string (fst r) (snd r)) recs) = ssorted (map fst recs).
Proof. exact string_sorted_iff_number_sorted. Qed.
Print Assumptions C10_records_in_key_string_order_full.

(* Load reads back (Sscanf "/s%016x-") exactly the number batchKey printed: numbering continues above every record *)
Theorem C10_load_reads_back_the_sequence_number_full : forall sq hash, u64 sq -> key_seq (key_string sq hash) = sq.
Proof. exact key_seq_key_string. Qed.
Print Assumptions C10_load_reads_back_the_sequence_number_full.

(* non-vacuity, and why the padding matters: without it the 17th batch's key sorts before the 3rd batch's *)
Example ex_key_strings :
  key_string 26 [97; 98] = [115; 48; 48; 48; 48; 48; 48; 48; 48; 48; 48; 48; 48; 48; 48; 49; 97; 45; 97; 98] /\
  lex_lt (key_string 15 [102]) (key_string 16 [48]) = true /\
  lex_lt (115 :: hex_fixed 2 16 ++ [45]) (115 :: hex_fixed 1 2 ++ [45]) = true.
Proof. vm_compute. repeat split; reflexivity. Qed.

(* ==== THE BYTE BUDGET OF A HAND-OUT REQUEST (Model/QueueBudget.v) ===========================================================
   Histories in which every hand-out request states a byte budget (GetNextBatchRequest.MaxBytes; BNext ok max_bytes),
   process starts naming their bound as above.  THE PROPERTY for ALL such histories: results, in-memory queue and
   durable records are the plain FIFO's — what is handed out is the oldest accepted batch, ENTIRE, whatever the
   budget; nothing of it stays behind, nothing is put back. *)
Theorem C10_fifo_any_budget_full : forall max0 h, b_fifo max0 h.
Proof. exact b_fifo_full. Qed.
Print Assumptions C10_fifo_any_budget_full.

(* the budgets can be replaced by "none" without changing a result, the final state or a datastore write *)
Theorem C10_budget_is_ignored_full : forall max0 h,
  b_run (v_st0 max0) (map no_budget h) = b_run (v_st0 max0) h /\
  b_wlog max0 (map no_budget h) = b_wlog max0 h.
Proof. exact b_budget_ignored. Qed.
Print Assumptions C10_budget_is_ignored_full.

(* one hand-out, in EVERY state, for EVERY budget: the oldest queued batch entire; the queue loses exactly that entry,
   the sequence counter stays, and the only datastore write is the delete of that batch's record *)
Theorem C10_hand_out_is_the_whole_oldest_batch_full : forall st mb k b r,
  mem (core (vr st)) = (k, b) :: r ->
  snd (v_step st (b_vitem (BOp (BNext true mb)))) = Some (RBatch b) /\
  mem (core (vr (fst (v_step st (b_vitem (BOp (BNext true mb))))))) = r /\
  db (core (vr (fst (v_step st (b_vitem (BOp (BNext true mb))))))) = db_del k (db (core (vr st))) /\
  nseq (vr (fst (v_step st (b_vitem (BOp (BNext true mb)))))) = nseq (vr st) /\
  v_wlog st [b_vitem (BOp (BNext true mb))] = [WDel k].
Proof. exact b_next_whole_head. Qed.
Print Assumptions C10_hand_out_is_the_whole_oldest_batch_full.

(* non-vacuity: batch 7 (say three transactions, 3 bytes) and batch 8 accepted; a hand-out with a budget of 1 byte
   returns batch 7 whole and deletes its record; after a restart the next hand-out (budget 2) is batch 8 *)
Example ex_budget :
  let h := [BOp (BSubmit true (UB 7)); BOp (BSubmit true (UB 8)); BOp (BNext true 1); BStart 0; BOp (BNext true 2);
            BOp (BNext true 1)] in
  b_outputs 0 h = [Some ROk; Some ROk; Some (RBatch 7); None; Some (RBatch 8); Some REmpty] /\
  b_wlog 0 h = [WPut 0 7; WPut 1 8; WDel 0; WDel 1].
Proof. vm_compute. split; reflexivity. Qed.

(* ==== WHAT EVERY STARTING PROCESS FINDS (Model/QueueStarts.v) ===============================================================
   "Batches accepted but not yet handed out survive a restart", said of the records themselves: for ALL histories (budgets,
   bounds, crashes inside operations at every write boundary) the records under the queue's prefix at EVERY process start
   of the history hold, in key order, exactly the contents of the batches pending at that moment in acceptance order (the
   plain FIFO's queue: each record still holds the batch it was written for, whatever was accepted, encoded or handed out
   after it), and the queue the new process starts with is exactly those records. *)
Theorem C10_records_at_every_process_start_are_the_pending_batches_full : forall max0 h,
  map (map snd) (b_start_images max0 h) = sv_start_queues max0 [] (map b_vitem h) /\
  b_start_queues max0 h = b_start_images max0 h.
Proof. exact b_starts_full. Qed.
Print Assumptions C10_records_at_every_process_start_are_the_pending_batches_full.

(* ... and their keys are strictly increasing: key order is acceptance order at every start *)
Theorem C10_records_at_every_process_start_in_key_order_full : forall max0 h,
  Forall (fun d => ssorted (keys d) = true) (b_start_images max0 h).
Proof. exact b_start_images_sorted. Qed.
Print Assumptions C10_records_at_every_process_start_in_key_order_full.

(* non-vacuity: batches 7, 8, 9 accepted (8 and 9 of the same size, say); restart with all three pending: the records
   are 7, 8, 9 under keys 0, 1, 2; one handed out, 7 accepted again, the process dies inside a further submission
   whose write survived: the recovering process finds 8, 9, 7, 8 *)
Example ex_start_images :
  let h := [BOp (BSubmit true (UB 7)); BOp (BSubmit true (UB 8)); BOp (BSubmit true (UB 9)); BStart 0;
            BOp (BNext true 0); BOp (BSubmit true (UB 7)); BCrash (BSubmit true (UB 8)) 1 2] in
  b_start_images 0 h = [[(0, 7); (1, 8); (2, 9)]; [(1, 8); (2, 9); (3, 7); (4, 8)]] /\
  sv_start_queues 0 [] (map b_vitem h) = [[7; 8; 9]; [8; 9; 7; 8]].
Proof. vm_compute. split; reflexivity. Qed.
