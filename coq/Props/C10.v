(* Props/C10.v — the single sequencer's batch queue is a durable FIFO with exactly-once delivery.
   Statements only; every proof is [exact <lemma of Proofs/QueueProofs.v>].
   The model is the code AFTER the repair of the key scheme (fix recorded in findings/C10.entries.json).

   Histories: lists over  UOp (USubmit chain_id_ok batch) | UOp (UNext chain_id_ok) | URestart |
   UCrash op n  (the process dies inside op after n of its datastore writes became durable, then restarts;
   every operation has at most one write, so this is a crash at every write boundary);
   a submitted batch is UNil | UEmpty | UB contents (equal contents = equal ids, and may recur freely). *)
From Coq Require Import NArith List Bool.
From Verif Require Import Model.Queue Proofs.QueueProofs.
Import ListNotations.
Open Scope N_scope.

(* What the specification means: in every run of the FIFO specification, over all histories, the sequence
   of batches accepted equals the sequence handed out followed by what is still pending — every accepted
   batch is handed out at most once, in acceptance order, nothing else is handed out, nothing is dropped.
   (A statement about the specification, not about the code.) *)
Theorem C10_spec_is_exactly_once_fifo : forall max h,
  s_accepted max [] h = s_delivered max [] h ++ s_final max h.
Proof. exact spec_exactly_once0. Qed.
Print Assumptions C10_spec_is_exactly_once_fifo.

(* THE PROPERTY, at full strength: for ALL histories (any bound, any interleaving of submit / next /
   restart / crash inside an operation, identical contents, empty submissions, foreign chain ids) every
   result of the code's model equals the result of the plain FIFO (accept = enqueue at the back unless
   full, next = hand out the oldest; restarts and crashes change nothing, except that a crashed operation
   whose write survived counts as done), the in-memory queue is exactly the pending batches in acceptance
   order, and the datastore holds exactly the pending batches in acceptance order — so that the statement
   holds again after any further restart. *)
Theorem C10_fifo_full : forall max h, r_fifo max h.
Proof. exact fifo_full. Qed.
Print Assumptions C10_fifo_full.

(* The queue bound is respected: neither the in-memory queue nor the set of durable records (what a
   restart reloads) ever exceeds a positive bound. *)
Theorem C10_bound_full : forall max h,
  0 < max ->
  N.of_nat (length (mem (core (r_final max h)))) <= max /\ N.of_nat (length (db (core (r_final max h)))) <= max.
Proof. exact r_bound_both. Qed.
Print Assumptions C10_bound_full.

(* A submission (or request) rejected because the chain id is foreign or the queue is full leaves no
   trace: state (queue, records, sequence counter) unchanged, no datastore write — in every state. *)
Theorem C10_rejected_no_trace_full : forall max rst o r,
  snd (r_step max rst (UOp o)) = Some r -> (r = RInvalidId \/ r = RFull) ->
  fst (r_step max rst (UOp o)) = rst /\ r_wlog max rst [UOp o] = [].
Proof. exact r_rejected_no_trace. Qed.
Print Assumptions C10_rejected_no_trace_full.

(* ... and so does an empty submission (nil batch or zero transactions) *)
Theorem C10_empty_submission_no_trace_full : forall max rst ok s, s = UNil \/ s = UEmpty ->
  fst (r_step max rst (UOp (USubmit ok s))) = rst /\ r_wlog max rst [UOp (USubmit ok s)] = [].
Proof. exact r_empty_submission_no_trace. Qed.
Print Assumptions C10_empty_submission_no_trace_full.

(* ---- non-vacuity: a concrete history -------------------------------------------------------------------- *)
(* bound 3: identical contents pending together (7, 7), a restart with three pending, a full rejection, a
   foreign chain id, empty submissions, a crash that loses a submission, one that keeps it, a crash that
   loses a delete, one after the delete, everything handed out, the counter restarting from an empty store *)
Definition ex_history : list uitem :=
  [ UOp (USubmit true (UB 7)); UOp (USubmit true (UB 7)); UOp (USubmit false (UB 9)); UOp (USubmit true UEmpty);
    UOp (USubmit true (UB 5)); UOp (USubmit true (UB 9)); URestart; UOp (UNext true); UOp (USubmit true UNil);
    UCrash (UNext true) 0; UOp (UNext true); UCrash (USubmit true (UB 7)) 0; UCrash (USubmit true (UB 4)) 1;
    UCrash (UNext true) 1; UOp (UNext true); UOp (UNext false); UOp (UNext true); URestart;
    UOp (USubmit true (UB 7)); URestart; UOp (UNext true) ].

Example ex_outputs :
  r_outputs 3 ex_history =
  [ Some ROk; Some ROk; Some RInvalidId; Some ROk; Some ROk; Some RFull; None; Some (RBatch 7); Some ROk;
    None; Some (RBatch 7); None; None; None; Some (RBatch 4); Some RInvalidId; Some REmpty; None;
    Some ROk; None; Some (RBatch 7) ].
Proof. vm_compute. reflexivity. Qed.

Example ex_accepted_delivered :
  s_accepted 3 [] ex_history = [7; 7; 5; 4; 7] /\ s_delivered 3 [] ex_history = [7; 7; 5; 4; 7] /\
  s_final 3 ex_history = [].
Proof. vm_compute. repeat split; reflexivity. Qed.

(* ---- before the repair ------------------------------------------------------------------------------------ *)
(* With content-hash keys (the key a function of the contents; contents 1, 2 with keys 20, 10) the same
   queue core did NOT refine the FIFO: equal pending batches shared one record and one was lost over a
   restart; a restart reloaded in hash order.  Both were reproduced on the real code before the fix. *)
Example before_the_repair_equal_batches :
  hash_keyedb w_tbl w_equal = true /\
  outputs 0 w_equal = [Some ROk; Some ROk; Some (RBatch 1); None; Some REmpty] /\
  a_outputs 0 w_equal = [Some ROk; Some ROk; Some (RBatch 1); None; Some (RBatch 1)].
Proof. vm_compute. repeat split; reflexivity. Qed.

Example before_the_repair_reload_order :
  hash_keyedb w_tbl w_order = true /\
  outputs 0 w_order = [Some ROk; Some ROk; None; Some (RBatch 2)] /\
  a_outputs 0 w_order = [Some ROk; Some ROk; None; Some (RBatch 1)].
Proof. vm_compute. repeat split; reflexivity. Qed.

(* the same two histories on the repaired code *)
Example after_the_repair :
  r_outputs 0 [UOp (USubmit true (UB 1)); UOp (USubmit true (UB 1)); UOp (UNext true); URestart; UOp (UNext true)]
    = [Some ROk; Some ROk; Some (RBatch 1); None; Some (RBatch 1)] /\
  r_outputs 0 [UOp (USubmit true (UB 1)); UOp (USubmit true (UB 2)); URestart; UOp (UNext true)]
    = [Some ROk; Some ROk; None; Some (RBatch 1)].
Proof. vm_compute. split; reflexivity. Qed.
