(* Props/C01.v — Sequencer node only ever commits a valid, hash-linked, signed chain; never wedges.
   Statements only; every proof is [exact <lemma of Proofs/ProducerProofs.v>].
   Model: Model/Producer.v (NewManager start-up + publishBlockInternal of block/manager.go), with the
   symbolic block vocabulary of Model/Types.v.  [run c h] = the machine state after history [h] from an
   empty datastore; C01 histories are crash-free ([crash_free h]: boots and production steps only).
   All theorems are for ALL configurations with initial height >= 1 whose signer is the genesis proposer
   ([wf_cfg]), ALL sequences of sequencer responses (SErr | SNil | SBatch txs ts cursor, any txs, any
   timestamps) and ALL execution outcomes (EOk root | EErr, InitChain Some/None), of any length.
   (5)-(8) are about the node under its OWN production loop (Model/ProducerLoop.v: block/aggregation.go, normal and
   lazy mode): [lrun c h] = the machine state after the history [h] of starts and ROUNDS of the loop, in which a
   round that hands an error back to the loop halts the node. *)
From Coq Require Import String NArith ZArith List Bool.
From Verif Require Import Base.KV Base.Keys Model.Types Model.Producer Proofs.ProducerProofs Proofs.ProducerRestartProofs.
From Verif Require Import Model.ProducerLoop Proofs.ProducerLoopProofs.
Import ListNotations.
Open Scope N_scope.

(* (1) FULL.  After every crash-free history either nothing is committed yet (store height below the
   initial height, no state recorded) or heights initial..height form a [chain]: each holds a block
   that (block_valid) passes [Types.validate] — the validation a full node applies — against the state
   obtained by executing all earlier blocks (height = previous + 1, time not earlier, AppHash = the
   root returned for the previous block / by InitChain, DataHash = commitment of its transactions,
   ValidateBasic incl. signature), names the previous header as LastHeaderHash, is signed by the
   configured signer (= genesis proposer), carries exactly the transactions and timestamp of a batch
   taken for that height, was executed on the previous root; and the recorded state is the state after
   the last block. *)
Theorem C01_chain_valid_full : forall (c : cfg) (h : list item),
  wf_cfg c -> crash_free h = true -> ChainValid c (run c h).
Proof. exact chain_valid_crash_free. Qed.
Print Assumptions C01_chain_valid_full.

(* (1') FULL, the same read height by height (see [block_facts] in Proofs/ProducerProofs.v):
   for every committed height k: the stored header has height k and the chain id; k = initial: empty
   LastHeaderHash and AppHash = an InitChain root; k > initial: LastHeaderHash = the header stored at
   k-1 and time(k-1) <= time(k); DataHash = the stored transactions, which with the time are those of
   a batch taken for k; signed by the signer, proposer = genesis proposer, ValidateBasic holds; the
   execution layer was called with (k, txs, time, AppHash(k)) and the root it returned is AppHash(k+1),
   or the recorded state root when k is the last height. *)
Theorem C01_blocks_valid_full : forall (c : cfg) (h : list item),
  wf_cfg c -> crash_free h = true ->
  let st := run c h in let m := img_of st in
  forall k, c_initial c <= k -> k <= g_height m ->
  exists r0 s, In r0 (g_inits st) /\ g_state m = Some s /\ s_height s = g_height m /\
               block_facts c (g_block m) (g_built st) (g_execs st) r0 (g_height m) s k.
Proof. exact blocks_valid_crash_free. Qed.
Print Assumptions C01_blocks_valid_full.

(* (2) FULL (since the repair a489023; before it this statement was refuted, see [before_the_repair_F1]).
   Whenever a process runs, a well-formed pair of responses — a batch not older than the last block, a
   successful execution — commits the next block in that very step: no sequence of earlier responses
   leaves the node unable to produce blocks.  No guard on the history. *)
Theorem C01_no_wedge_full : forall (c : cfg) (h : list item),
  wf_cfg c -> crash_free h = true ->
  forall v, vol_of (run c h) = Some v ->
  forall sq e, wf_resp c (run c h) sq e = true ->
  a_out (step c (img_of (run c h)) v sq e) = OCommitted (g_height (img_of (run c h)) + 1).
Proof. exact no_wedge_crash_free. Qed.
Print Assumptions C01_no_wedge_full.

(* (3) FULL.  What the node EXPOSES.  [served st n] is what a reader of the node's store gets at height n
   (GetBlockData / GetHeader for the signed header and data, GetSignature for the signature record): the
   record of the latest SaveBlockData for n.  After every crash-free history — hence at every instant
   between two actions of a run, also after failed and skipped steps —
   (a) every committed height n serves a block of height n whose header signature verifies under the
       configured signer's key over that very header, equals the signature record, names the configured
       signer, and passes ValidateBasic ([served_signed]);
   (b) the only record above the committed heights is the pending block at height+1 (early-saved, not yet
       signed by this step): signing it yields a block that validates against the node's state, so the retry
       commits it;
   (c) nothing is served above the pending height.
   The harness compares (a)-(c) with the real store object the Manager runs on after EVERY item
   (Check/ProducerCheck.v [ob_tip]) and at the end for every height ([pc_blocks]). *)
Theorem C01_served_full : forall (c : cfg) (h : list item),
  wf_cfg c -> crash_free h = true ->
  let st := run c h in let H := g_height (img_of st) in
  (forall n, c_initial c <= n -> n <= H ->
     exists b, served st n = Some b /\ h_height (hdr_of b) = n /\ served_signed c b) /\
  (forall v b, vol_of st = Some v -> served st (H + 1) = Some b ->
     validate (v_state v) (b_sh (final_block c b)) (b_data (final_block c b)) = true) /\
  (forall n, H + 1 < n -> c_initial c < n -> served st n = None).
Proof. exact served_crash_free. Qed.
Print Assumptions C01_served_full.

(* (4) FULL.  RESTARTS inside a run.  The crash-free histories of (1)-(3) contain start-ups ([IRun (ABoot _)]:
   NewManager -> getInitialState on the same database; a running process is discarded) at ANY position, so
   (1)-(3) already hold after a restart that follows a FAILED production step (execution error or validation
   error after the early save: the unsigned, unexecuted pending block lies above the recorded state).  What a
   restart does is stated here on its own: at any point of a crash-free history at which a state is recorded,
   a start-up succeeds, performs NO datastore write (the store height is not moved), does not consult InitChain,
   changes no log, and the new process holds the recorded state and the recorded batch cursor. *)
Theorem C01_restart_writes_nothing_full : forall (c : cfg) (h : list item) (ic : option root) (s : cstate),
  wf_cfg c -> crash_free h = true -> g_state (img_of (run c h)) = Some s ->
  let st := run c h in
  let r := exec_item c st (IRun (ABoot ic)) in
  o_res (snd r) = OBootOk /\ o_ws (snd r) = [] /\
  img_of (fst r) = img_of st /\
  vol_of (fst r) = Some {| v_state := s; v_cursor := g_cursor (img_of st) |} /\
  g_inits (fst r) = g_inits st /\ g_built (fst r) = g_built st /\ g_execs (fst r) = g_execs st.
Proof. exact restart_item_crash_free. Qed.
Print Assumptions C01_restart_writes_nothing_full.

(* (4') FULL, the consequences for what the node reports and for liveness: after [h ++ [restart]] the store
   height is the height of the RECORDED STATE (a block found above it — the pending block of a failed step —
   is not covered by the height, i.e. not reported as committed), every height serves what it served before,
   the process runs on the recorded state, and a well-formed pair of responses commits height+1 in the very
   next step; when a pending block is stored, that step commits exactly it (signed now), it does not build
   another block. *)
Theorem C01_restart_full : forall (c : cfg) (h : list item) (ic : option root) (s : cstate),
  wf_cfg c -> crash_free h = true -> g_state (img_of (run c h)) = Some s ->
  let st := run c h in
  let st' := run c (h ++ [IRun (ABoot ic)]) in
  img_of st' = img_of st /\
  g_height (img_of st') = s_height s /\
  (forall n, served st' n = served st n) /\
  (exists v, vol_of st' = Some v /\ v_state v = s /\ v_cursor v = g_cursor (img_of st) /\
     forall sq e, wf_resp c st' sq e = true ->
       a_out (step c (img_of st') v sq e) = OCommitted (s_height s + 1) /\
       (forall pb, served st (s_height s + 1) = Some pb ->
          a_pre (step c (img_of st') v sq e) = [w_block (s_height s + 1) (final_block c pb)])).
Proof. exact restart_crash_free. Qed.
Print Assumptions C01_restart_full.

(* ---- non-vacuity: a concrete history meeting every hypothesis: initial height 5, a failed first start,
   the genesis block, a two-transaction block, an empty block with an EQUAL timestamp, a transient
   sequencer error, an absent batch, a non-empty batch with a regressed timestamp (refused), an
   execution error followed by the retry of the stored block, and a last block --------------------- *)
Definition ex_cfg : cfg := {| c_chain := 3; c_initial := 5; c_gtime := 100%Z; c_key := 7; c_gaddr := Addr 7 |}.
Definition ex_history : list item :=
  [ IRun (ABoot None); IRun (ABoot (Some 1));
    IRun (AStep SNil (EOk 2));
    IRun (AStep (SBatch [10; 11] 200%Z 1) (EOk 3));
    IRun (AStep (SBatch [] 200%Z 2) (EOk 4));
    IRun (AStep SErr (EOk 5));
    IRun (AStep SNil (EOk 6));
    IRun (AStep (SBatch [12] 150%Z 3) (EOk 7));
    IRun (AStep (SBatch [13] 300%Z 4) EErr);
    IRun (AStep SErr (EOk 8)) ].

Example ex_hypotheses :
  wf_cfg ex_cfg /\ crash_free ex_history = true /\
  (exists v, vol_of (run ex_cfg ex_history) = Some v) /\
  wf_resp ex_cfg (run ex_cfg ex_history) (SBatch [14] 300%Z 9) (EOk 9) = true.
Proof.
  split; [split; [vm_compute; discriminate|reflexivity]|].
  split; [reflexivity|]. split; [eexists; vm_compute; reflexivity|].
  vm_compute; reflexivity.
Qed.

Example ex_outcomes :
  map o_res (outputs ex_cfg ex_history) =
  [ OBootFailInit; OBootOk; OCommitted 5; OCommitted 6; OCommitted 7; OSkipped; OSkipped; OErrTime; OErrExec; OCommitted 8 ]
  /\ g_height (img_of (run ex_cfg ex_history)) = 8
  /\ option_map s_app (g_state (img_of (run ex_cfg ex_history))) = Some 8.
Proof. vm_compute. repeat split. Qed.

(* the history that wedged the node before the repair a489023 (boot, two blocks, an EMPTY batch stamped
   earlier than the last block): the batch is now skipped, nothing is saved, and the next well-formed
   response commits height 3 *)
Definition f1_cfg : cfg := {| c_chain := 1; c_initial := 1; c_gtime := 0%Z; c_key := 7; c_gaddr := Addr 7 |}.
Definition f1_history : list item :=
  [ IRun (ABoot (Some 1)); IRun (AStep SNil (EOk 2)); IRun (AStep (SBatch [5; 6] 1000%Z 1) (EOk 3));
    IRun (AStep (SBatch [] 500%Z 2) (EOk 4)); IRun (AStep (SBatch [9] 5000%Z 3) (EOk 5)) ].
Example before_the_repair_F1 :
  map o_res (outputs f1_cfg f1_history) = [OBootOk; OCommitted 1; OCommitted 2; OSkipped; OCommitted 3]
  /\ g_block (img_of (run f1_cfg (firstn 4 f1_history))) 3 = None.
Proof. vm_compute. repeat split. Qed.

(* the window between the early and the final save of a block, on [ex_history]: after the failed execution
   of height 8 (item 9) the store serves at 8 the early-saved block — header signature = the signature of
   block 7, empty signature record, ValidateBasic fails — and height 8 is NOT committed; after the retry
   (item 10) the same height serves the block signed over its own header, with an equal signature record *)
Example ex_served_window :
  let before := run ex_cfg (firstn 9 ex_history) in
  let after := run ex_cfg ex_history in
  g_height (img_of before) = 7 /\
  option_map (fun b => (sh_sig (b_sh b), b_sig b, validate_basic (b_sh b))) (served before 8)
    = option_map (fun p => (b_sig p, SigEmpty, false)) (served before 7) /\
  g_height (img_of after) = 8 /\
  option_map (fun b => (sh_sig (b_sh b), b_sig b, validate_basic (b_sh b))) (served after 8)
    = option_map (fun b => (Sig 7 (hdr_of b), Sig 7 (hdr_of b), true)) (served after 8) /\
  option_map hdr_of (served after 8) = option_map hdr_of (served before 8) /\
  served after 8 <> None /\ served after 9 = None.
Proof. vm_compute. repeat split. discriminate. Qed.

(* the execution layer hands back a state root of LENGTH 0 (root id 0 in the harness's numbering: an empty
   root is just another root value, the theorems above quantify over it) for height 2 while the state before
   had root 2: the recorded state root becomes 0 — not the previous root 2 —, block 3 carries AppHash 0 and
   is executed on previous root 0; the maxBytes value ExecuteTxs returns is not an input of [step]
   (block/manager.go:932 discards it): the block built from a batch holds all of its transactions whatever
   was returned (the harness varies the value, the model's prediction does not depend on it) *)
Definition er_history : list item :=
  [ IRun (ABoot (Some 1)); IRun (AStep SNil (EOk 2)); IRun (AStep (SBatch [5; 6] 1000%Z 1) (EOk 0));
    IRun (AStep (SBatch [7; 8; 9] 2000%Z 2) (EOk 4)) ].
Example ex_empty_root :
  map o_res (outputs f1_cfg er_history) = [OBootOk; OCommitted 1; OCommitted 2; OCommitted 3]
  /\ option_map s_app (g_state (img_of (run f1_cfg (firstn 2 er_history)))) = Some 2
  /\ option_map s_app (g_state (img_of (run f1_cfg (firstn 3 er_history)))) = Some 0
  /\ option_map (fun b => h_app (hdr_of b)) (served (run f1_cfg er_history) 2) = Some 2
  /\ option_map (fun b => (h_app (hdr_of b), d_txs (b_data b))) (served (run f1_cfg er_history) 3) = Some (0, [7; 8; 9])
  /\ map o_call (outputs f1_cfg (firstn 4 er_history)) =
       [None; Some (1, [], 0%Z, 1); Some (2, [5; 6], 1000%Z, 2); Some (3, [7; 8; 9], 2000%Z, 0)]
  /\ option_map s_app (g_state (img_of (run f1_cfg er_history))) = Some 4.
Proof. vm_compute. repeat split. Qed.

(* a restart after a FAILED step: the execution layer fails for height 2 (item 3) — the early-saved block 2
   (empty signature record, header signature = that of block 1, ValidateBasic fails) lies above the recorded
   state of height 1; the restart (item 4; its InitChain answer is irrelevant) writes nothing, the store height
   stays 1, height 2 still serves the unsigned pending block and is NOT committed; the next step — whatever the
   sequencer answers — executes, signs and commits exactly that block; then the chain goes on.  The hypotheses
   of (4)/(4') are met at the restart. *)
Definition rs_history : list item :=
  [ IRun (ABoot (Some 1)); IRun (AStep SNil (EOk 2));
    IRun (AStep (SBatch [5; 6] 1000%Z 1) EErr);
    IRun (ABoot (Some 9));
    IRun (AStep SErr (EOk 3));
    IRun (AStep (SBatch [7] 2000%Z 2) (EOk 4)) ].
Example ex_restart_after_failed_step :
  let before := run f1_cfg (firstn 3 rs_history) in
  let after := run f1_cfg (firstn 4 rs_history) in
  crash_free rs_history = true /\
  option_map s_height (g_state (img_of before)) = Some 1 /\
  map o_res (outputs f1_cfg rs_history) = [OBootOk; OCommitted 1; OErrExec; OBootOk; OCommitted 2; OCommitted 3] /\
  map (fun o => List.length (o_ws o)) (outputs f1_cfg rs_history) = [1; 3; 2; 0; 3; 5]%nat /\
  g_height (img_of before) = 1 /\ g_height (img_of after) = 1 /\
  option_map (fun b => (b_sig b, validate_basic (b_sh b))) (served after 2) = Some (SigEmpty, false) /\
  option_map (fun b => (d_txs (b_data b), validate_basic (b_sh b))) (served (run f1_cfg (firstn 5 rs_history)) 2) = Some ([5; 6], true) /\
  option_map hdr_of (served (run f1_cfg (firstn 5 rs_history)) 2) = option_map hdr_of (served before 2) /\
  option_map s_app (g_state (img_of (run f1_cfg rs_history))) = Some 4.
Proof. vm_compute. repeat split. Qed.

(* (4'') FULL.  PROCESS DEATHS inside a production step.  "Permanently unable to produce blocks" must also not be the
   result of the node's process dying in the middle of a step (kill, power loss, a failed write) and being started again:
   histories here are ANY lists of boots, steps, [ICrash a k] (the process dies after k atomic datastore writes of the
   boot or step [a], ANY k), shutdowns — only hand-made damage of cache files is excluded ([untampered]; C04 is about
   what every such image looks like, the three theorems below are C01's reading: valid chain, never wedged).
   (a) Whenever a process runs — after ANY history, crashes anywhere — the committed chain is valid (1) and a
       well-formed pair of responses commits the next block in that very step (2). *)
Theorem C01_running_after_crashes_full : forall (c : cfg) (h : list item),
  wf_cfg c -> forall v, vol_of (run c h) = Some v ->
  ChainValid c (run c h) /\
  forall sq e, wf_resp c (run c h) sq e = true ->
    a_out (step c (img_of (run c h)) v sq e) = OCommitted (g_height (img_of (run c h)) + 1).
Proof. exact running_after_crashes. Qed.
Print Assumptions C01_running_after_crashes_full.

(* (b) After every such history a start-up with a working execution layer succeeds, height, state and blocks agree,
       and a well-formed pair of responses commits the next block in the first step. *)
Theorem C01_restart_after_crashes_full : forall (c : cfg) (h : list item) (r0 : root),
  wf_cfg c -> untampered h = true ->
  let st' := fst (exec_item c (run c h) (IRun (ABoot (Some r0)))) in
  exists v, vol_of st' = Some v /\ ChainValid c st' /\
    forall sq e, wf_resp c st' sq e = true ->
      a_out (step c (img_of st') v sq e) = OCommitted (g_height (img_of st') + 1).
Proof. exact restart_all. Qed.
Print Assumptions C01_restart_after_crashes_full.

(* (c) The one window in which the start-up has something to REPAIR: a commit is two writes, the state and then the
       store height (block/manager.go publishBlockInternal: updateState, store.SetHeight).  After any history, while a
       process runs, a well-formed pair of responses commits H+1 with the writes pre ++ [state; height]; if the process
       dies after the state write and before the height write (k = |pre| + 1) the disk holds the state of H+1 under the
       store height H.  The next start-up — whatever InitChain would answer — succeeds and performs exactly ONE write:
       it raises the store height to H+1 (NewManager: store.SetHeight(s.LastBlockHeight), unconditionally); then
       height, state and blocks agree and a well-formed pair of responses commits H+2 in the very next step.
       ([ex_torn_commit]: WITHOUT that write the next step finds the committed block H+1 as "pending block", executes
       it again and fails validation, for ever.) *)
Theorem C01_torn_commit_restart_full : forall (c : cfg) (h : list item) (v : vol) (sq : seqresp) (e : execresp) (ic : option root),
  wf_cfg c -> untampered h = true -> vol_of (run c h) = Some v -> wf_resp c (run c h) sq e = true ->
  let st := run c h in let H := g_height (img_of st) in
  let r := step c (img_of st) v sq e in
  let st1 := run c (h ++ [ICrash (AStep sq e) (S (length (a_pre r)))]) in
  let r2 := exec_item c st1 (IRun (ABoot ic)) in
  a_out r = OCommitted (H + 1) /\
  g_height (img_of st1) = H /\ option_map s_height (g_state (img_of st1)) = Some (H + 1) /\ vol_of st1 = None /\
  o_res (snd r2) = OBootOk /\ o_ws (snd r2) = [w_height (H + 1)] /\ g_height (img_of (fst r2)) = H + 1 /\
  exists v', vol_of (fst r2) = Some v' /\ ChainValid c (fst r2) /\
    forall sq' e', wf_resp c (fst r2) sq' e' = true ->
      a_out (step c (img_of (fst r2)) v' sq' e') = OCommitted (H + 2).
Proof. exact torn_commit_restart. Qed.
Print Assumptions C01_torn_commit_restart_full.

(* non-vacuity of (4''): the genesis block, block 2, then the process dies while committing block 3 after 4 of the 5
   writes of the step (cursor, early block, final block, state | height): the disk holds the state of height 3 under the
   store height 2.  The restart writes exactly the store height 3 and the chain goes on with block 4.  A process that
   ran on that image WITHOUT the raised height (the recorded state, store height 2) would take the committed block 3
   for the pending block, hand it to the execution layer again on the root AFTER block 3 and fail validation, with
   nothing written: the same in every later step. *)
Definition tc_history : list item :=
  [ IRun (ABoot (Some 1)); IRun (AStep SNil (EOk 2)); IRun (AStep (SBatch [5; 6] 1000%Z 1) (EOk 3));
    ICrash (AStep (SBatch [7] 2000%Z 2) (EOk 4)) 4;
    IRun (ABoot None);
    IRun (AStep (SBatch [8] 3000%Z 3) (EOk 5)) ].
Example ex_torn_commit :
  let before := run f1_cfg (firstn 3 tc_history) in
  let dead := run f1_cfg (firstn 4 tc_history) in
  wf_cfg f1_cfg /\ untampered tc_history = true /\ crash_free tc_history = false /\
  (exists v, vol_of before = Some v /\
     S (length (a_pre (step f1_cfg (img_of before) v (SBatch [7] 2000%Z 2) (EOk 4)))) = 4%nat) /\
  wf_resp f1_cfg before (SBatch [7] 2000%Z 2) (EOk 4) = true /\
  map o_res (outputs f1_cfg tc_history) = [OBootOk; OCommitted 1; OCommitted 2; OCrashed; OBootOk; OCommitted 4] /\
  map (fun o => List.length (o_ws o)) (outputs f1_cfg tc_history) = [1; 3; 5; 4; 1; 5]%nat /\
  g_height (img_of dead) = 2 /\ option_map s_height (g_state (img_of dead)) = Some 3 /\
  o_ws (nth 4 (outputs f1_cfg tc_history) (Build_iout OSkipped None None [] [])) = [w_height 3] /\
  g_height (img_of (run f1_cfg tc_history)) = 4 /\
  (forall s, g_state (img_of dead) = Some s ->
     let r := step f1_cfg (img_of dead) {| v_state := s; v_cursor := g_cursor (img_of dead) |} (SBatch [8] 3000%Z 3) (EOk 5) in
     a_out r = OErrValidate /\ a_ws r = [] /\ option_map (fun x => fst (fst (fst x))) (a_call r) = Some 3).
Proof.
  cbv zeta. split; [split; [vm_compute; discriminate|reflexivity]|].
  split; [reflexivity|]. split; [reflexivity|].
  split; [eexists; split; vm_compute; reflexivity|].
  split; [vm_compute; reflexivity|].
  split; [vm_compute; reflexivity|]. split; [vm_compute; reflexivity|].
  split; [vm_compute; reflexivity|]. split; [vm_compute; reflexivity|].
  split; [vm_compute; reflexivity|]. split; [vm_compute; reflexivity|].
  intros s Hs. vm_compute in Hs. inversion Hs; subst s. vm_compute. repeat split.
Qed.

(* FROM TRANSLATED CODE.  The step and the start-up the histories above are made of are what the Go functions
   themselves do: Manager.publishBlockInternal refines [step] (Props/C04.v, C04_translated_publish_refines_step_full)
   and getInitialState refines [boot] — translated from /repo's source on every run and evaluated by Model/GoLite.v
   against scripted collaborators (Check/GoLiteBoot.v, for ALL worlds): the translated start-up fails exactly when the
   model's does and saves a block — the genesis block, once — exactly when the model's first write is that block; a
   stored state is adopted as it is, no block above it is looked for or adopted. *)
From Verif Require Proofs.GoLiteBootRefine Check.GoLiteBoot.
Theorem C01_translated_boot_refines_model_full : forall (c : cfg) (m : img) (ic : option root),
  exists o, GoLiteBoot.run_boot (GoLiteBootRefine.bworld_of c m ic) = Some o /\
            GoLiteBootRefine.failed o = GoLiteBootRefine.model_failed (boot c m true ic) /\
            GoLiteBootRefine.saved_heights o = GoLiteBootRefine.model_block_heights (boot c m true ic).
Proof. exact GoLiteBootRefine.translated_boot_refines_model. Qed.
Print Assumptions C01_translated_boot_refines_model_full.

(* ================================================================================================ *)
(* The node under its own production loop (normal and lazy mode) — Model/ProducerLoop.v             *)
(* ================================================================================================ *)
(* A history is a list of starts (NewManager, then AggregationLoop is started) and ROUNDS of the running loop, each
   with the responses of the sequencing and execution layer for it; the loop does with the result of a round what
   block/aggregation.go does: a round that returns an error while the node's context is live ends the loop, the
   error is reported and the node halts — the rounds up to the next start find no process.  WHEN rounds happen
   (timers, notifications: the difference between normal and lazy mode) is C17's subject; every theorem here holds
   for every sequence of rounds, hence for both modes. *)

(* (5) FULL.  Safety under the loop: after EVERY such history — whatever was answered, however often the node
   halted and was started again — the committed chain is valid in the sense of (1), height by height as in (1'),
   and what the node serves is as in (3). *)
Theorem C01_loop_chain_valid_full : forall (c : cfg) (h : list act),
  wf_cfg c -> ChainValid c (lrun c h).
Proof. exact loop_chain_valid. Qed.
Print Assumptions C01_loop_chain_valid_full.

Theorem C01_loop_blocks_valid_full : forall (c : cfg) (h : list act),
  wf_cfg c ->
  let st := lrun c h in let m := img_of st in
  forall k, c_initial c <= k -> k <= g_height m ->
  exists r0 s, In r0 (g_inits st) /\ g_state m = Some s /\ s_height s = g_height m /\
               block_facts c (g_block m) (g_built st) (g_execs st) r0 (g_height m) s k.
Proof. exact loop_blocks_valid. Qed.
Print Assumptions C01_loop_blocks_valid_full.

Theorem C01_loop_served_full : forall (c : cfg) (h : list act),
  wf_cfg c ->
  let st := lrun c h in let H := g_height (img_of st) in
  (forall n, c_initial c <= n -> n <= H ->
     exists b, served st n = Some b /\ h_height (hdr_of b) = n /\ served_signed c b) /\
  (forall v b, vol_of st = Some v -> served st (H + 1) = Some b ->
     validate (v_state v) (b_sh (final_block c b)) (b_data (final_block c b)) = true) /\
  (forall n, H + 1 < n -> c_initial c < n -> served st n = None).
Proof. exact loop_served. Qed.
Print Assumptions C01_loop_served_full.

(* (6) FULL.  A transient fault of the sequencing layer never halts the node.  After every history under the loop,
   while the loop runs, a round that the sequencing layer answers with an error — of ANY class: the model has one
   error answer [SErr], the code must treat every error value alike (a request-level deadline or cancellation of
   the sequencer's client is not the node's own context ending) — or with no response / no batch [SNil]:
   (a) if the sequencing layer was asked at all, the round is skipped: nil is returned, nothing is written, durable
       image and process state are unchanged, the loop goes on;
   (b) whatever the round did (a stored pending block is retried without asking), with a working execution layer
       the loop is running afterwards. *)
Theorem C01_loop_survives_sequencer_faults_full : forall (c : cfg) (h : list act),
  wf_cfg c ->
  let st := lrun c h in
  forall v, vol_of st = Some v -> forall sq e, seq_fault sq = true ->
  let r := step c (img_of st) v sq e in
  let st' := fst (loop_item c st (AStep sq e)) in
  (a_req r <> None -> a_out r = OSkipped /\ a_ws r = [] /\ img_of st' = img_of st /\ vol_of st' = Some v) /\
  (e <> EErr -> alive st' = true).
Proof. exact loop_survives_sequencer_faults. Qed.
Print Assumptions C01_loop_survives_sequencer_faults_full.

(* (6') FULL.  Exactly which rounds halt the node: after every history under the loop, a round of the running loop
   hands an error back ONLY IF the execution layer was called in it and failed ("error applying block"; the block
   stays stored as the pending block), or the sequencing layer handed out a NON-EMPTY batch older than the last
   block ("timestamp is not monotonically increasing"; the batch is dropped — the known finding of C11).  The
   other error returns of publishBlockInternal (loading the last block, foreign proposer, validation of the block
   just built or of the stored pending block) are unreachable. *)
Theorem C01_loop_halts_only_on_full : forall (c : cfg) (h : list act),
  wf_cfg c ->
  let st := lrun c h in
  forall v, vol_of st = Some v -> forall sq e,
  let r := step c (img_of st) v sq e in
  round_failed (a_out r) = true ->
  (e = EErr /\ a_out r = OErrExec /\ a_call r <> None) \/
  (exists txs ts cur lt, sq = SBatch txs ts cur /\ txs <> [] /\ a_out r = OErrTime /\ a_call r = None /\
     last_time c st = Some lt /\ (ts < lt)%Z).
Proof. exact loop_halts_only_on. Qed.
Print Assumptions C01_loop_halts_only_on_full.

(* (7) PARTIAL.  Liveness under the loop, guarded by "the loop is running, or the node is started again":
   (a) while the loop runs — after ANY history, in particular after any number of rounds answered by sequencer
       faults, absent or empty batches — a well-formed pair of responses commits the next block in that very round;
   (b) from EVERY state of a history under the loop, halted or not, a (re)start with a working execution layer
       succeeds, everything agrees, a start on a recorded state writes nothing, and a well-formed pair of responses
       commits the next block in the first round.
   What is missing for the unguarded statement: the pinned loops HALT the node, by design, on the two kinds of
   round of (6') — after an execution-layer failure or a refused non-empty batch the node produces again only once
   it has been started again ((7') below: refuted; [ex_loop_halts]; the harness observes the same halts on the real
   AggregationLoop and reports them as known findings).  By (6) no fault of the sequencing layer is among them. *)
Theorem C01_loop_no_wedge_partial : forall (c : cfg) (h : list act),
  wf_cfg c ->
  let st := lrun c h in
  (forall v, vol_of st = Some v -> forall sq e, wf_resp c st sq e = true ->
     a_out (step c (img_of st) v sq e) = OCommitted (g_height (img_of st) + 1)) /\
  (forall r0, let st' := fst (loop_item c st (ABoot (Some r0))) in
     exists v, vol_of st' = Some v /\ ChainValid c st' /\
       (g_state (img_of st) <> None -> img_of st' = img_of st) /\
       forall sq e, wf_resp c st' sq e = true ->
         a_out (step c (img_of st') v sq e) = OCommitted (g_height (img_of st') + 1)).
Proof. exact loop_no_wedge. Qed.
Print Assumptions C01_loop_no_wedge_partial.

(* (7') REFUTED: the unguarded statement — "no sequence of responses leaves the node unable to produce blocks once the
   responses are well-formed again", read for the node under its own loop WITHOUT a restart — is false of the
   faithful model.  [halted_for_good c h sq e] (Proofs/ProducerLoopProofs.v): the configuration is well-formed, after
   the history [h] of starts and rounds the loop has ENDED on its own, the responses [sq], [e] are well-formed, the
   round offering them finds no process, writes nothing and commits nothing — nor do three such rounds — while after
   a restart the very same responses commit the next height.  Witnesses by computation: (a) ONE failure of the
   execution layer (the last round of [h] is answered by EErr, every other answer is well-formed, [h] holds no
   failing start); (b) one NON-EMPTY batch older than the last block, with a working execution layer.
   Both are reproduced on the real AggregationLoop by the harness (known findings of C01:
   production-loop-halted-on-execution-error, production-loop-halted-on-regressed-nonempty-batch; witnesses
   findings/C01-loop-halts-on-*.json are these very histories). *)
Theorem C01_loop_no_wedge_refuted :
  exists (c : cfg) (h : list act) (sq : seqresp) (e : execresp), halted_for_good c h sq e /\
    (exists txs ts cur, last h (ABoot None) = AStep (SBatch txs ts cur) EErr) /\ Forall (fun a => a <> ABoot None) h.
Proof. exact loop_no_wedge_refuted. Qed.
Print Assumptions C01_loop_no_wedge_refuted.

Theorem C01_loop_no_wedge_regressed_batch_refuted :
  exists (c : cfg) (h : list act) (sq : seqresp) (e : execresp), halted_for_good c h sq e /\
    (exists txs ts cur r, last h (ABoot None) = AStep (SBatch txs ts cur) (EOk r) /\ txs <> []).
Proof. exact loop_no_wedge_regressed_batch_refuted. Qed.
Print Assumptions C01_loop_no_wedge_regressed_batch_refuted.

(* non-vacuity and the witness of (7): under the loop — the genesis block, a block, three rounds answered by
   sequencer faults (error, no batch, error: the loop keeps running, nothing is written), a block, an execution
   failure (the loop HALTS the node; the early-saved block 4 stays pending), a round that finds no process, a
   restart (writes nothing), the pending block committed whatever the sequencer answers, a refused non-empty batch
   older than the last block (the loop halts again), a restart and a last block *)
Definition lp_history : list act :=
  [ ABoot (Some 1); AStep SNil (EOk 2); AStep (SBatch [5; 6] 1000%Z 1) (EOk 3);
    AStep SErr (EOk 4); AStep SNil EErr; AStep SErr (EOk 5);
    AStep (SBatch [7] 2000%Z 2) (EOk 6);
    AStep (SBatch [8] 3000%Z 3) EErr;
    AStep (SBatch [9] 4000%Z 4) (EOk 7);
    ABoot (Some 9);
    AStep SErr (EOk 8);
    AStep (SBatch [10] 2500%Z 5) (EOk 9);
    ABoot None;
    AStep (SBatch [11] 5000%Z 6) (EOk 10) ].
Example ex_loop_halts :
  map o_res (loutputs f1_cfg lp_history) =
    [OBootOk; OCommitted 1; OCommitted 2; OSkipped; OSkipped; OSkipped; OCommitted 3; OErrExec; ONotRunning;
     OBootOk; OCommitted 4; OErrTime; OBootOk; OCommitted 5] /\
  map (fun k => alive (lrun f1_cfg (firstn k lp_history))) [1; 4; 5; 6; 7; 8; 9; 10; 11; 12; 13; 14]%nat =
    [true; true; true; true; true; false; false; true; true; false; true; true] /\
  map (fun o => List.length (o_ws o)) (loutputs f1_cfg lp_history) = [1; 3; 5; 0; 0; 0; 5; 2; 0; 0; 3; 1; 0; 5]%nat /\
  option_map (fun b => d_txs (b_data b)) (served (lrun f1_cfg lp_history) 4) = Some [8] /\
  g_height (img_of (lrun f1_cfg lp_history)) = 5.
Proof. vm_compute. repeat split. Qed.

Example ex_loop_hypotheses :
  wf_cfg f1_cfg /\ (exists v, vol_of (lrun f1_cfg (firstn 3 lp_history)) = Some v) /\
  seq_fault SErr = true /\ seq_fault SNil = true /\
  a_req (step f1_cfg (img_of (lrun f1_cfg (firstn 3 lp_history))) {| v_state := genesis_state f1_cfg 1; v_cursor := 1 |} SErr (EOk 4)) <> None /\
  wf_resp f1_cfg (lrun f1_cfg lp_history) (SBatch [12] 5000%Z 7) (EOk 11) = true.
Proof.
  split; [split; [vm_compute; discriminate|reflexivity]|]. split; [eexists; vm_compute; reflexivity|].
  repeat split; try reflexivity. vm_compute. discriminate.
Qed.

(* (8) FULL, FROM TRANSLATED CODE.  The rule by which the model lets a round end the loop ([loop_ends]: the round
   failed and the node's context is live) is what Manager.normalAggregationLoop, Manager.lazyAggregationLoop and
   Manager.produceBlock do: translated from /repo's source on every run (one function per case of their select),
   evaluated against scripted collaborators (Check/GoLiteAggregation.v, for ALL worlds).  Every producing case
   makes one call of m.publishBlock and returns an error — ends the loop — exactly then; the other cases never do. *)
From Verif Require Check.GoLiteAggregation Proofs.ProducerLoopTranslated.
Theorem C01_translated_loops_end_iff_full : forall w : GoLiteAggregation.aworld,
  (exists o, GoLiteAggregation.run_case "Manager.normalAggregationLoop$blockTimer" w = Some o /\
             ProducerLoopTranslated.case_ends o = loop_ends (GoLiteAggregation.a_pub_ok w) (GoLiteAggregation.a_cancel w)) /\
  (exists o, GoLiteAggregation.run_case "Manager.lazyAggregationLoop$lazyTimer" w = Some o /\
             ProducerLoopTranslated.case_ends o = loop_ends (GoLiteAggregation.a_pub_ok w) (GoLiteAggregation.a_cancel w)) /\
  (exists o, GoLiteAggregation.run_case "Manager.lazyAggregationLoop$blockTimer" w = Some o /\
             ProducerLoopTranslated.case_ends o = GoLiteAggregation.a_txs w && loop_ends (GoLiteAggregation.a_pub_ok w) (GoLiteAggregation.a_cancel w)) /\
  (exists o, GoLiteAggregation.run_case "Manager.normalAggregationLoop$txNotifyCh" w = Some o /\ ProducerLoopTranslated.case_ends o = false) /\
  (exists o, GoLiteAggregation.run_case "Manager.lazyAggregationLoop$txNotifyCh" w = Some o /\ ProducerLoopTranslated.case_ends o = false).
Proof. exact ProducerLoopTranslated.translated_loops_end_iff. Qed.
Print Assumptions C01_translated_loops_end_iff_full.

(* ---- the start of NewManager TRANSLATED FROM THE SOURCE (Check/GoLiteStartup.v, regenerated on every run) ----------
   Whenever the initial state was obtained, the start-up asks the store to set its height to EXACTLY the state's
   LastBlockHeight, in every world (go_NewManager_start gives the complete call sequence): the write by which a
   start-up repairs a process that died between the state write and the height write of a block. *)
From Verif Require Check.GoLiteStartup.
Theorem C01_translated_startup_sets_the_height_full : forall w : GoLiteStartup.nworld,
  GoLiteStartup.n_init_ok w = true -> In (GoLiteStartup.height_call w) (snd (GoLiteStartup.start_expect w)).
Proof. exact GoLiteStartup.startup_always_sets_the_height. Qed.
Print Assumptions C01_translated_startup_sets_the_height_full.
