(* Props/C01.v — Sequencer node only ever commits a valid, hash-linked, signed chain; never wedges.
   Statements only; every proof is [exact <lemma of Proofs/ProducerProofs.v>].
   Model: Model/Producer.v (NewManager start-up + publishBlockInternal of block/manager.go), with the
   symbolic block vocabulary of Model/Types.v.  [run c h] = the machine state after history [h] from an
   empty datastore; C01 histories are crash-free ([crash_free h]: boots and production steps only).
   All theorems are for ALL configurations with initial height >= 1 whose signer is the genesis proposer
   ([wf_cfg]), ALL sequences of sequencer responses (SErr | SNil | SBatch txs ts cursor, any txs, any
   timestamps) and ALL execution outcomes (EOk root | EErr, InitChain Some/None), of any length. *)
From Coq Require Import String NArith ZArith List Bool.
From Verif Require Import Base.KV Base.Keys Model.Types Model.Producer Proofs.ProducerProofs.
Import ListNotations.
Open Scope N_scope.

(* (1) FULL.  After every crash-free history either nothing is committed yet (store height below the
   initial height, no state recorded) or heights initial..height form a [chain]: each holds a block
   that (block_valid) passes [Types.validate] — the validation a full node applies — against the state
   obtained by executing all earlier blocks (height = previous + 1, time not earlier, AppHash = the
   root returned for the previous block / by InitChain, DataHash = commitment of its transactions,
   ValidateBasic incl. signature), names the previous header as LastHeaderHash, is signed by the
   configured signer (= genesis proposer), carries exactly the transactions and timestamp of a batch
   taken for that height, was executed on the previous root; and the recorded state is the state after
   the last block. *)
Theorem C01_chain_valid_full : forall (c : cfg) (h : list item),
  wf_cfg c -> crash_free h = true -> ChainValid c (run c h).
Proof. exact chain_valid_crash_free. Qed.
Print Assumptions C01_chain_valid_full.

(* (1') FULL, the same read height by height (see [block_facts] in Proofs/ProducerProofs.v):
   for every committed height k: the stored header has height k and the chain id; k = initial: empty
   LastHeaderHash and AppHash = an InitChain root; k > initial: LastHeaderHash = the header stored at
   k-1 and time(k-1) <= time(k); DataHash = the stored transactions, which with the time are those of
   a batch taken for k; signed by the signer, proposer = genesis proposer, ValidateBasic holds; the
   execution layer was called with (k, txs, time, AppHash(k)) and the root it returned is AppHash(k+1),
   or the recorded state root when k is the last height. *)
Theorem C01_blocks_valid_full : forall (c : cfg) (h : list item),
  wf_cfg c -> crash_free h = true ->
  let st := run c h in let m := img_of st in
  forall k, c_initial c <= k -> k <= g_height m ->
  exists r0 s, In r0 (g_inits st) /\ g_state m = Some s /\ s_height s = g_height m /\
               block_facts c (g_block m) (g_built st) (g_execs st) r0 (g_height m) s k.
Proof. exact blocks_valid_crash_free. Qed.
Print Assumptions C01_blocks_valid_full.

(* (2) REFUTED (a defect of the modelled code, DESIGN section 4 F1).  The statement "whenever a process
   runs, a well-formed pair of responses (a batch not older than the last block, a successful
   execution) commits the next block" is FALSE of the model: after boot, two blocks and one EMPTY batch
   stamped earlier than the last block, the early-saved block fails validation and is re-used as the
   pending block for ever — [wedged]: no pair of responses whatsoever commits a block or changes
   anything again. *)
Theorem C01_no_wedge_refuted :
  ~ (forall c h, wf_cfg c -> crash_free h = true ->
       forall v, vol_of (run c h) = Some v ->
       forall sq e, wf_resp c (run c h) sq e = true ->
       a_out (step c (img_of (run c h)) v sq e) = OCommitted (g_height (img_of (run c h)) + 1))
  /\ exists c h, wf_cfg c /\ crash_free h = true /\ wedged c (run c h).
Proof. exact no_wedge_refuted. Qed.
Print Assumptions C01_no_wedge_refuted.

(* (2') PARTIAL.  Guard [f1_hit c h = false]: no EMPTY batch with a timestamp earlier than the last
   block's was ever taken (decidable on the history).  Then a well-formed pair of responses commits
   the next block in that very step.  Missing for the full property: exactly the guarded histories. *)
Theorem C01_no_wedge_partial : forall (c : cfg) (h : list item),
  wf_cfg c -> crash_free h = true -> f1_hit c h = false ->
  forall v, vol_of (run c h) = Some v ->
  forall sq e, wf_resp c (run c h) sq e = true ->
  a_out (step c (img_of (run c h)) v sq e) = OCommitted (g_height (img_of (run c h)) + 1).
Proof. exact no_wedge_crash_free_guarded. Qed.
Print Assumptions C01_no_wedge_partial.

(* ---- non-vacuity: a concrete history meeting every hypothesis: initial height 5, a failed first start,
   the genesis block, a two-transaction block, an empty block with an EQUAL timestamp, a transient
   sequencer error, an absent batch, a non-empty batch with a regressed timestamp (refused), an
   execution error followed by the retry of the stored block, and a last block --------------------- *)
Definition ex_cfg : cfg := {| c_chain := 3; c_initial := 5; c_gtime := 100%Z; c_key := 7; c_gaddr := Addr 7 |}.
Definition ex_history : list item :=
  [ IRun (ABoot None); IRun (ABoot (Some 1));
    IRun (AStep SNil (EOk 2));
    IRun (AStep (SBatch [10; 11] 200%Z 1) (EOk 3));
    IRun (AStep (SBatch [] 200%Z 2) (EOk 4));
    IRun (AStep SErr (EOk 5));
    IRun (AStep SNil (EOk 6));
    IRun (AStep (SBatch [12] 150%Z 3) (EOk 7));
    IRun (AStep (SBatch [13] 300%Z 4) EErr);
    IRun (AStep SErr (EOk 8)) ].

Example ex_hypotheses :
  wf_cfg ex_cfg /\ crash_free ex_history = true /\ f1_hit ex_cfg ex_history = false /\
  (exists v, vol_of (run ex_cfg ex_history) = Some v) /\
  wf_resp ex_cfg (run ex_cfg ex_history) (SBatch [14] 300%Z 9) (EOk 9) = true.
Proof.
  split; [split; [vm_compute; discriminate|reflexivity]|].
  split; [reflexivity|]. split; [vm_compute; reflexivity|]. split; [eexists; vm_compute; reflexivity|].
  vm_compute; reflexivity.
Qed.

Example ex_outcomes :
  map o_res (outputs ex_cfg ex_history) =
  [ OBootFailInit; OBootOk; OCommitted 5; OCommitted 6; OCommitted 7; OSkipped; OSkipped; OErrTime; OErrExec; OCommitted 8 ]
  /\ g_height (img_of (run ex_cfg ex_history)) = 8
  /\ option_map s_app (g_state (img_of (run ex_cfg ex_history))) = Some 8.
Proof. vm_compute. repeat split. Qed.

(* the refutation witness itself is a reachable, well-formed history *)
Example ex_f1_witness :
  crash_free f1_history = true /\ f1_hit wcfg f1_history = true /\
  map o_res (outputs wcfg f1_history) = [OBootOk; OCommitted 1; OCommitted 2; OErrValidate].
Proof. vm_compute. repeat split. Qed.
