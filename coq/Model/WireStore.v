(* Model/WireStore.v — the block-store path of the wire values (property C12: "... yields an equal value ...
   whichever path it travelled (block store, DA blob, P2P, cache file)").  Definitions ONLY.

   What is modelled: /repo/pkg/store/store.go, the methods through which wire values travel
     UpdateState(state)             State.ToProto + proto.Marshal, one Put under /s                     :190-200
     GetState()                     Get /s, proto.Unmarshal into a NEW pb.State, FromProto into a NEW State :203-219
     SaveBlockData(header, data, signature)
                                    header.MarshalBinary, data.MarshalBinary; ONE batch: Put /h/<height>,
                                    Put /d/<height>, Put /c/<height> (the signature bytes as they are)     :71-114
     GetHeader(height)              Get /h/<height>, UnmarshalBinary into a NEW SignedHeader               :166-176
     GetBlockData(height)           GetHeader, then Get /d/<height>, UnmarshalBinary into a NEW Data        :117-132
     GetSignature(height)           Get /c/<height>, the bytes as they are                                 :179-186
     store.New(ds)                  a DefaultStore holds NOTHING but the datastore                         :18-29
   The node keeps ONE DefaultStore over ONE datastore for its whole life and reads the same keys again and
   again (every block: GetState, GetBlockData of the previous height, ...), handing the returned values to the
   executor, the RPC server, the submitter.  So the model is a HISTORY machine over one datastore: [sstep] / [srun].

   The state of the machine is the DATASTORE and nothing else: on the pinned tree every read allocates the value it
   returns (a new State / SignedHeader / Data, FromProto copies every byte field) and the store object keeps no
   reference to anything it returned or was given.  What a caller later does with a value it got from the store, or
   with a value it passed to a write (overwrite its byte slices in place, re-use them as scratch), is therefore
   not an input of [sstep]; the harness does exactly that after EVERY read and EVERY write of a history and the
   real store's later answers must still be the ones of this machine.  [SReopen] (a new DefaultStore over the same
   datastore — a restart) is a step that changes nothing, for the same reason.

   What is NOT modelled: the key strings (heights stand for /h/<height>, /d/<height>, /c/<height>; property C14
   owns the key layout), the hash index /i/<hash> and the reads through it (GetBlockByHash, GetSignatureByHash =
   a height looked up in the index, then the reads above), the height key /t, the metadata keys /m/..., datastore
   errors (a Get that fails for another reason than "not found", a failing Put). *)
From Coq Require Import NArith ZArith List Bool.
From Verif Require Import Model.Wire Model.WireCache.
Import ListNotations.
Open Scope N_scope.

(* the datastore, as far as the wire values are concerned *)
Record sdb := {
  db_state : option bytes;          (* /s *)
  db_headers : list (N * bytes);    (* /h/<height> *)
  db_datas : list (N * bytes);      (* /d/<height> *)
  db_sigs : list (N * bytes) }.     (* /c/<height> *)
Definition db_empty : sdb := {| db_state := None; db_headers := []; db_datas := []; db_sigs := [] |}.

(* one call on the store *)
Inductive sop :=
| SUpdateState (v : wstate)
| SGetState
| SSaveBlock (sh : wsigned_header) (d : wdata) (sig : bytes)
| SGetHeader (h : N)
| SGetBlock (h : N)
| SGetSig (h : N)
| SReopen.          (* store.New over the same datastore; the old store object is dropped *)

(* what the call returned (None = an error) *)
Inductive sres :=
| RDone (ok : bool)
| RState (o : option wstate)
| RHeader (o : option wsigned_header)
| RBlock (o : option (wsigned_header * wdata))
| RSig (o : option bytes).

Section WithPubKeys.
Variable pk_canon : bytes -> option bytes.

(* ---- the reads: functions of the stored bytes ---- *)
(* GetState (store.go:203-219) *)
Definition get_state (db : sdb) : option wstate :=
  match db_state db with Some bs => dec_state bs | None => None end.
(* GetHeader (store.go:166-176) *)
Definition get_header (db : sdb) (h : N) : option wsigned_header :=
  match mget N.eqb (db_headers db) h with Some bs => dec_signed_header pk_canon bs | None => None end.
(* GetBlockData (store.go:117-132): header first, then the data *)
Definition get_block (db : sdb) (h : N) : option (wsigned_header * wdata) :=
  match get_header db h with
  | None => None
  | Some sh => match mget N.eqb (db_datas db) h with
               | None => None
               | Some bs => match dec_data bs with Some d => Some (sh, d) | None => None end
               end
  end.
(* GetSignature (store.go:179-186) *)
Definition get_sig (db : sdb) (h : N) : option bytes := mget N.eqb (db_sigs db) h.

(* ---- the writes: (the datastore afterwards, no error returned) ---- *)
(* UpdateState (store.go:190-200): proto.Marshal fails on a chain id that is not UTF-8; nothing is written then *)
Definition update_state (db : sdb) (v : wstate) : sdb * bool :=
  match marshal_state v with
  | Some bs => ({| db_state := Some bs; db_headers := db_headers db; db_datas := db_datas db; db_sigs := db_sigs db |}, true)
  | None => (db, false)
  end.
(* SaveBlockData (store.go:71-114): both blobs are produced before the batch is opened; the three Puts are one
   batch.  The height is the header's. *)
Definition save_block (db : sdb) (sh : wsigned_header) (d : wdata) (sig : bytes) : sdb * bool :=
  match marshal_signed_header sh, marshal_data d with
  | Some hb, Some dbs =>
      let h := h_height (sh_header sh) in
      ({| db_state := db_state db; db_headers := mset N.eqb (db_headers db) h hb;
          db_datas := mset N.eqb (db_datas db) h dbs; db_sigs := mset N.eqb (db_sigs db) h sig |}, true)
  | _, _ => (db, false)
  end.

(* ---- one step ---- *)
Definition sstep (db : sdb) (o : sop) : sdb * sres :=
  match o with
  | SUpdateState v => let '(db', ok) := update_state db v in (db', RDone ok)
  | SGetState => (db, RState (get_state db))
  | SSaveBlock sh d sig => let '(db', ok) := save_block db sh d sig in (db', RDone ok)
  | SGetHeader h => (db, RHeader (get_header db h))
  | SGetBlock h => (db, RBlock (get_block db h))
  | SGetSig h => (db, RSig (get_sig db h))
  | SReopen => (db, RDone true)
  end.

(* the datastore after a list of steps *)
Definition sexec (db : sdb) (ops : list sop) : sdb := fold_left (fun s o => fst (sstep s o)) ops db.

(* what is observable after a step: what the call returned, and the datastore *)
Definition sobs : Type := sres * sdb.
Fixpoint srun (db : sdb) (ops : list sop) : list sobs :=
  match ops with
  | [] => []
  | o :: rest => let '(db', r) := sstep db o in (r, db') :: srun db' rest
  end.
(* a history: a store opened over a datastore that holds [d0] (ANY bytes: whatever an earlier life of the node,
   an older version of it, or anything else left there) *)
Definition store_history (d0 : sdb) (ops : list sop) : list sobs := srun d0 ops.
End WithPubKeys.

(* the steps that write (everything else is a read or a reopen) *)
Definition is_write (o : sop) : bool :=
  match o with SUpdateState _ | SSaveBlock _ _ _ => true | _ => false end.
Definition is_update_state (o : sop) : bool := match o with SUpdateState _ => true | _ => false end.
(* a SaveBlockData of a block of height [h] *)
Definition saves_height (h : N) (o : sop) : bool :=
  match o with SSaveBlock sh _ _ => h_height (sh_header sh) =? h | _ => false end.
