(* Model/Throttle.v — the pending-submission limit of the aggregator (property C08).  Definitions only.

   Self-contained model of the arithmetic that decides whether publishBlockInternal produces a block, and of
   everything that moves the two numbers it looks at:
     block/manager.go        publishBlockInternal (the MaxPendingHeadersAndData check), NewManager (both
                             watermarks start at InitialHeight-1 when InitialHeight > 1)
     block/pending_base.go   numPending (uint64 subtraction), getPending, setLastSubmittedHeight, init
     block/pending_data.go   numWaitingData  (the C08 repair: data without transactions does not wait)
     block/submitter.go      the bodies of HeaderSubmissionLoop / DataSubmissionLoop, submitToDA (30 attempts),
                             the two postSubmit callbacks, createSignedDataToSubmit (skips empty data)
   The DA layer is an input: every submission iteration takes the list of answers the DA layer gives to the
   successive calls (accept k blobs | accept all | failure); when the list is used up the caller's context is
   cancelled.  The DA layer answers truthfully (no lost acknowledgements: that is C06's subject).
   Ghost fields t_dah / t_dad record which heights the DA layer accepted; the code never reads them. *)
From Coq Require Import NArith List Bool.
Import ListNotations.
Open Scope N_scope.

(* ---- uint64 -------------------------------------------------------------------------------------- *)
Definition two64 : N := 18446744073709551616.
(* Go: a - b on uint64 (pending_base.go numPending: height - pb.lastHeight.Load()), for a, b < 2^64 *)
Definition sub64 (a b : N) : N := if b <=? a then a - b else two64 - (b - a).

(* the heights a, a+1, …, a+n-1 *)
Fixpoint seqN (a : N) (n : nat) : list N :=
  match n with O => [] | S n' => a :: seqN (a + 1) n' end.

Definition memN (x : N) (l : list N) : bool := existsb (N.eqb x) l.

(* ---- configuration and state -------------------------------------------------------------------- *)
Record cfg := mk_cfg {
  c_init : N;      (* genesis.InitialHeight *)
  c_limit : N      (* config.Node.MaxPendingHeadersAndData; 0 = no limit *)
}.

Record state := mk_state {
  t_height : N;        (* store.Height() *)
  t_nes : list N;      (* heights of the committed blocks that carry transactions *)
  t_wh : N;            (* pendingHeaders.base.lastHeight (in memory) *)
  t_ph : N;            (* metadata "last-submitted-header-height", 0 = absent *)
  t_wd : N;            (* pendingData.base.lastHeight (in memory) *)
  t_pd : N;            (* metadata "last-submitted-data-height", 0 = absent *)
  t_dah : list N;      (* ghost: heights whose header the DA layer accepted, in order *)
  t_dad : list N       (* ghost: heights whose signed data the DA layer accepted, in order *)
}.

Definition nonempty (s : state) (h : N) : bool := memN h (t_nes s).

(* pending_base.go setLastSubmittedHeight: only forward; the new value is recorded in the metadata *)
Definition set_mark (wp : N * N) (x : N) : N * N := if fst wp <? x then (x, x) else wp.

(* pending_base.go init + manager.go NewManager: lastHeight := recorded value (a recorded 0 counts as absent);
   then, if InitialHeight > 1, CompareAndSwap(0, InitialHeight-1) *)
Definition boot_mark (c : cfg) (p : N) : N := if (1 <? c_init c) && (p =? 0) then c_init c - 1 else p.

(* first start on an empty datastore: getInitialState stores the (empty) genesis block at InitialHeight and
   NewManager sets the store height to InitialHeight-1 *)
Definition init_state (c : cfg) : state :=
  mk_state (c_init c - 1) [] (boot_mark c 0) 0 (boot_mark c 0) 0 [] [].

(* restart: NewManager on the same datastore (store height = height of the recorded state) *)
Definition restart (c : cfg) (s : state) : state :=
  mk_state (t_height s) (t_nes s) (boot_mark c (t_ph s)) (t_ph s) (boot_mark c (t_pd s)) (t_pd s) (t_dah s) (t_dad s).

(* pending_base.go getPending: the heights lastSubmitted+1 … height; None = the error "height of last
   submitted item is greater than height of last item" *)
Definition get_pending (w h : N) : option (list N) :=
  if w =? h then Some [] else if h <? w then None else Some (seqN (w + 1) (N.to_nat (h - w))).

(* ---- block production --------------------------------------------------------------------------- *)
(* pending_data.go numWaitingData: count the pending data items that carry transactions; empty items met
   before the first such item move the data watermark (setLastSubmittedDataHeight). *)
Fixpoint waiting_loop (s : state) (hs : list N) (waiting : N) (wp : N * N) : N * (N * N) :=
  match hs with
  | [] => (waiting, wp)
  | h :: r => if nonempty s h then waiting_loop s r (waiting + 1) wp
              else if waiting =? 0 then waiting_loop s r waiting (set_mark wp h)
              else waiting_loop s r waiting wp
  end.
Definition num_waiting (s : state) : N * (N * N) :=
  let pending := match get_pending (t_wd s) (t_height s) with Some l => l | None => [] end in
  waiting_loop s pending 0 (t_wd s, t_pd s).

(* manager.go publishBlockInternal, the limit check:
     L != 0 && (numPendingHeaders() >= L || (numPendingData() >= L && numWaitingData(ctx) >= L))
   returns (refused, state after the side effect of numWaitingData) *)
Definition limit_check (c : cfg) (s : state) : bool * state :=
  let L := c_limit c in
  if L =? 0 then (false, s)
  else if L <=? sub64 (t_height s) (t_wh s) then (true, s)
  else if L <=? sub64 (t_height s) (t_wd s) then
    let '(n, (w, p)) := num_waiting s in
    (L <=? n, mk_state (t_height s) (t_nes s) (t_wh s) (t_ph s) w p (t_dah s) (t_dad s))
  else (false, s).

Definition refused (c : cfg) (s : state) : bool := fst (limit_check c s).

(* one production attempt with a sequencer that hands out a batch with (ne = true) or without transactions.
   The block at the initial height is the stored genesis block ("using pending block"): always empty. *)
Definition produce (c : cfg) (s : state) (ne : bool) : state :=
  let '(r, s1) := limit_check c s in
  if r then s1
  else let h := t_height s1 + 1 in
       let ne' := ne && negb (h <=? c_init c) in
       mk_state h (if ne' then h :: t_nes s1 else t_nes s1) (t_wh s1) (t_ph s1) (t_wd s1) (t_pd s1) (t_dah s1) (t_dad s1).

(* n production attempts in a row with a sequencer that has no transactions (an idle stretch); also returns
   how many of them were refused.  Run-length form of IProduce false, so that long idle stretches stay small
   in the harness's case files. *)
Fixpoint produce_n (c : cfg) (s : state) (n : nat) : state * N :=
  match n with
  | O => (s, 0)
  | S k => let r := refused c s in
           let '(s2, m) := produce_n c (produce c s false) k in
           (s2, (if r then 1 else 0) + m)
  end.

(* ---- DA submission -------------------------------------------------------------------------------- *)
Inductive outcome :=
| OAccept (k : N)     (* the DA layer takes the first min(k, n) blobs of the call *)
| OAcceptAll          (* … all of them *)
| OFail.              (* any failure status (they differ in backoff and gas price only) *)

Definition max_attempts : nat := 30.   (* block/manager.go maxSubmitAttempts *)

(* submitter.go submitToDA: for !submittedAll && attempt < maxSubmitAttempts.  rem = heights of the remaining
   items; wp = (watermark, recorded watermark).  Returns (blob heights of every DA call, accepted heights,
   error?, marks).  Script used up = context cancelled = return nil.  A success answer with zero ids for a
   non-empty call is an error status (types.SubmitWithHelpers). postSubmit: watermark := height of the last
   submitted item. *)
Fixpoint submit_loop (fuel : nat) (rem : list N) (sc : list outcome) (wp : N * N)
  : list (list N) * list N * bool * (N * N) :=
  match fuel with
  | O => ([], [], true, wp)
  | S f =>
    match sc with
    | [] => ([], [], false, wp)
    | o :: sc' =>
      let take := match o with OAccept k => Nat.min (N.to_nat k) (length rem) | OAcceptAll => length rem | OFail => O end in
      match take with
      | O => let '(cs, acc, e, wp') := submit_loop f rem sc' wp in (rem :: cs, acc, e, wp')
      | _ =>
        let sub := firstn take rem in
        let rest := skipn take rem in
        let wp1 := set_mark wp (last sub 0) in
        match rest with
        | [] => ([rem], sub, false, wp1)
        | _ => let '(cs, acc, e, wp') := submit_loop f rest sc' wp1 in (rem :: cs, sub ++ acc, e, wp')
        end
      end
    end
  end.

(* what an item did, as the harness sees it *)
Record obs := mk_obs {
  o_res : N;                 (* produce: 0 produced 1 refused; iteration: 0 idle 1 nothing to submit 2 getPending error 3 nil 4 error; restart 0 *)
  o_calls : list (list N);   (* blob heights of each DA call *)
  o_height : N; o_wh : N; o_wd : N; o_ph : N; o_pd : N
}.
Definition observe (r : N) (cs : list (list N)) (s : state) : obs :=
  mk_obs r cs (t_height s) (t_wh s) (t_wd s) (t_ph s) (t_pd s).

(* submitter.go HeaderSubmissionLoop, one tick *)
Definition headers_iter (s : state) (sc : list outcome) : state * (N * list (list N)) :=
  if t_wh s =? t_height s then (s, (0, []))                        (* isEmpty *)
  else match get_pending (t_wh s) (t_height s) with
       | None => (s, (2, []))
       | Some [] => (s, (1, []))
       | Some items =>
         let '(cs, acc, e, (w, p)) := submit_loop max_attempts items sc (t_wh s, t_ph s) in
         (mk_state (t_height s) (t_nes s) w p (t_wd s) (t_pd s) (t_dah s ++ acc) (t_dad s), ((if e then 4 else 3), cs))
       end.

(* submitter.go DataSubmissionLoop, one tick; createSignedDataToSubmit keeps the data with transactions *)
Definition data_iter (s : state) (sc : list outcome) : state * (N * list (list N)) :=
  if t_wd s =? t_height s then (s, (0, []))                        (* isEmpty *)
  else match get_pending (t_wd s) (t_height s) with
       | None => (s, (2, []))
       | Some pending =>
         match filter (nonempty s) pending with
         | [] => (s, (1, []))
         | items =>
           let '(cs, acc, e, (w, p)) := submit_loop max_attempts items sc (t_wd s, t_pd s) in
           (mk_state (t_height s) (t_nes s) (t_wh s) (t_ph s) w p (t_dah s) (t_dad s ++ acc), ((if e then 4 else 3), cs))
         end
       end.

(* ---- histories ------------------------------------------------------------------------------------ *)
Inductive item :=
| IProduce (ne : bool)
| IProduceEmptyN (n : N)      (* n times IProduce false; observed: the number of refused attempts *)
| IHeaders (sc : list outcome)
| IData (sc : list outcome)
| IRestart.

Definition step (c : cfg) (s : state) (i : item) : state * obs :=
  match i with
  | IProduce ne => let s' := produce c s ne in (s', observe (if refused c s then 1 else 0) [] s')
  | IProduceEmptyN n => let '(s', m) := produce_n c s (N.to_nat n) in (s', observe m [] s')
  | IHeaders sc => let '(s', (r, cs)) := headers_iter s sc in (s', observe r cs s')
  | IData sc => let '(s', (r, cs)) := data_iter s sc in (s', observe r cs s')
  | IRestart => let s' := restart c s in (s', observe 0 [] s')
  end.

Fixpoint run_from (c : cfg) (s : state) (h : list item) : state * list obs :=
  match h with
  | [] => (s, [])
  | i :: r => let '(s1, o) := step c s i in let '(s2, os) := run_from c s1 r in (s2, o :: os)
  end.
Definition run (c : cfg) (h : list item) : state * list obs := run_from c (init_state c) h.
Definition final (c : cfg) (h : list item) : state := fst (run c h).

(* ---- what the property talks about ------------------------------------------------------------------ *)
(* the committed heights *)
Definition committed (c : cfg) (s : state) : list N := seqN (c_init c) (N.to_nat (t_height s + 1 - c_init c)).
(* a committed block still waits for the DA layer: its header, or its non-empty data, has not been accepted *)
Definition waits (s : state) (h : N) : bool :=
  negb (memN h (t_dah s)) || (nonempty s h && negb (memN h (t_dad s))).
Definition num_waiting_blocks (c : cfg) (s : state) : N := N.of_nat (length (filter (waits s) (committed c s))).
