(* Model/Proxy.v — C16: a DA layer reached through da/jsonrpc (client + server) next to the same DA layer
   called in-process, as seen by the node's helpers types.SubmitWithHelpers / types.RetrieveWithHelpers.

   Definitions only (proofs: Proofs/ProxyProofs.v).  The model is of the tree WITH the repair
   fixes/C16-submit-error-identity.diff applied (da/jsonrpc/errors.go wireError, client.go Submit /
   SubmitWithOptions, types/da.go cancellation test).

   What is external is an input: the backing DA is a function from the call it receives to its answer
   ([backend], [gresult], [getfn]); the texts of the sentinel errors are a [table] value that the harness
   reads from the linked core/da package on every run (cases_C16.v: [live_tbl]). *)
From Coq Require Import String Ascii NArith List Bool.
Import ListNotations.
Open Scope string_scope.
Open Scope list_scope.

(* ---- strings.Contains ---------------------------------------------------------------------------- *)
Fixpoint contains (s t : string) : bool :=          (* strings.Contains(s, t) *)
  String.prefix t s || match s with EmptyString => false | String _ r => contains r t end.

(* ---- core/da/errors.go: the sentinel errors the DA interface defines ------------------------------ *)
Inductive sentinel :=
  | SNotFound      (* ErrBlobNotFound *)
  | STooBig        (* ErrBlobSizeOverLimit *)
  | STimedOut      (* ErrTxTimedOut *)
  | SMempool       (* ErrTxAlreadyInMempool *)
  | SSeq           (* ErrTxIncorrectAccountSequence *)
  | SDeadline      (* ErrContextDeadline *)
  | SFuture        (* ErrHeightFromFuture *)
  | SCanceled.     (* ErrContextCanceled *)

Definition all_sentinels := [SNotFound; STooBig; STimedOut; SMempool; SSeq; SDeadline; SFuture; SCanceled].

Definition sentinel_eqb (a b : sentinel) : bool :=
  match a, b with
  | SNotFound, SNotFound | STooBig, STooBig | STimedOut, STimedOut | SMempool, SMempool
  | SSeq, SSeq | SDeadline, SDeadline | SFuture, SFuture | SCanceled, SCanceled => true
  | _, _ => false
  end.

(* the Error() text of each sentinel and of context.Canceled — regenerated from the linked Go package *)
Record table := mk_table {
  t_notfound : string; t_toobig : string; t_timedout : string; t_mempool : string; t_seq : string;
  t_deadline : string; t_future : string; t_canceled : string;
  t_ctx : string                                   (* context.Canceled.Error() *)
}.

Definition txt (T : table) (s : sentinel) : string :=
  match s with
  | SNotFound => t_notfound T | STooBig => t_toobig T | STimedOut => t_timedout T | SMempool => t_mempool T
  | SSeq => t_seq T | SDeadline => t_deadline T | SFuture => t_future T | SCanceled => t_canceled T
  end.

(* ---- a Go error value, as far as this code can tell errors apart ------------------------------------ *)
Record err := mk_err {
  e_is : list sentinel;      (* the sentinels s with errors.Is(err, s) *)
  e_ctx : bool;              (* errors.Is(err, context.Canceled) *)
  e_msg : string             (* err.Error() *)
}.

Definition is_sent (e : err) (s : sentinel) : bool := existsb (sentinel_eqb s) (e_is e).

Definition sent_err (T : table) (s : sentinel) : err := mk_err [s] false (txt T s).   (* the bare sentinel *)
Definition ctx_err (T : table) : err := mk_err [] true (t_ctx T).                     (* context.Canceled *)

(* ---- the wire: da/jsonrpc/server.go + go-jsonrpc handler.createError / JSONRPCError.val ----------------
   errors.go registers every code for the interface type `error`, the server looks codes up by the
   error's dynamic type, so every error leaves with code 1 and its message, and arrives as a
   *JSONRPCError: no identity survives, the text does. *)
Definition wire_err (e : err) : err := mk_err [] false (e_msg e).

(* da/jsonrpc/server.go serverInternalAPI.{Get, GetIDs, Submit, SubmitWithOptions} (lines 34-72): each handler
   is `return s.daImpl.X(...)` — the backing DA's answer, the error included, is handed to go-jsonrpc as it
   is: whatever its length, and wherever in it a sentinel's text stands.  [wire_err (server_err e)] is what
   leaves the server for a backend error [e]; the harness compares the TEXT the client side hands to the
   node's helper with [e_msg] of the model's answer for every generated length (Check.ProxyCheck codes 7, 8). *)
Definition server_err (e : err) : err := e.

(* a request that fails in transport because the caller's context is cancelled: the client library's
   error text ends in context.Canceled's text *)
Definition transport_cancel_err (T : table) : err := mk_err [] false (t_ctx T).

(* ---- da/jsonrpc/client.go Submit / SubmitWithOptions, error branch (lines 130-139 / 183-193) --------
   strings.Contains(err.Error(), "context canceled") -> context.Canceled; otherwise wireError{err}
   (errors.go): Is(s) = the message contains s's text, for the eight sentinels; Unwrap -> err. *)
Definition client_submit_err (T : table) (w : err) : err :=
  if contains (e_msg w) (t_ctx T) then ctx_err T
  else mk_err (filter (fun s => contains (e_msg w) (txt T s) || is_sent w s) all_sentinels) (e_ctx w) (e_msg w).

(* ---- core/da/da.go status codes ---------------------------------------------------------------------- *)
Inductive status := StUnknown | StSuccess | StNotFound | StNotIncluded | StMempool | StTooBig | StDeadline
                  | StError | StSeq | StCanceled | StFuture.

(* ---- types/da.go SubmitWithHelpers, error classification (lines 31-54) --------------------------------- *)
Definition classify_submit (e : err) : status :=
  if e_ctx e || is_sent e SCanceled then StCanceled
  else if is_sent e STimedOut then StNotIncluded
  else if is_sent e SMempool then StMempool
  else if is_sent e SSeq then StSeq
  else if is_sent e STooBig then StTooBig
  else if is_sent e SDeadline then StDeadline
  else StError.

(* ---- submit ------------------------------------------------------------------------------------------------ *)
(* what a DA answers to SubmitWithOptions: ids (as positions of the blobs they were minted for) and the
   height encoded in the first id, or an error (ids together with an error are outside the model) *)
Inductive sresult := SRes (ids : list N) (h : N) | SFail (e : err).
Definition backend := list N -> sresult.          (* blob sizes received -> answer *)

Record sobs := mk_sobs { so_code : status; so_ids : list N; so_count : N; so_height : N }.

(* types/da.go SubmitWithHelpers (lines 28-95); ndata = len(data) *)
Definition submit_helper (ndata : nat) (r : sresult) : sobs :=
  match r with
  | SFail e => mk_sobs (classify_submit e) [] 0 0
  | SRes [] _ => match ndata with O => mk_sobs StSuccess [] 0 0 | S _ => mk_sobs StError [] 0 0 end
  | SRes ids h => mk_sobs StSuccess ids (N.of_nat (length ids)) h
  end.

(* a backing DA that honours an already cancelled context (returns ctx.Err()) *)
Definition honour_s (T : table) (cancelled : bool) (b : backend) : backend :=
  fun l => if cancelled then SFail (ctx_err T) else b l.

Definition direct_submit (T : table) (b : backend) (cancelled : bool) (sizes : list N) : sobs * list (list N) :=
  (submit_helper (length sizes) (honour_s T cancelled b sizes), if cancelled then [] else [sizes]).

(* client.go SubmitWithOptions lines 153-166: the size filter.  Returns (blobsToSubmit, oversizeBlobs > 0). *)
Fixpoint filter_loop (max cur : N) (l : list N) : list N * bool :=
  match l with
  | [] => ([], false)
  | b :: r =>
      if (max <? b)%N then (fst (filter_loop max cur r), true)            (* oversizeBlobs++; continue *)
      else if (max <? cur + b)%N then ([], false)                          (* break *)
      else let p := filter_loop max (cur + b)%N r in (b :: fst p, snd p)   (* currentSize += blobLen; append *)
  end.

Definition wire_sresult (r : sresult) : sresult :=
  match r with SRes ids h => SRes ids h | SFail e => SFail (wire_err (server_err e)) end.
Definition client_sresult (T : table) (r : sresult) : sresult :=
  match r with SRes ids h => SRes ids h | SFail w => SFail (client_submit_err T w) end.

(* the RPC round trip of one SubmitWithOptions: transport failure if the caller's context is cancelled
   (the backend is not reached), else server -> backend -> wire *)
Definition rpc_submit (T : table) (b : backend) (cancelled : bool) (l : list N) : sresult * list (list N) :=
  if cancelled then (SFail (transport_cancel_err T), []) else (wire_sresult (b l), [l]).

(* client.go SubmitWithOptions (lines 144-194) under SubmitWithHelpers; second component = what reached the backend *)
Definition proxied_submit (T : table) (max : N) (b : backend) (cancelled : bool) (sizes : list N) : sobs * list (list N) :=
  let n := length sizes in
  let p := filter_loop max 0 sizes in
  if snd p then (submit_helper n (SFail (sent_err T STooBig)), [])             (* lines 168-171 *)
  else match fst p with
       | [] => match sizes with
               | [] => (submit_helper n (SRes [] 0), [])                        (* line 178: []da.ID{}, nil — no call *)
               | _ => (submit_helper n (SFail (sent_err T STooBig)), [])        (* line 176 *)
               end
       | taken => let q := rpc_submit T b cancelled taken in
                  (submit_helper n (client_sresult T (fst q)), snd q)
       end.

(* ---- the answer the node's helper is handed (before it is classified) ------------------------------------
   [direct_answer]: by the DA itself; [proxied_answer]: by client.go SubmitWithOptions (same branches as
   [proxied_submit], see Proofs.ProxyProofs.proxied_submit_answer).  [answer_text]: err.Error() of it. *)
Definition direct_answer (T : table) (b : backend) (cancelled : bool) (sizes : list N) : sresult :=
  honour_s T cancelled b sizes.

Definition proxied_answer (T : table) (max : N) (b : backend) (cancelled : bool) (sizes : list N) : sresult :=
  let p := filter_loop max 0 sizes in
  if snd p then SFail (sent_err T STooBig)
  else match fst p with
       | [] => match sizes with [] => SRes [] 0 | _ => SFail (sent_err T STooBig) end
       | taken => client_sresult T (fst (rpc_submit T b cancelled taken))
       end.

Definition answer_text (r : sresult) : option string :=
  match r with SFail e => Some (e_msg e) | SRes _ _ => None end.

(* core/da/dummy.go SubmitWithOptions lines 182-215 (DummyDA with limit L, height 0 -> ids at height 1) *)
Fixpoint dummy_loop (L cur : N) (l : list N) : option (list N) :=
  match l with
  | [] => Some []
  | b :: r => if (L <? b)%N then None                                       (* return nil, ErrBlobSizeOverLimit *)
              else if (L <? cur + b)%N then Some []                         (* break *)
              else option_map (cons b) (dummy_loop L (cur + b)%N r)
  end.

Fixpoint iota_from (i : N) (n : nat) : list N := match n with O => [] | S k => i :: iota_from (i + 1)%N k end.
Definition iota (n : nat) : list N := iota_from 0 n.

Definition dummy_backend (T : table) (L : N) : backend :=
  fun l => match dummy_loop L 0 l with
           | None => SFail (sent_err T STooBig)
           | Some t => SRes (iota (length t)) 1
           end.

(* ---- retrieve ------------------------------------------------------------------------------------------------- *)
Inductive gresult := GNil | GRes (ids : list N) (ts : N) | GErr (e : err).      (* GetIDs: (nil,nil) | result | error *)
Inductive bresult := BOk (blobs : list N) | BErr (e : err).                     (* Get *)
Definition getfn := list N -> bresult.

Record robs := mk_robs { ro_code : status; ro_ids : list N; ro_blobs : list N; ro_ts : N; ro_gets : N }.

(* chunks of n, in order (types/da.go lines 156-160: batchSize = 100) *)
Fixpoint chunks_go {A} (n k : nat) (cur : list A) (l : list A) : list (list A) :=
  match l with
  | [] => match cur with [] => [] | _ => [rev cur] end
  | x :: r => match k with
              | O => rev cur :: chunks_go n (pred n) [x] r
              | S k' => chunks_go n k' (x :: cur) r
              end
  end.
Definition chunks {A} (n : nat) (l : list A) : list (list A) := chunks_go n n [] l.

(* the Get loop: blobs so far, number of Get calls; None = a batch failed *)
Fixpoint get_batches (get : getfn) (bs : list (list N)) (acc : list N) (calls : N) : option (list N) * N :=
  match bs with
  | [] => (Some acc, calls)
  | b :: r => match get b with
              | BErr _ => (None, calls + 1)%N
              | BOk blobs => get_batches get r (acc ++ blobs) (calls + 1)%N
              end
  end.

(* types/da.go RetrieveWithHelpers (lines 101-186) *)
Definition retrieve_helper (T : table) (g : gresult) (get : getfn) : robs :=
  match g with
  | GErr e => if contains (e_msg e) (txt T SNotFound) then mk_robs StNotFound [] [] 0 0
              else if contains (e_msg e) (txt T SFuture) then mk_robs StFuture [] [] 0 0
              else mk_robs StError [] [] 0 0
  | GNil | GRes [] _ => mk_robs StNotFound [] [] 0 0
  | GRes ids ts => match get_batches get (chunks 100 ids) [] 0 with
                   | (None, c) => mk_robs StError [] [] 0 c
                   | (Some blobs, c) => mk_robs StSuccess ids blobs ts c
                   end
  end.

Definition honour_g (T : table) (cancelled : bool) (g : gresult) : gresult := if cancelled then GErr (ctx_err T) else g.
Definition honour_b (T : table) (cancelled : bool) (get : getfn) : getfn := fun ids => if cancelled then BErr (ctx_err T) else get ids.

Definition direct_retrieve (T : table) (g : gresult) (get : getfn) (cancelled : bool) : robs :=
  retrieve_helper T (honour_g T cancelled g) (honour_b T cancelled get).

(* server + wire *)
Definition wire_gresult (g : gresult) : gresult := match g with GErr e => GErr (wire_err (server_err e)) | _ => g end.
Definition rpc_getids (T : table) (cancelled : bool) (g : gresult) : gresult :=
  if cancelled then GErr (transport_cancel_err T) else wire_gresult g.

(* client.go GetIDs (lines 58-88) *)
Definition client_getids (T : table) (g : gresult) : gresult :=
  match g with
  | GErr w => if contains (e_msg w) (txt T SNotFound) then GErr w
              else if contains (e_msg w) (txt T SFuture) then GErr w
              else if contains (e_msg w) (t_ctx T) then GErr (ctx_err T)
              else GErr w
  | GNil | GRes [] _ => GErr (sent_err T SNotFound)
  | GRes ids ts => GRes ids ts
  end.

(* client.go Get line 50: fmt.Errorf("failed to get blobs: %w", err) *)
Definition get_wrap : string := "failed to get blobs: ".

(* client.go Get (lines 41-55) around the round trip *)
Definition client_get (T : table) (cancelled : bool) (get : getfn) : getfn :=
  fun ids => match (if cancelled then BErr (transport_cancel_err T) else
                      match get ids with BOk b => BOk b | BErr e => BErr (wire_err (server_err e)) end) with
             | BOk b => BOk b
             | BErr w => if contains (e_msg w) (t_ctx T) then BErr (ctx_err T)
                         else BErr (mk_err (e_is w) (e_ctx w) (get_wrap ++ e_msg w))
             end.

Definition proxied_retrieve (T : table) (g : gresult) (get : getfn) (cancelled : bool) : robs :=
  retrieve_helper T (client_getids T (rpc_getids T cancelled g)) (client_get T cancelled get).

(* ---- the error text the retrieve helper is handed: by GetIDs, else by the first Get that fails ------------- *)
Fixpoint first_get_err (get : getfn) (bs : list (list N)) : option string :=
  match bs with
  | [] => None
  | b :: r => match get b with BErr e => Some (e_msg e) | BOk _ => first_get_err get r end
  end.

Definition retrieve_text (g : gresult) (get : getfn) : option string :=
  match g with
  | GErr e => Some (e_msg e)
  | GNil | GRes [] _ => None
  | GRes ids _ => first_get_err get (chunks 100 ids)
  end.

Definition direct_retrieve_text (T : table) (g : gresult) (get : getfn) (cancelled : bool) : option string :=
  retrieve_text (honour_g T cancelled g) (honour_b T cancelled get).
Definition proxied_retrieve_text (T : table) (g : gresult) (get : getfn) (cancelled : bool) : option string :=
  retrieve_text (client_getids T (rpc_getids T cancelled g)) (client_get T cancelled get).

(* ---- the property's domain of errors ---------------------------------------------------------------------
   An error is in the domain when its text mentions exactly the sentinels it wraps (for the five the submit
   helper tells apart) and mentions cancellation exactly when it is a cancellation.  Identity cannot be
   recovered from text for other errors (e.g. context.DeadlineExceeded, whose text contains
   ErrContextDeadline's); they are outside the property ("every error the DA interface defines"). *)
Definition switch_sentinels := [STimedOut; SMempool; SSeq; STooBig; SDeadline].

Definition wfb (T : table) (e : err) : bool :=
  Bool.eqb (e_ctx e || is_sent e SCanceled) (contains (e_msg e) (t_ctx T) || contains (e_msg e) (txt T SCanceled))
  && forallb (fun s => Bool.eqb (is_sent e s) (contains (e_msg e) (txt T s))) switch_sentinels.

(* the table is usable: every error the DA interface defines (each bare sentinel) and context.Canceled is
   in the domain, and cancellation's text mentions neither "not found" nor "from the future" (client.go
   GetIDs replaces the message by it) *)
Definition table_ok (T : table) : bool :=
  forallb (fun s => wfb T (sent_err T s)) all_sentinels
  && wfb T (ctx_err T)
  && negb (contains (t_ctx T) (txt T SNotFound)) && negb (contains (t_ctx T) (txt T SFuture)).

Fixpoint sumN (l : list N) : N := match l with [] => 0%N | x :: r => (x + sumN r)%N end.
