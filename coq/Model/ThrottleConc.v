(* Model/ThrottleConc.v — block production INTERLEAVED with the two submission loops (property C08).
   Definitions only.  Extends Model/Throttle.v (which it leaves unchanged: a production attempt and a
   submission iteration are atomic steps there).

   In the node the aggregation goroutine (publishBlockInternal) runs concurrently with HeaderSubmissionLoop and
   DataSubmissionLoop.  The limit check of one production attempt is not one atomic read: it reads the shared
   watermarks at distinct instants,
       block/manager.go publishBlockInternal
         numPendingHeaders()              pending_base.go numPending:  store.Height(); lastHeight.Load()     (a)
         numPendingData()                 pending_base.go numPending:  store.Height(); lastHeight.Load()     (b)
         numWaitingData(ctx)              pending_data.go -> pending_base.go getPending:
                                              lastHeight.Load()                                              (c)
                                              store.Height(); GetBlockData(c+1 .. height)      (immutable blocks)
                                          the loop over the fetched items: count the items with transactions;
                                              setLastSubmittedDataHeight(h) for leading empty items (only forward,
                                              under pendingBase.setMu since /repo d1559c9)                    (d)
         decision; createBlock … SaveBlockData … updateState; store.SetHeight                                (e)
   and between any two of these instants whole submission iterations (Throttle.headers_iter / data_iter: each
   still one atomic step) may run.  The store height is written by the aggregation goroutine only, so it is
   constant during an attempt up to (e); committed blocks are immutable.

   A schedule [sched] places submission iterations at the six kinds of instants; [attempt_i] is the attempt
   under that schedule.  Every iteration of the schedule is executed, in order, whether or not the read it
   was placed behind is actually made (a read that is not made — short-circuit of && / ||, limit 0 — leaves
   the iterations where they are: they then simply run after the decision).  The empty schedule gives
   Throttle.produce (ThrottleConcProofs.attempt_i_sequential).

   NOT modelled: a production attempt running inside a submission iteration (between two DA calls of
   submitToDA, or between isEmpty and getPending); restarts inside an attempt. *)
From Coq Require Import NArith List Bool.
From Verif Require Import Model.Throttle.
Import ListNotations.
Open Scope N_scope.

(* one iteration of a submission loop *)
Inductive sub :=
| SHeaders (sc : list outcome)    (* submitter.go HeaderSubmissionLoop, one tick; sc as in Throttle.IHeaders *)
| SData (sc : list outcome).      (* submitter.go DataSubmissionLoop, one tick *)

(* what the harness sees of it: result class (as Throttle.obs.o_res) and the blob heights of every DA call *)
Definition subobs := (N * list (list N))%type.

Definition sub_step (s : state) (u : sub) : state * subobs :=
  match u with SHeaders sc => headers_iter s sc | SData sc => data_iter s sc end.

Fixpoint subs_run (s : state) (us : list sub) : state * list subobs :=
  match us with
  | [] => (s, [])
  | u :: r => let '(s1, o) := sub_step s u in let '(s2, os) := subs_run s1 r in (s2, o :: os)
  end.

Record sched := mk_sched {
  q_pre : list sub;          (* before (a): before numPendingHeaders loads the header watermark *)
  q_hd : list sub;           (* between (a) and (b) *)
  q_dd : list sub;           (* between (b) and (c) *)
  q_fetch : list sub;        (* after (c), while getPending reads the height and fetches the range *)
  q_loop : list (list sub);  (* (d): k-th entry = before numWaitingData's loop examines the k-th fetched item
                                (from 0); entries beyond the range = after the loop *)
  q_build : list sub         (* (e): after the decision, before the new height is stored *)
}.
Definition no_sched : sched := mk_sched [] [] [] [] [] [].
Definition all_subs (q : sched) : list sub :=
  q_pre q ++ q_hd q ++ q_dd q ++ q_fetch q ++ concat (q_loop q) ++ q_build q.

(* the data watermark and its recorded copy replaced *)
Definition with_d (s : state) (wp : N * N) : state :=
  mk_state (t_height s) (t_nes s) (t_wh s) (t_ph s) (fst wp) (snd wp) (t_dah s) (t_dad s).

(* pending_data.go numWaitingData, the loop over the items fetched earlier (hs = their heights), with the
   submission iterations of qs in between.  setLastSubmittedDataHeight acts on the watermark as it is at that
   moment (Throttle.set_mark: only forward). *)
Fixpoint waiting_loop_i (s : state) (hs : list N) (waiting : N) (qs : list (list sub)) : N * (state * list subobs) :=
  match hs with
  | [] => (waiting, subs_run s (concat qs))
  | h :: r =>
    let '(s1, o1) := subs_run s (hd [] qs) in
    let '(n, (s3, o3)) :=
      if nonempty s1 h then waiting_loop_i s1 r (waiting + 1) (tl qs)
      else if waiting =? 0 then waiting_loop_i (with_d s1 (set_mark (t_wd s1, t_pd s1) h)) r waiting (tl qs)
      else waiting_loop_i s1 r waiting (tl qs) in
    (n, (s3, o1 ++ o3))
  end.

(* manager.go publishBlockInternal after the limit check let it pass: the block at height+1 is committed
   (same as the second half of Throttle.produce) *)
Definition bump (c : cfg) (s : state) (ne : bool) : state :=
  let h := t_height s + 1 in
  let ne' := ne && negb (h <=? c_init c) in
  mk_state h (if ne' then h :: t_nes s else t_nes s) (t_wh s) (t_ph s) (t_wd s) (t_pd s) (t_dah s) (t_dad s).

(* one production attempt under schedule q: (state after, (refused, what the iterations did, in order)) *)
Definition attempt_i (c : cfg) (s : state) (q : sched) (ne : bool) : state * (bool * list subobs) :=
  let L := c_limit c in
  let H := t_height s in                                    (* constant until (e) *)
  let '(s0, o0) := subs_run s (q_pre q) in
  let a_wh := t_wh s0 in                                    (* (a) *)
  let '(s1, o1) := subs_run s0 (q_hd q) in
  let b_wd := t_wd s1 in                                    (* (b) *)
  let '(s2, o2) := subs_run s1 (q_dd q) in
  let c_wd := t_wd s2 in                                    (* (c) *)
  let '(s3, o3) := subs_run s2 (q_fetch q) in
  let on := negb (L =? 0) in
  let hdr := on && (L <=? sub64 H a_wh) in                  (* numPendingHeaders() >= L *)
  let dat := on && negb hdr && (L <=? sub64 H b_wd) in      (* numPendingData() >= L: numWaitingData is called *)
  let pending := if dat then match get_pending c_wd H with Some l => l | None => [] end else [] in
  let '(n, (s4, o4)) := waiting_loop_i s3 pending 0 (q_loop q) in      (* (d) *)
  let r := hdr || (dat && (L <=? n)) in
  let '(s5, o5) := subs_run s4 (q_build q) in               (* (e) *)
  ((if r then s5 else bump c s5 ne), (r, o0 ++ o1 ++ o2 ++ o3 ++ o4 ++ o5)).

(* ---- histories with interleaved attempts --------------------------------------------------------------- *)
Inductive xitem :=
| XI (i : item)                          (* an atomic item of Model/Throttle.v *)
| XProduceI (q : sched) (ne : bool).     (* a production attempt with submission iterations inside *)

(* observation: Throttle.obs of the item (for XProduceI: produced 0 / refused 1, no calls, the state after
   the whole attempt) and what each interleaved iteration did *)
Definition xobs := (obs * list subobs)%type.

Definition xstep (c : cfg) (s : state) (x : xitem) : state * xobs :=
  match x with
  | XI i => let '(s', o) := step c s i in (s', (o, []))
  | XProduceI q ne => let '(s', (r, os)) := attempt_i c s q ne in (s', (observe (if r then 1 else 0) [] s', os))
  end.

Fixpoint xrun_from (c : cfg) (s : state) (h : list xitem) : state * list xobs :=
  match h with
  | [] => (s, [])
  | x :: r => let '(s1, o) := xstep c s x in let '(s2, os) := xrun_from c s1 r in (s2, o :: os)
  end.
Definition xrun (c : cfg) (h : list xitem) : state * list xobs := xrun_from c (init_state c) h.
Definition xfinal (c : cfg) (h : list xitem) : state := fst (xrun c h).
