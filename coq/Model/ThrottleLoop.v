(* Model/ThrottleLoop.v — the two submission loops as PROCESSES of the node (property C08).  Definitions only.
   Extends Model/Throttle.v and Model/ThrottleConc.v, which it leaves unchanged.

   In Model/Throttle.v an item  IHeaders sc / IData sc  IS an iteration of a submission loop: the history says that
   the tick is served.  In the node it is served only if somebody is there to serve it: node/full.go Run spawns
       go HeaderSubmissionLoop(ctx)        go DataSubmissionLoop(ctx)
   ONCE per process, and block/submitter.go has
       for {
           select { case <-ctx.Done(): return; case <-timer.C: }
           <body: isEmpty / fetch / submit…ToDA — every path ends in `continue` or falls off the end of the body>
       }
   — the only `return` of the loop function is the one behind <-ctx.Done(), the node's own context.  What an
   iteration met (nothing pending, a fetch error, a DA layer that failed 30 times, a DA layer that answered
   "context canceled" — which is an ANSWER of the DA layer: types.SubmitWithHelpers maps every DA error that Is
   context.Canceled to StatusContextCanceled, and a remote DA node that drops a request reports exactly that, while
   the node's own context is alive) does not decide whether there is a next iteration.

   Block production is refused on the distance between the height and the watermarks (Throttle.limit_check) and
   the watermarks move in these two loops only: a loop function that returns while the node runs turns the limit
   into a deadlock, whatever the DA layer does afterwards.  This file makes "the goroutine is there" a part of the
   state, so that "every tick of every history is served" is a theorem about the loops (Proofs/ThrottleLoopProofs.v)
   and not a convention of the history language, and so that the harness can compare it with the real goroutines
   (harness/c08: cases with Life = true start HeaderSubmissionLoop / DataSubmissionLoop once per process, as the
   node does, and let the SAME two goroutines serve every tick of the history; Check/ThrottleCheck.v tc_live). *)
From Coq Require Import NArith List Bool.
From Verif Require Import Model.Throttle Model.ThrottleConc.
Import ListNotations.
Open Scope N_scope.

(* submitter.go HeaderSubmissionLoop / DataSubmissionLoop: after an iteration whose result class was (fst o)
   (Throttle.obs.o_res: 0 isEmpty, 1 nothing to submit, 2 fetch error, 3 submit…ToDA returned nil — all blobs
   accepted, OR one of submitToDA's two "cancelled" exits —, 4 submit…ToDA returned an error, which is logged),
   does the loop function go round again (true) or return (false)? *)
Definition loop_goes_on (o : subobs) : bool :=
  match fst o with
  | 0 | 1 | 2 => true      (* `continue` *)
  | _ => true              (* end of the body of the for loop *)
  end.

(* the node: the state of Model/Throttle.v + which of the two loop goroutines of the running process exist *)
Record node := mk_node {
  n_s : state;
  n_hl : bool;      (* the HeaderSubmissionLoop goroutine has not returned *)
  n_dl : bool       (* the DataSubmissionLoop goroutine has not returned *)
}.

(* process start (node/full.go Run on an aggregator): both loops are spawned *)
Definition boot (c : cfg) : node := mk_node (init_state c) true true.

Definition is_h (u : sub) : bool := match u with SHeaders _ => true | SData _ => false end.
(* is the goroutine that would serve u there? *)
Definition live (n : node) (u : sub) : bool := if is_h u then n_hl n else n_dl n.

(* a tick nobody serves: nothing happens (result class 5, no DA request) *)
Definition not_served : subobs := (5, []).

(* the ticker of a loop fires (with the DA answers the iteration would get) *)
Definition nsub_step (n : node) (u : sub) : node * subobs :=
  if live n u then
    let '(s', o) := sub_step (n_s n) u in
    ((if is_h u then mk_node s' (loop_goes_on o) (n_dl n) else mk_node s' (n_hl n) (loop_goes_on o)), o)
  else (n, not_served).

(* the iterations of a schedule that have a goroutine to run them *)
Definition live_sched (n : node) (q : sched) : sched :=
  mk_sched (filter (live n) (q_pre q)) (filter (live n) (q_hd q)) (filter (live n) (q_dd q))
           (filter (live n) (q_fetch q)) (map (filter (live n)) (q_loop q)) (filter (live n) (q_build q)).

(* a goroutine that was there before an attempt is there after it iff none of ITS iterations inside the attempt
   ended the loop (kind: true = header loop) *)
Definition still (alive kind : bool) (uos : list (sub * subobs)) : bool :=
  alive && forallb (fun uo => negb (Bool.eqb (is_h (fst uo)) kind) || loop_goes_on (snd uo)) uos.

(* one item of an interleaved history, on the node.  A restart ends the process (the node's context is
   cancelled: both loops return at their select) and starts a new one (both loops spawned). *)
Definition nstep (c : cfg) (n : node) (x : xitem) : node * xobs :=
  match x with
  | XI (IHeaders sc) => let '(n', (r, cs)) := nsub_step n (SHeaders sc) in (n', (observe r cs (n_s n'), []))
  | XI (IData sc) => let '(n', (r, cs)) := nsub_step n (SData sc) in (n', (observe r cs (n_s n'), []))
  | XI IRestart => let '(s', o) := xstep c (n_s n) x in (mk_node s' true true, o)
  | XI _ => let '(s', o) := xstep c (n_s n) x in (mk_node s' (n_hl n) (n_dl n), o)
  | XProduceI q ne =>
    let q' := live_sched n q in
    let '(s', o) := xstep c (n_s n) (XProduceI q' ne) in
    let uos := combine (all_subs q') (snd o) in
    (mk_node s' (still (n_hl n) true uos) (still (n_dl n) false uos), o)
  end.

(* per item: what Model/ThrottleConc.v observes + (header loop there, data loop there) after the item *)
Definition nobs := (xobs * (bool * bool))%type.

Fixpoint nrun_from (c : cfg) (n : node) (h : list xitem) : node * list nobs :=
  match h with
  | [] => (n, [])
  | x :: r => let '(n1, o) := nstep c n x in
              let '(n2, os) := nrun_from c n1 r in (n2, (o, (n_hl n1, n_dl n1)) :: os)
  end.
Definition nrun (c : cfg) (h : list xitem) : node * list nobs := nrun_from c (boot c) h.
Definition nfinal (c : cfg) (h : list xitem) : node := fst (nrun c h).
