(* Model/WireCache.v — the cache-file path of the wire values (property C12: "... yields an equal value ...
   whichever path it travelled (block store, DA blob, P2P, cache file)").  Definitions ONLY.

   What is modelled: /repo/pkg/cache/cache.go
     Cache[T]            three sync.Maps: items (uint64 height -> *T, and string -> *T for entries that came from
                         items_by_hash.gob), hashes (string -> bool), daIncluded (string -> uint64)      :12-78
     SaveToDisk(folder)  writes FOUR files, one after the other, each with saveMapGob = write a temporary file and
                         rename it over the target: items_by_height.gob, items_by_hash.gob, hashes.gob,
                         da_included.gob; every file is written on every save, an empty map included       :138-200
     LoadFromDisk(folder) reads the four files in the same order into the cache it is called on (Store of every
                         entry: MERGE); a missing file is an empty map; the first error returns           :205-243
   The node always saves to and loads from the SAME folder (<root>/data/cache/{header,data}), over and over,
   so the model is a HISTORY machine over one directory: [cstep] / [crun].

   What is NOT modelled: the gob framing.  A file is the map it holds: a list of (key, value) entries (any order;
   Go maps have none).  The VALUES of the two item files are modelled at byte level: encoding/gob stores a T that
   implements encoding.BinaryMarshaler as the bytes T.MarshalBinary returns and rebuilds it with
   new(T).UnmarshalBinary — for the two instantiations of the node, Cache[types.SignedHeader] and
   Cache[types.Data], these are [marshal_signed_header]/[dec_signed_header] and [marshal_data]/[dec_data] of
   Model/Wire.v.  An item that does not marshal makes gob's Encode — hence SaveToDisk — fail with the target file
   untouched (the failure happens while the temporary file is written); item bytes that do not unmarshal make
   LoadFromDisk fail.  A file that is not a gob stream of the right map type at all (truncated by hand, ...) is
   outside the model, and so are nil items (SetItem(h, nil): gob refuses nil map elements) and the *.tmp files. *)
From Coq Require Import NArith List Bool.
From Verif Require Import Model.Wire.
Import ListNotations.
Open Scope N_scope.

(* equality of Go strings (the keys of hashes / daIncluded / items-by-hash) *)
Fixpoint beqb (a b : bytes) : bool :=
  match a, b with
  | [], [] => true
  | x :: a', y :: b' => (x =? y) && beqb a' b'
  | _, _ => false
  end.

(* ---------------------------------------------------------------------------------------------- *)
(* sync.Map as an association list, newest binding first                                          *)
Section Maps.
Context {K V : Type}.
Variable keq : K -> K -> bool.
(* Load *)
Fixpoint mget (m : list (K * V)) (k : K) : option V :=
  match m with
  | [] => None
  | (k', v) :: r => if keq k' k then Some v else mget r k
  end.
(* Delete *)
Definition mdel (m : list (K * V)) (k : K) : list (K * V) := filter (fun kv => negb (keq (fst kv) k)) m.
(* Store *)
Definition mset (m : list (K * V)) (k : K) (v : V) : list (K * V) := (k, v) :: mdel m k.
(* Range: every key once, with its current value (cache.go:148, :176, :190) *)
Definition mlive (m : list (K * V)) : list (K * V) := fold_right (fun kv acc => mset acc (fst kv) (snd kv)) [] m.
(* `for k, v := range fileMap { m.Store(k, v) }` (cache.go:211-212, :220-221, :229-230, :238-239) *)
Definition mstore_all (m : list (K * V)) (l : list (K * V)) : list (K * V) :=
  fold_left (fun acc kv => mset acc (fst kv) (snd kv)) l m.
End Maps.

(* ---------------------------------------------------------------------------------------------- *)
(* Cache[T] and the folder                                                                          *)

Record ccache (T : Type) := {
  c_items : list (N * T);          (* items, uint64 keys: SetItem / GetItem / DeleteItem *)
  c_sitems : list (bytes * T);     (* items, string keys: only LoadFromDisk creates them *)
  c_hashes : list (bytes * bool);  (* SetSeen / IsSeen *)
  c_da : list (bytes * N) }.       (* SetDAIncluded / GetDAIncludedHeight *)
Arguments c_items {T}. Arguments c_sitems {T}. Arguments c_hashes {T}. Arguments c_da {T}.
(* NewCache *)
Definition cempty (T : Type) : ccache T := {| c_items := []; c_sitems := []; c_hashes := []; c_da := [] |}.

(* the folder: each of the four files is absent or holds a map *)
Record cdir := {
  f_items : option (list (N * bytes));        (* items_by_height.gob: height -> MarshalBinary bytes *)
  f_sitems : option (list (bytes * bytes));   (* items_by_hash.gob *)
  f_hashes : option (list (bytes * bool));    (* hashes.gob *)
  f_da : option (list (bytes * N)) }.         (* da_included.gob *)
Definition dir_none : cdir := {| f_items := None; f_sitems := None; f_hashes := None; f_da := None |}.

(* the getters (cache.go:28-35, :48-54, :62-73) *)
Definition get_item {T} (c : ccache T) (h : N) : option T := mget N.eqb (c_items c) h.
Definition is_seen {T} (c : ccache T) (s : bytes) : bool :=
  match mget beqb (c_hashes c) s with Some b => b | None => false end.
Definition da_height {T} (c : ccache T) (s : bytes) : option N := mget beqb (c_da c) s.

(* the setters (cache.go:38-45, :57-59, :76-78) *)
Definition set_item {T} (c : ccache T) (h : N) (v : T) : ccache T :=
  {| c_items := mset N.eqb (c_items c) h v; c_sitems := c_sitems c; c_hashes := c_hashes c; c_da := c_da c |}.
Definition del_item {T} (c : ccache T) (h : N) : ccache T :=
  {| c_items := mdel N.eqb (c_items c) h; c_sitems := c_sitems c; c_hashes := c_hashes c; c_da := c_da c |}.
Definition set_seen {T} (c : ccache T) (s : bytes) : ccache T :=
  {| c_items := c_items c; c_sitems := c_sitems c; c_hashes := mset beqb (c_hashes c) s true; c_da := c_da c |}.
Definition set_da {T} (c : ccache T) (s : bytes) (h : N) : ccache T :=
  {| c_items := c_items c; c_sitems := c_sitems c; c_hashes := c_hashes c; c_da := mset beqb (c_da c) s h |}.

(* gob over a map of items: every value through MarshalBinary / UnmarshalBinary; one failure fails the file *)
Fixpoint enc_all {K T} (enc : T -> option bytes) (l : list (K * T)) : option (list (K * bytes)) :=
  match l with
  | [] => Some []
  | (k, v) :: r => match enc v, enc_all enc r with
                   | Some b, Some r' => Some ((k, b) :: r')
                   | _, _ => None
                   end
  end.
Fixpoint dec_all {K T} (dec : bytes -> option T) (l : list (K * bytes)) : option (list (K * T)) :=
  match l with
  | [] => Some []
  | (k, b) :: r => match dec b, dec_all dec r with
                   | Some v, Some r' => Some ((k, v) :: r')
                   | _, _ => None
                   end
  end.

Section WithCodec.
Context {T : Type}.
Variable enc : T -> option bytes.      (* T.MarshalBinary *)
Variable dec : bytes -> option T.      (* new(T).UnmarshalBinary *)

(* SaveToDisk (cache.go:138-200): (the folder afterwards, no error returned).  The four files are written in
   this order; an item that does not marshal stops the save with the files written so far in place.  When it
   succeeds, NOTHING of what the folder held before is left: every file is replaced. *)
Definition save (c : ccache T) (d : cdir) : cdir * bool :=
  match enc_all enc (mlive N.eqb (c_items c)) with
  | None => (d, false)
  | Some fi =>
    match enc_all enc (mlive beqb (c_sitems c)) with
    | None => ({| f_items := Some fi; f_sitems := f_sitems d; f_hashes := f_hashes d; f_da := f_da d |}, false)
    | Some fs => ({| f_items := Some fi; f_sitems := Some fs;
                     f_hashes := Some (mlive beqb (c_hashes c)); f_da := Some (mlive beqb (c_da c)) |}, true)
    end
  end.

(* loadMapGob (cache.go:117-133): a missing file is the empty map *)
Definition file_map {A} (o : option (list A)) : list A := match o with Some l => l | None => [] end.

(* c.LoadFromDisk(folder) (cache.go:205-243) for ANY cache c: (the cache afterwards, no error returned);
   the entries of every file are stored into c (merge), file by file; the first file that fails stops it *)
Definition load_into (c : ccache T) (d : cdir) : ccache T * bool :=
  match dec_all dec (file_map (f_items d)) with
  | None => (c, false)
  | Some li =>
    let c1 := {| c_items := mstore_all N.eqb (c_items c) li; c_sitems := c_sitems c; c_hashes := c_hashes c; c_da := c_da c |} in
    match dec_all dec (file_map (f_sitems d)) with
    | None => (c1, false)
    | Some ls =>
      ({| c_items := c_items c1; c_sitems := mstore_all beqb (c_sitems c) ls;
          c_hashes := mstore_all beqb (c_hashes c) (file_map (f_hashes d));
          c_da := mstore_all beqb (c_da c) (file_map (f_da d)) |}, true)
    end
  end.
(* what a restarted node does: NewCache, then LoadFromDisk *)
Definition load_fresh (d : cdir) : ccache T * bool := load_into (cempty T) d.

(* ---------------------------------------------------------------------------------------------- *)
(* histories over ONE folder                                                                        *)

Inductive cop :=
| OSetItem (h : N) (v : T) | ODelItem (h : N) | OSetSeen (s : bytes) | OSetDA (s : bytes) (h : N)
| OSave          (* SaveToDisk(folder) of the current cache object *)
| OLoad          (* restart: a NEW cache object, LoadFromDisk(folder) *)
| ONew           (* a NEW cache object that is not loaded *)
| OLoadInto.     (* LoadFromDisk(folder) on the current cache object (merge) *)

Record cstate := { cs_cache : ccache T; cs_dir : cdir }.

Definition cstep (st : cstate) (o : cop) : cstate * bool :=
  let c := cs_cache st in
  let d := cs_dir st in
  match o with
  | OSetItem h v => ({| cs_cache := set_item c h v; cs_dir := d |}, true)
  | ODelItem h => ({| cs_cache := del_item c h; cs_dir := d |}, true)
  | OSetSeen s => ({| cs_cache := set_seen c s; cs_dir := d |}, true)
  | OSetDA s h => ({| cs_cache := set_da c s h; cs_dir := d |}, true)
  | OSave => let '(d', ok) := save c d in ({| cs_cache := c; cs_dir := d' |}, ok)
  | OLoad => let '(c', ok) := load_fresh d in ({| cs_cache := c'; cs_dir := d |}, ok)
  | ONew => ({| cs_cache := cempty T; cs_dir := d |}, true)
  | OLoadInto => let '(c', ok) := load_into c d in ({| cs_cache := c'; cs_dir := d |}, ok)
  end.

(* the state after a list of steps *)
Definition cexec (st : cstate) (ops : list cop) : cstate := fold_left (fun s o => fst (cstep s o)) ops st.

(* what is observable after a step: no error?, GetItem at the probed heights, IsSeen and GetDAIncludedHeight at
   the probed strings, and the folder *)
Definition cobs : Type := bool * list (option T) * list bool * list (option N) * cdir.
Definition cobserve (ph : list N) (ps : list bytes) (st : cstate) (ok : bool) : cobs :=
  (ok, map (get_item (cs_cache st)) ph, map (is_seen (cs_cache st)) ps, map (da_height (cs_cache st)) ps, cs_dir st).
Fixpoint crun (ph : list N) (ps : list bytes) (st : cstate) (ops : list cop) : list cobs :=
  match ops with
  | [] => []
  | o :: rest => let '(st', ok) := cstep st o in cobserve ph ps st' ok :: crun ph ps st' rest
  end.
(* a history: a new cache object and a folder that holds [d0] *)
Definition cache_history (d0 : cdir) (ph : list N) (ps : list bytes) (ops : list cop) : list cobs :=
  crun ph ps {| cs_cache := cempty T; cs_dir := d0 |} ops.

Definition is_save (o : cop) : bool := match o with OSave => true | _ => false end.
End WithCodec.
Arguments cop : clear implicits.
Arguments cstate : clear implicits.
Arguments cobs : clear implicits.

(* two caches that no sequence of Get/IsSeen/GetDAIncludedHeight calls (and no later SaveToDisk) can tell apart *)
Definition cache_eq {T} (a b : ccache T) : Prop :=
  (forall h, mget N.eqb (c_items a) h = mget N.eqb (c_items b) h) /\
  (forall s, mget beqb (c_sitems a) s = mget beqb (c_sitems b) s) /\
  (forall s, mget beqb (c_hashes a) s = mget beqb (c_hashes b) s) /\
  (forall s, mget beqb (c_da a) s = mget beqb (c_da b) s).

(* the two caches of the node (block/manager.go: headerCache, dataCache) *)
Definition sh_enc : wsigned_header -> option bytes := marshal_signed_header.
Definition data_enc : wdata -> option bytes := marshal_data.
