(* Model/ConcFull.v — C13 part A, NON-aggregator set: the activities of a full node that share the block store, as
   programs over ATOMIC actions (one durable write / one read of shared state / one channel operation / one call to
   a double), interleaved by an arbitrary schedule.  Activities:
     delivery  = RetrieveLoop / HeaderStoreRetrieveLoop / DataStoreRetrieveLoop seen from the sync loop: a source of
                 header and data events in ANY order, with repetitions and gaps; an event found on the DA layer
                 first sets the DA-included mark (cache.SetDAIncluded), then is sent (retriever.go handlePotentialHeader and handlePotentialData);
     sync      = SyncLoop + trySyncNextBlock (sync.go, as repaired: SaveBlockData, updateState, SetHeight);
     includer  = DAIncluderLoop (da_includer.go).
   The proposer's chain is a Section variable (header id and data id per height; data id 0 = no transactions).
   Admission is assumed, not modelled (it is C03's subject): a header event is a header signed by the proposer, so
   its id is the proposer's for its height; a data event found on the DA layer passed isValidSignedData, so it is the
   proposer's; a data event from the P2P store is ARBITRARY (height, id).  Validate at apply time compares the
   data with the header's data hash.  Not modelled: the seen sets (they only suppress work), datastore errors,
   metrics, the signals between the loops (every loop may act at any time). *)
From Coq Require Import NArith List Bool.
From Verif Require Import Model.Conc.
Import ListNotations.
Open Scope N_scope.

Record fshared := {
  fblk : N -> option (N * N);
  fht : N;
  fsth : N;
  hc : N -> option N;
  dc : N -> option N;
  hq : list N;
  dq : list (N * N);
  fmkh : list (N * N);
  fmkd : list (N * N);
  fdi : N;
  fpdi : N;
  ffin : N
}.
(* fblk: stored blocks by height as (header id, data id);  fht: store height (/t);  fsth: height of the state
   record (/s);  hc / dc: header and data caches by height (cache.SetItem overwrites);  hq / dq: headerInCh /
   dataInCh (a header event is its height: its id is the proposer's);  fmkh / fmkd: DA-included marks;
   fdi / fpdi / ffin: DA-included height volatile / persisted, last finalized height. *)

Definition set_fblk (s : fshared) (v : N -> option (N * N)) : fshared :=
  {| fblk := v; fht := fht s; fsth := fsth s; hc := hc s; dc := dc s; hq := hq s; dq := dq s; fmkh := fmkh s; fmkd := fmkd s; fdi := fdi s; fpdi := fpdi s; ffin := ffin s |}.
Definition set_fht (s : fshared) (v : N) : fshared :=
  {| fblk := fblk s; fht := v; fsth := fsth s; hc := hc s; dc := dc s; hq := hq s; dq := dq s; fmkh := fmkh s; fmkd := fmkd s; fdi := fdi s; fpdi := fpdi s; ffin := ffin s |}.
Definition set_fsth (s : fshared) (v : N) : fshared :=
  {| fblk := fblk s; fht := fht s; fsth := v; hc := hc s; dc := dc s; hq := hq s; dq := dq s; fmkh := fmkh s; fmkd := fmkd s; fdi := fdi s; fpdi := fpdi s; ffin := ffin s |}.
Definition set_hc (s : fshared) (v : N -> option N) : fshared :=
  {| fblk := fblk s; fht := fht s; fsth := fsth s; hc := v; dc := dc s; hq := hq s; dq := dq s; fmkh := fmkh s; fmkd := fmkd s; fdi := fdi s; fpdi := fpdi s; ffin := ffin s |}.
Definition set_dc (s : fshared) (v : N -> option N) : fshared :=
  {| fblk := fblk s; fht := fht s; fsth := fsth s; hc := hc s; dc := v; hq := hq s; dq := dq s; fmkh := fmkh s; fmkd := fmkd s; fdi := fdi s; fpdi := fpdi s; ffin := ffin s |}.
Definition set_hq (s : fshared) (v : list N) : fshared :=
  {| fblk := fblk s; fht := fht s; fsth := fsth s; hc := hc s; dc := dc s; hq := v; dq := dq s; fmkh := fmkh s; fmkd := fmkd s; fdi := fdi s; fpdi := fpdi s; ffin := ffin s |}.
Definition set_dq (s : fshared) (v : list (N * N)) : fshared :=
  {| fblk := fblk s; fht := fht s; fsth := fsth s; hc := hc s; dc := dc s; hq := hq s; dq := v; fmkh := fmkh s; fmkd := fmkd s; fdi := fdi s; fpdi := fpdi s; ffin := ffin s |}.
Definition set_fmkh (s : fshared) (v : list (N * N)) : fshared :=
  {| fblk := fblk s; fht := fht s; fsth := fsth s; hc := hc s; dc := dc s; hq := hq s; dq := dq s; fmkh := v; fmkd := fmkd s; fdi := fdi s; fpdi := fpdi s; ffin := ffin s |}.
Definition set_fmkd (s : fshared) (v : list (N * N)) : fshared :=
  {| fblk := fblk s; fht := fht s; fsth := fsth s; hc := hc s; dc := dc s; hq := hq s; dq := dq s; fmkh := fmkh s; fmkd := v; fdi := fdi s; fpdi := fpdi s; ffin := ffin s |}.
Definition set_fdi (s : fshared) (v : N) : fshared :=
  {| fblk := fblk s; fht := fht s; fsth := fsth s; hc := hc s; dc := dc s; hq := hq s; dq := dq s; fmkh := fmkh s; fmkd := fmkd s; fdi := v; fpdi := fpdi s; ffin := ffin s |}.
Definition set_fpdi (s : fshared) (v : N) : fshared :=
  {| fblk := fblk s; fht := fht s; fsth := fsth s; hc := hc s; dc := dc s; hq := hq s; dq := dq s; fmkh := fmkh s; fmkd := fmkd s; fdi := fdi s; fpdi := v; ffin := ffin s |}.
Definition set_ffin (s : fshared) (v : N) : fshared :=
  {| fblk := fblk s; fht := fht s; fsth := fsth s; hc := hc s; dc := dc s; hq := hq s; dq := dq s; fmkh := fmkh s; fmkd := fmkd s; fdi := fdi s; fpdi := fpdi s; ffin := v |}.

Definition updo {A} (f : N -> option A) (h : N) (v : option A) : N -> option A :=
  fun x => if N.eqb x h then v else f x.

(* the environment's part of an action *)
Record fenv := { f_ok : bool; f_hdr : bool; f_h : N; f_id : N; f_mark : bool }.

(* an event on its way from the DA layer / the P2P stores to the sync loop *)
Inductive ev := EvH (h : N) (mark : bool) | EvD (h id : N) (mark : bool).

Inductive dpc := D0 | D1 (e : ev) | D2 (e : ev).
(* D0: next (da.get / p2p read): the environment produces an event;  D1: next: set mark;  D2: next: send *)

Inductive ypc :=
| Y0                                  (* at the select of SyncLoop; next: recv ev *)
| Y1h (h : N) | Y2h (h : N)           (* header event: next read /t ; next cache put (+ handleEmptyDataHash) *)
| Y1d (h id : N) | Y2d (h id : N)     (* data event: next read /t ; next cache put *)
| T0                                  (* trySyncNextBlock: next read /t *)
| T1 (c : N)                          (* next: read caches at c+1 *)
| T2 (c hid did : N)                  (* next: (validate; exec) *)
| T3 (c hid did : N)                  (* next: batch block (SaveBlockData) *)
| T4 (c : N)                          (* next: put /s (updateState) *)
| T5 (c : N)                          (* next: put /t (SetHeight) *)
| T6 (c : N)                          (* next: cache del (+ set seen) *)
| YX.                                 (* the loop has returned with an error (validation / execution failed) *)

Record fstate := { fsh : fshared; pd : dpc; py : ypc; pif : ipc }.

Inductive fact := FDeliver | FSync | FIncl.

Section Chain.
Variable chain_h chain_d : N -> N.     (* the proposer's chain: header id and data id (0 = empty) at each height *)

Definition step_d (s : fshared) (p : dpc) (e : fenv) : fshared * dpc :=
  match p with
  | D0 => if f_hdr e then (s, D1 (EvH (f_h e) (f_mark e)))
          else (* a data blob on the DA layer is the proposer's (isValidSignedData) and non-empty; P2P data is arbitrary *)
            if f_mark e then (if chain_d (f_h e) =? 0 then (s, D0) else (s, D1 (EvD (f_h e) (chain_d (f_h e)) true)))
            else (s, D1 (EvD (f_h e) (f_id e) false))
  | D1 (EvH h true) => (set_fmkh s ((h, chain_h h) :: fmkh s), D2 (EvH h true))
  | D1 (EvD h id true) => (set_fmkd s ((h, id) :: fmkd s), D2 (EvD h id true))
  | D1 e' => (s, D2 e')
  | D2 (EvH h m) => (set_hq s (hq s ++ [h]), D0)
  | D2 (EvD h id m) => (set_dq s (dq s ++ [(h, id)]), D0)
  end.

Definition step_y (s : fshared) (p : ypc) (e : fenv) : fshared * ypc :=
  match p with
  | Y0 => if f_hdr e
          then match hq s with h :: r => (set_hq s r, Y1h h) | [] => (s, Y0) end
          else match dq s with (h, id) :: r => (set_dq s r, if id =? 0 then Y0 else Y1d h id) | [] => (s, Y0) end
  | Y1h h => if (h <=? fht s) || negb (f_ok e) then (s, Y0) else (s, Y2h h)        (* f_ok = false: already seen *)
  | Y2h h => let s1 := set_hc s (updo (hc s) h (Some (chain_h h))) in
             ((if chain_d h =? 0 then set_dc s1 (updo (dc s1) h (Some 0)) else s1), T0)
  | Y1d h id => if (h <=? fht s) || negb (f_ok e) then (s, Y0) else (s, Y2d h id)
  | Y2d h id => (set_dc s (updo (dc s) h (Some id)), T0)
  | T0 => (s, T1 (fht s))
  | T1 c => match hc s (c + 1), dc s (c + 1) with
            | Some hid, Some did => (s, T2 c hid did)
            | _, _ => (s, Y0)
            end
  | T2 c hid did => if f_ok e && (did =? chain_d (c + 1)) then (s, T3 c hid did) else (s, YX)
  | T3 c hid did => (set_fblk s (updo (fblk s) (c + 1) (Some (hid, did))), T4 c)
  | T4 c => (set_fsth s (c + 1), T5 c)
  | T5 c => (set_fht s (c + 1), T6 c)
  | T6 c => (set_dc (set_hc s (updo (hc s) (c + 1) None)) (updo (dc s) (c + 1) None), T0)
  | YX => (s, YX)
  end.

Definition step_if (s : fshared) (p : ipc) (e : fenv) : fshared * ipc :=
  match p with
  | I0 => (s, I1 (fdi s))
  | I1 c => if c + 1 <=? fht s then (s, I2 c) else (s, I0)
  | I2 c => match fblk s (c + 1) with
            | Some (hid, did) => (s, I3 c {| b_id := hid; b_prev := did; b_txs := negb (did =? 0); b_final := true |})
            | None => (s, I0) end
  | I3 c b => if mem (c + 1, b_id b) (fmkh s) && (negb (b_txs b) || mem (c + 1, b_prev b) (fmkd s))
              then (s, I4 c b) else (s, I0)
  | I4 c b => (s, I5 c b)
  | I5 c b => (s, I6 c b)
  | I6 c b => if f_ok e then (set_ffin s (fdi s + 1), I7 c b (fdi s)) else (s, I0)
  | I7 c b cur => (set_fpdi s (cur + 1), I8 c b cur)
  | I8 c b cur => if fdi s =? cur then (set_fdi s (cur + 1), I1 (c + 1)) else (s, I0)
  end.
(* in the includer's local block record b_id is the header id and b_prev carries the DATA id *)

Definition fstep (st : fstate) (ae : fact * fenv) : fstate :=
  let (a, e) := ae in
  match a with
  | FDeliver => let (s', p') := step_d (fsh st) (pd st) e in {| fsh := s'; pd := p'; py := py st; pif := pif st |}
  | FSync => let (s', p') := step_y (fsh st) (py st) e in {| fsh := s'; pd := pd st; py := p'; pif := pif st |}
  | FIncl => let (s', p') := step_if (fsh st) (pif st) e in {| fsh := s'; pd := pd st; py := py st; pif := p' |}
  end.

Definition frun (st : fstate) (sched : list (fact * fenv)) : fstate := fold_left fstep sched st.

(* ---- the joint invariant ------------------------------------------------------------------------------ *)
Record FG (s : fshared) : Prop := {
  (* C02 safety: the committed store is exactly a prefix of the proposer's chain *)
  fg_prefix : forall h, 1 <= h <= fht s -> fblk s h = Some (chain_h h, chain_d h);
  (* the header cache holds only the proposer's headers, at their own heights *)
  fg_hc : forall h id, hc s h = Some id -> id = chain_h h;
  (* C07 on the full node: DA-included <= height, every block at or below it carries both marks, and
     DA-included <= persisted <= finalized <= DA-included + 1 *)
  fg_di_le : fdi s <= fht s;
  fg_di_mk : forall h, 1 <= h <= fdi s -> In (h, chain_h h) (fmkh s) /\ (chain_d h <> 0 -> In (h, chain_d h) (fmkd s));
  fg_di_dur : fdi s <= fpdi s /\ fpdi s <= ffin s /\ ffin s <= fdi s + 1
}.

Definition Ycl (s : fshared) (p : ypc) : Prop :=
  match p with
  | T1 c => fsth s = fht s /\ c = fht s
  | T2 c hid did => fsth s = fht s /\ c = fht s /\ hid = chain_h (c + 1)
  | T3 c hid did => fsth s = fht s /\ c = fht s /\ hid = chain_h (c + 1) /\ did = chain_d (c + 1)
  | T4 c => fsth s = fht s /\ c = fht s /\ fblk s (c + 1) = Some (chain_h (c + 1), chain_d (c + 1))
  | T5 c => fsth s = fht s + 1 /\ c = fht s /\ fblk s (c + 1) = Some (chain_h (c + 1), chain_d (c + 1))
  | T6 c => fsth s = fht s /\ c + 1 = fht s
  | _ => fsth s = fht s
  end.

Definition fmarked (s : fshared) (c : N) (b : block) : Prop :=
  In (c + 1, b_id b) (fmkh s) /\ (b_txs b = true -> In (c + 1, b_prev b) (fmkd s)).
Definition proposers (c : N) (b : block) : Prop :=
  b_id b = chain_h (c + 1) /\ b_prev b = chain_d (c + 1) /\ b_txs b = negb (chain_d (c + 1) =? 0).

Definition Ifcl (s : fshared) (p : ipc) : Prop :=
  match p with
  | I0 => fpdi s = fdi s
  | I1 c => fpdi s = fdi s /\ c = fdi s
  | I2 c => fpdi s = fdi s /\ c = fdi s /\ c + 1 <= fht s
  | I3 c b => fpdi s = fdi s /\ c = fdi s /\ c + 1 <= fht s /\ proposers c b
  | I4 c b | I5 c b | I6 c b => fpdi s = fdi s /\ c = fdi s /\ c + 1 <= fht s /\ proposers c b /\ fmarked s c b
  | I7 c b cur => fpdi s = fdi s /\ ffin s = fdi s + 1 /\ cur = fdi s /\ c = fdi s /\ c + 1 <= fht s /\ proposers c b /\ fmarked s c b
  | I8 c b cur => fpdi s = fdi s + 1 /\ ffin s = fdi s + 1 /\ cur = fdi s /\ c = fdi s /\ c + 1 <= fht s /\ proposers c b /\ fmarked s c b
  end.

Definition FJ (st : fstate) : Prop := FG (fsh st) /\ Ycl (fsh st) (py st) /\ Ifcl (fsh st) (pif st).

Definition fmono (a b : fshared) : Prop :=
  fht a <= fht b /\ fdi a <= fdi b /\ (forall h, 1 <= h <= fht a -> fblk b h = fblk a h).

(* the observable part, as a boolean check (evaluated on the real halted full node by Check/ConcFullCheck.v) *)
Definition pair_opt_eqb (a : option (N * N)) (x y : N) : bool :=
  match a with Some (p, q) => (p =? x) && (q =? y) | None => false end.
Definition fcheck (s : fshared) : list N :=
  (if fsth s =? fht s then [] else [1]) ++
  (if forallb (fun h => pair_opt_eqb (fblk s h) (chain_h h) (chain_d h)) (rangeN 0 (fht s)) then [] else [2]) ++
  (if fdi s <=? fht s then [] else [4]) ++
  (if (fdi s <=? fpdi s) && (fpdi s <=? ffin s) && (ffin s <=? fdi s + 1) then [] else [5]).

End Chain.

Definition finit_shared : fshared :=
  {| fblk := fun _ => None; fht := 0; fsth := 0; hc := fun _ => None; dc := fun _ => None; hq := []; dq := [];
     fmkh := []; fmkd := []; fdi := 0; fpdi := 0; ffin := 0 |}.
Definition finit : fstate := {| fsh := finit_shared; pd := D0; py := T0; pif := I0 |}.
(* py = T0: the repaired SyncLoop calls trySyncNextBlock once before its select *)
