(* Model/KeyFile.v — executable model of the proposer key file (pkg/signer/file/local.go), of the noop
   signer (pkg/signer/noop/signer.go) and of the address full nodes derive (types/signer.go).
   DEFINITIONS ONLY (proofs: Proofs/KeyFileProofs.v).

   The model is of the REPAIRED code (fixes/C19-*.diff applied to /repo's working tree): loadKeys and
   ExportPrivateKey return an error for an empty passphrase on a salt-less file and for a nonce whose
   length is not 12, and loadKeys refuses a file whose pub_key is not the public key of the decrypted
   private key.

   What is byte-exact: passphrases, salts, nonces, public keys, private-key plaintexts, the legacy key
   derivation (fallbackDeriveKey), the Ed25519 key (un)marshalling of libp2p (lengths 64 / 96 / 32, the
   redundant-public-key test, GetPublic = bytes 32..63).
   What is abstract (record [crypto], never an Axiom): Argon2id, AES-256-GCM, Ed25519 signing and
   derivation of the public key from the seed, SHA-256.  Theorems quantify over every [crypto] that
   satisfies the named ideal hypotheses of [ideal]; [sym] is the symbolic instance on which the
   correspondence harness evaluates the model (and which shows the hypotheses are satisfiable).
   JSON: a file is abstracted to  absent | does-not-parse | the four decoded fields ; the harness obtains
   this description of every (corrupted) file with the package's own keyData type.
   Section Histories: the operations applied one after the other to ONE path ([hstep]/[hrun]: which of
   them write the file, and what) and signing sessions on one signer ([session_msgs]/[session_sigs]: Sign
   is a function of the key and of the bytes the message holds at the time of the call). *)
From Coq Require Import NArith List Bool Arith.
Import ListNotations.
Open Scope list_scope.

Definition bytes := list N.

Fixpoint bytes_eqb (a b : bytes) : bool :=
  match a, b with
  | [], [] => true
  | x :: a', y :: b' => N.eqb x y && bytes_eqb a' b'
  | _, _ => false
  end.

(* which stage refused the file (the harness maps the Go error to the same enum; EOther = unrecognised) *)
Inductive err := EIo | EJson | ELegacyEmpty | ENonce | EDecrypt | EPriv | EPub | EMismatch | EExists | EOther.

Inductive outcome (A : Type) := Ok (a : A) | Err (e : err) | Panic.
Arguments Ok {A} a.
Arguments Err {A} e.
Arguments Panic {A}.

(* ---- external cryptography ------------------------------------------------------------------ *)
Record crypto := {
  ckey : Type;                                   (* an AES-256-GCM instance: aes.NewCipher + cipher.NewGCM *)
  ctext : Type;                                  (* ciphertext incl. tag *)
  raw_key : bytes -> ckey;                       (* from 32 raw key bytes (legacy path) *)
  argon : bytes -> bytes -> ckey;                (* deriveKeyArgon2 passphrase salt, local.go:428-435, then NewCipher/NewGCM *)
  seal : ckey -> bytes -> bytes -> ctext;        (* gcm.Seal(nil, nonce, plaintext, nil) *)
  open : ckey -> bytes -> ctext -> option bytes; (* gcm.Open(nil, nonce, ct, nil) — called with 12-byte nonces only *)
  ed_pub : bytes -> bytes;                       (* Ed25519: public key of a 32-byte seed *)
  ed_sign : bytes -> bytes -> bytes;             (* Ed25519PrivateKey.Sign: 64-byte key, message *)
  ed_verify : bytes -> bytes -> bytes -> bool;   (* Ed25519PublicKey.Verify: public key, message, signature *)
  sha256 : bytes -> bytes
}.

(* the ideal hypotheses (trusted base): AEAD correct and binding to key and nonce, KDF injective and
   disjoint from raw keys, Ed25519 correct on well-formed keys *)
Record ideal (c : crypto) : Prop := {
  open_seal : forall k n p, open c k n (seal c k n p) = Some p;
  open_binds : forall k n p k' n', open c k' n' (seal c k n p) <> None -> k' = k /\ n' = n;
  argon_inj : forall p s p' s', argon c p s = argon c p' s' -> p = p' /\ s = s';
  argon_not_raw : forall p s b, argon c p s <> raw_key c b;
  raw_key_inj : forall b b', raw_key c b = raw_key c b' -> b = b';
  ed_pub_len : forall seed, length seed = 32 -> length (ed_pub c seed) = 32;
  ed_correct : forall seed m, length seed = 32 ->
     ed_verify c (ed_pub c seed) m (ed_sign c (seed ++ ed_pub c seed) m) = true
}.

(* a ciphertext no key opens: what a blind corruption of the ciphertext bytes yields under an ideal AEAD *)
Definition unopenable (c : crypto) (ct : ctext c) : Prop := forall k n, open c k n ct = None.

(* ---- libp2p Ed25519 key (un)marshalling, byte-exact ------------------------------------------- *)
Definition slice (a b : nat) (l : bytes) : bytes := firstn (b - a) (skipn a l).

(* crypto.UnmarshalEd25519PrivateKey (go-libp2p core/crypto/ed25519.go:129-157): 64 bytes are taken as they
   are; 96 bytes must repeat the public key and are cut to 64; anything else is an error *)
Definition unmarshal_priv (pt : bytes) : option bytes :=
  if Nat.eqb (length pt) 96 then
    if bytes_eqb (slice 32 64 pt) (slice 64 96 pt) then Some (firstn 64 pt) else None
  else if Nat.eqb (length pt) 64 then Some pt else None.

(* Ed25519PrivateKey.GetPublic: k[32:] *)
Definition pub_of_priv (k : bytes) : bytes := skipn 32 k.

(* crypto.UnmarshalEd25519PublicKey: exactly 32 bytes *)
Definition unmarshal_pub (b : bytes) : option bytes := if Nat.eqb (length b) 32 then Some b else None.

(* ---- fallbackDeriveKey, local.go:439-450 (line numbers: repaired file), byte-exact ------------------------------------------ *)
Definition fallback_derive (pass : bytes) : outcome bytes :=
  let n := length pass in
  if Nat.leb 32 n then Ok (firstn 32 pass)                       (* :440-442 passphrase[:keyLen] *)
  else if Nat.eqb n 0 then Panic                                  (* :447 i % len(passphrase): integer divide by zero *)
  else Ok (pass ++ map (fun i => N.lxor (nth (i mod n) pass 0%N) (N.of_nat i)) (seq n (32 - n))).  (* :444-449 *)

(* ---- signers ---------------------------------------------------------------------------------- *)
(* FileSystemSigner {privateKey, publicKey} local.go:23-28 — the two keys are separate fields *)
Record signer := mk_signer { s_priv : bytes; s_pub : bytes }.

Section WithCrypto.
Variable c : crypto.

(* keyData local.go:31-36, decoded *)
Record keydata := mkKeydata { kd_ct : ctext c; kd_nonce : bytes; kd_pub : bytes; kd_salt : bytes }.

Inductive file := FAbsent | FBadJson | FData (d : keydata).

(* local.go loadKeys :339-349 / ExportPrivateKey :127-136 (repaired: empty passphrase on a salt-less file is an error) *)
Definition derive_key (d : keydata) (pass : bytes) : outcome (ckey c) :=
  match kd_salt d with
  | [] => match pass with
          | [] => Err ELegacyEmpty
          | _ => match fallback_derive pass with
                 | Ok k => Ok (raw_key c k)
                 | Err e => Err e
                 | Panic => Panic
                 end
          end
  | _ => Ok (argon c pass (kd_salt d))
  end.

(* loadKeys :351-368 / ExportPrivateKey :139-156 (repaired: nonce length checked before gcm.Open, which panics otherwise) *)
Definition decrypt_data (d : keydata) (pass : bytes) : outcome bytes :=
  match derive_key d pass with
  | Ok k => if Nat.eqb (length (kd_nonce d)) 12
            then match open c k (kd_nonce d) (kd_ct d) with
                 | Some pt => Ok pt
                 | None => Err EDecrypt
                 end
            else Err ENonce
  | Err e => Err e
  | Panic => Panic
  end.

(* ExportPrivateKey local.go:110-159 *)
Definition export (f : file) (pass : bytes) : outcome bytes :=
  match f with
  | FAbsent => Err EIo                 (* :116-119 *)
  | FBadJson => Err EJson              (* :122-125 *)
  | FData d => decrypt_data d pass
  end.

(* LoadFileSystemSigner local.go:81-105 + loadKeys :322-393 (repaired: stored public key must be the private key's) *)
Definition load (f : file) (pass : bytes) : outcome signer :=
  match f with
  | FAbsent => Err EIo                 (* :87-92 *)
  | FBadJson => Err EJson              (* :334-337 *)
  | FData d =>
    match decrypt_data d pass with
    | Ok pt =>
      match unmarshal_priv pt with     (* :371-374 *)
      | None => Err EPriv
      | Some k =>
        match unmarshal_pub (kd_pub d) with   (* :377-380 *)
        | None => Err EPub
        | Some p => if bytes_eqb (pub_of_priv k) p   (* :381-383 *)
                    then Ok (mk_signer k p)           (* :386-387 *)
                    else Err EMismatch
        end
      end
    | Err e => Err e
    | Panic => Panic
    end
  end.

(* saveKeys local.go:242-319; the 16-byte salt and 12-byte nonce drawn from crypto/rand are inputs *)
Definition save (s : signer) (pass salt nonce : bytes) : file :=
  FData (mkKeydata (seal c (argon c pass salt) nonce (s_priv s)) nonce (s_pub s) salt).

(* CreateFileSystemSigner local.go:39-78; crypto.GenerateKeyPair(Ed25519): private key = seed ++ public key *)
Definition new_signer (seed : bytes) : signer := mk_signer (seed ++ ed_pub c seed) (ed_pub c seed).
Definition create (seed pass salt nonce : bytes) : signer * file :=
  (new_signer seed, save (new_signer seed) pass salt nonce).

(* ImportPrivateKey local.go:164-239: the bytes given are sealed as they are, pub_key is the unmarshalled key's *)
Definition import (privbytes pass salt nonce : bytes) : outcome file :=
  match unmarshal_priv privbytes with   (* :177-180 *)
  | None => Err EPriv
  | Some k => Ok (FData (mkKeydata (seal c (argon c pass salt) nonce privbytes) nonce (pub_of_priv k) salt))
  end.

(* a file in the legacy salt-less format, as older versions wrote it: sealed under the 32 raw bytes *)
Definition legacy_file (s : signer) (rawkey nonce : bytes) : file :=
  FData (mkKeydata (seal c (raw_key c rawkey) nonce (s_priv s)) nonce (s_pub s) []).

(* FileSystemSigner.Sign / GetPublic / GetAddress local.go:396-425, getAddress :460-468 *)
Definition signer_sign (s : signer) (m : bytes) : bytes := ed_sign c (s_priv s) m.
Definition signer_public (s : signer) : bytes := s_pub s.
Definition signer_address (s : signer) : bytes := sha256 c (s_pub s).
(* types.KeyAddress types/signer.go:42-49 and types.NewSigner :24-35: what full nodes derive from a public key *)
Definition key_address (pub : bytes) : bytes := sha256 c pub.
(* types.Signer.Verify types/signer.go:38-40 *)
Definition verify_under (pub m sig : bytes) : bool := ed_verify c pub m sig.
(* noop.NewNoopSigner pkg/signer/noop/signer.go:21-34: public key and address from the private key *)
Definition noop_signer (priv : bytes) : signer := mk_signer priv (pub_of_priv priv).
Definition noop_address (priv : bytes) : bytes := sha256 c (pub_of_priv priv).

(* a signature made by the signer verifies under the public key it reports *)
Definition signer_verifies (s : signer) (m : bytes) : bool :=
  verify_under (signer_public s) m (signer_sign s m).

End WithCrypto.

Arguments FAbsent {c}.
Arguments FBadJson {c}.
Arguments FData {c} d.

(* ---- histories over ONE key file path -------------------------------------------------------------
   The operations of the package applied one after the other to the same path: what each returns and what
   the file holds afterwards.  LoadFileSystemSigner (local.go:81-105, loadKeys :322-393) and ExportPrivateKey
   (:110-159) only READ the file (os.Stat / os.ReadFile, no write); ImportPrivateKey (:164-239) overwrites
   whatever is at the path, but only after the key bytes unmarshalled (:177-180, the write is at :234);
   CreateFileSystemSigner (:39-78) refuses a path that already holds a file (:51-53, nothing written).
   As in [save]/[import], the salts and nonces drawn from crypto/rand are inputs; the key pair drawn by
   Create is an input too (a signer).
   [HDamage]: a fault between two operations replaces the content of the file (truncation, empty file, flipped
   bytes, deletion).  What the operations answer afterwards is a function of what the file holds NOW: nothing
   an earlier operation wrote (a key rotated away, the passphrase it was sealed under) is kept anywhere. *)
Section Histories.
Variable c : crypto.

Inductive hop :=
| HLoad (pass : bytes)
| HExport (pass : bytes)
| HImport (priv pass salt nonce : bytes)
| HCreate (s : signer) (pass salt nonce : bytes)
(* NOT an operation of the package: a fault of the environment between two operations.  The content of
   signer.json becomes f' (cut short by an interrupted write, emptied, bytes flipped, deleted).  The package
   keeps NOTHING besides signer.json (no second copy, no cache: os.ReadFile local.go:116/:328 and os.WriteFile
   :234/:310 name that one file only), so after the fault the state of the path is f' and nothing else. *)
| HDamage (f' : file c).

Inductive hres := RSigner (o : outcome signer) | RBytes (o : outcome bytes) | RDone (o : outcome unit).

Definition hstep (f : file c) (op : hop) : file c * hres :=
  match op with
  | HLoad p => (f, RSigner (load c f p))
  | HExport p => (f, RBytes (export c f p))
  | HImport k p salt nonce =>
      match import c k p salt nonce with
      | Ok f' => (f', RDone (Ok tt))
      | Err e => (f, RDone (Err e))
      | Panic => (f, RDone Panic)
      end
  | HCreate s p salt nonce =>
      match f with
      | FAbsent => (save c s p salt nonce, RDone (Ok tt))
      | _ => (f, RDone (Err EExists))            (* :51-53 "key file already exists" *)
      end
  | HDamage f' => (f', RDone (Ok tt))
  end.

(* file and result after each step *)
Fixpoint hrun (f : file c) (ops : list hop) : list (file c * hres) :=
  match ops with
  | [] => []
  | op :: r => let fr := hstep f op in fr :: hrun (fst fr) r
  end.

Definition hfile (f : file c) (ops : list hop) : file c := fold_left (fun f op => fst (hstep f op)) ops f.

(* ---- a signing session: FileSystemSigner.Sign local.go:396-405 called again and again on one signer.
   Sign keeps nothing between calls: what it returns is a function of the key and of the BYTES the message
   slice holds at the time of the call, whether the caller hands a fresh slice, the same buffer again, the
   same buffer rewritten in place, or a prefix of it. *)
Inductive sop :=
| SNew (m : bytes)                 (* buf = fresh slice holding m;            Sign(buf) *)
| SPatch (off : nat) (bs : bytes)  (* copy(buf[off:], bs)  (in place);        Sign(buf) *)
| SResign                          (*                                         Sign(buf) *)
| SPrefix (n : nat)                (*                                         Sign(buf[:n]) *)
| SFresh (m : bytes).              (* buf untouched;                          Sign(fresh slice holding m) *)

(* Go's copy(buf[off:], bs): min(len bs, len buf - off) bytes are overwritten, the length stays *)
Definition patch (off : nat) (bs buf : bytes) : bytes :=
  firstn off buf ++ firstn (length buf - off) bs ++ skipn (off + length bs) buf.

(* new buffer content, message handed to Sign *)
Definition sop_step (buf : bytes) (op : sop) : bytes * bytes :=
  match op with
  | SNew m => (m, m)
  | SPatch off bs => (patch off bs buf, patch off bs buf)
  | SResign => (buf, buf)
  | SPrefix n => (buf, firstn n buf)
  | SFresh m => (buf, m)
  end.

(* the bytes each Sign call of the session is given *)
Fixpoint session_msgs (buf : bytes) (ops : list sop) : list bytes :=
  match ops with
  | [] => []
  | op :: r => snd (sop_step buf op) :: session_msgs (fst (sop_step buf op)) r
  end.

Definition session_sigs (s : signer) (ops : list sop) : list bytes :=
  map (signer_sign c s) (session_msgs [] ops).

End Histories.

Arguments HLoad {c} pass.
Arguments HExport {c} pass.
Arguments HImport {c} priv pass salt nonce.
Arguments HCreate {c} s pass salt nonce.
Arguments HDamage {c} f'.

(* ---- symbolic instance ------------------------------------------------------------------------ *)
Inductive skey := KRaw (b : bytes) | KArgon (pass salt : bytes).
Inductive sct := CSeal (k : skey) (nonce pt : bytes) | CJunk.

Definition skey_eqb (a b : skey) : bool :=
  match a, b with
  | KRaw x, KRaw y => bytes_eqb x y
  | KArgon p s, KArgon p' s' => bytes_eqb p p' && bytes_eqb s s'
  | _, _ => false
  end.

Definition sym_open (k : skey) (n : bytes) (ct : sct) : option bytes :=
  match ct with
  | CSeal k' n' pt => if skey_eqb k k' && bytes_eqb n n' then Some pt else None
  | CJunk => None
  end.

(* toy Ed25519: the public key of a seed is the seed, a signature is the public half of the key followed
   by the message.  Correct (all the theorems ask of Ed25519); of course not unforgeable. *)
Definition sym : crypto := {|
  ckey := skey; ctext := sct;
  raw_key := KRaw; argon := KArgon;
  seal := CSeal; open := sym_open;
  ed_pub := fun seed => seed;
  ed_sign := fun priv m => skipn 32 priv ++ m;
  ed_verify := fun pub m sig => bytes_eqb sig (pub ++ m);
  sha256 := fun b => 0%N :: b
|}.
