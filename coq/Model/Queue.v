(* Model/Queue.v — the single sequencer's batch queue (C10), AFTER the repair of the key scheme
   (fixes/C10-content-hash-keys.diff).
   Mirrors /repo/sequencers/single/queue.go (BatchQueue: batchKey, AddBatch, Next, Load) and the admission
   logic of /repo/sequencers/single/sequencer.go (SubmitBatchTxs, GetNextBatch, NewSequencerWithQueueSize).
   Definitions only; proofs are in Proofs/QueueProofs.v.

   Two layers.
   (1) The KEYED CORE ([step_mem], [step], [run]): the queue as a function of the datastore key each accepted
       batch is stored under, the key being an INPUT of the submit step ([SB k b]).  It describes the queue
       for any key scheme; with content-hash keys it is the code BEFORE the repair (see the Examples
       before_the_repair_* in Props/C10.v).
   (2) The CODE AS IT IS ([r_step], [r_run], section "the repaired code"): the key is chosen by the queue
       itself, batchKey(nextSeq, hash) = "s" ++ 16 hex digits of a sequence number ++ "-" ++ hex hash
       (queue.go:37-44, 71); the model identifies such a key with its sequence number (the hash suffix plays
       no role for order or uniqueness).  Histories of this layer carry batch CONTENTS only.

   A batch is identified by its contents (an id: equal ids = equal transaction lists).  Keys are numbers;
   their order is the datastore's iteration order (Load asks for OrderByKey, queue.go:129; fixed-width hex
   preserves numeric order). *)
From Coq Require Import NArith List Bool.
Import ListNotations.
Open Scope N_scope.

Definition key := N.
Definition batch := N.
Definition entry := (key * batch)%type.

Definition keys (l : list entry) : list key := map fst l.

(* ---- the durable image: the "batches" prefix of the datastore, as the list of its records in
        iteration (= key) order.  Put replaces the record of an equal key. ------------------------- *)

(* sorted insertion of a key that is not present *)
Fixpoint db_insert (k : key) (b : batch) (d : list entry) : list entry :=
  match d with
  | [] => [(k, b)]
  | (k', b') :: r => if k <? k' then (k, b) :: d else (k', b') :: db_insert k b r
  end.

(* ds.Delete(key): queue.go:110 *)
Definition db_del (k : key) (d : list entry) : list entry :=
  filter (fun e => negb (fst e =? k)) d.

(* ds.Put(key, value): queue.go:83 — one record per key *)
Definition db_put (k : key) (b : batch) (d : list entry) : list entry :=
  db_insert k b (db_del k d).

(* the atomic datastore writes of a step, in order (each AddBatch / Next performs at most one) *)
Inductive wr := WPut (k : key) (b : batch) | WDel (k : key).

Definition apply_w (d : list entry) (w : wr) : list entry :=
  match w with WPut k b => db_put k b d | WDel k => db_del k d end.
Definition apply_ws (d : list entry) (ws : list wr) : list entry := fold_left apply_w ws d.

(* ---- state ------------------------------------------------------------------------------------ *)
(* mem = BatchQueue.queue zipped with BatchQueue.keys (queue.go:29-30): each queued batch with the key it
   was stored under (AddBatch, queue.go:88-89) or reloaded from (Load, queue.go:148-149); Next deletes that
   key (queue.go:106-110). *)
Record qstate := { mem : list entry; db : list entry }.

Definition st0 : qstate := {| mem := []; db := [] |}.

(* what a caller hands to SubmitBatchTxs: req.Batch == nil, zero transactions, or a real batch *)
Inductive sub := SNil | SEmpty | SB (k : key) (b : batch).

(* operations; [ok] = the request's chain id equals the sequencer's (sequencer.go:170 isValid) *)
Inductive op := OSubmit (ok : bool) (s : sub) | ONext (ok : bool).

(* results, as error classes *)
Inductive out :=
| ROk                (* SubmitBatchTxs: nil error (also for a skipped empty submission, sequencer.go:92-95) *)
| RInvalidId         (* ErrInvalidId, sequencer.go:88-90 and 115-117 *)
| RFull              (* wraps ErrQueueFull, sequencer.go:101-106 *)
| REmpty             (* GetNextBatch on an empty queue: a batch without transactions, queue.go:100-102 *)
| RBatch (b : batch) (* GetNextBatch: the head, queue.go:104-116 *).

(* queue.go:63  maxQueueSize > 0 && len(queue) >= maxQueueSize  (0 = unlimited) *)
Definition full (max : N) (m : list entry) : bool :=
  (0 <? max) && (max <=? N.of_nat (length m)).

(* one operation on the in-memory queue: new queue, result, datastore writes issued (in order).
   OSubmit: sequencer.go:87-111 + queue.go:58-93;  ONext: sequencer.go:114-128 + queue.go:96-117 *)
Definition step_mem (max : N) (m : list entry) (o : op) : list entry * out * list wr :=
  match o with
  | OSubmit false _ => (m, RInvalidId, [])
  | OSubmit true SNil => (m, ROk, [])
  | OSubmit true SEmpty => (m, ROk, [])
  | OSubmit true (SB k b) =>
      if full max m then (m, RFull, [])
      else (m ++ [(k, b)], ROk, [WPut k b])
  | ONext false => (m, RInvalidId, [])
  | ONext true =>
      match m with
      | [] => (m, REmpty, [])
      | (k, b) :: r => (r, RBatch b, [WDel k])
      end
  end.

(* BatchQueue.Load, queue.go:120-158: the queue becomes the records of the datastore in key order.
   Called by NewSequencerWithQueueSize (sequencer.go:76-80) = every process start. *)
Definition load (d : list entry) : qstate := {| mem := d; db := d |}.

(* ---- histories (DESIGN 2.5) -------------------------------------------------------------------- *)
(* IOp o      : the operation runs to completion
   IRestart   : the process stops between operations and a new Sequencer is built on the same datastore
   ICrash o n : the process dies inside o after n of its datastore writes became durable; then restart.
                Every operation has at most one write, so n = 0 (write lost) or n >= 1 (write durable,
                the caller never saw the result). *)
Inductive item := IOp (o : op) | IRestart | ICrash (o : op) (n : nat).

Definition step (max : N) (st : qstate) (it : item) : qstate * option out :=
  match it with
  | IOp o =>
      let '(m', r, ws) := step_mem max (mem st) o in
      ({| mem := m'; db := apply_ws (db st) ws |}, Some r)
  | IRestart => (load (db st), None)
  | ICrash o n =>
      let '(_, _, ws) := step_mem max (mem st) o in
      (load (apply_ws (db st) (firstn n ws)), None)
  end.

Fixpoint run (max : N) (st : qstate) (h : list item) : qstate * list (option out) :=
  match h with
  | [] => (st, [])
  | it :: r =>
      let '(st', o) := step max st it in
      let '(st'', os) := run max st' r in
      (st'', o :: os)
  end.

Definition final (max : N) (h : list item) : qstate := fst (run max st0 h).
Definition outputs (max : N) (h : list item) : list (option out) := snd (run max st0 h).

(* the write log of a history (compared with the recorded datastore writes of the real run) *)
Fixpoint wlog (max : N) (st : qstate) (h : list item) : list wr :=
  match h with
  | [] => []
  | it :: r =>
      let ws := match it with
                | IOp o => snd (step_mem max (mem st) o)
                | IRestart => []
                | ICrash o n => firstn n (snd (step_mem max (mem st) o))
                end in
      ws ++ wlog max (fst (step max st it)) r
  end.

(* ---- the specification: a plain FIFO of accepted, not yet handed out batches ---------------------
   (entries carry their key as a ghost tag so that guards can speak about keys; results mention
   contents only) *)
Definition a_step (max : N) (q : list entry) (o : op) : list entry * out :=
  match o with
  | OSubmit false _ => (q, RInvalidId)                      (* foreign chain id: no trace *)
  | OSubmit true SNil | OSubmit true SEmpty => (q, ROk)     (* empty submission: no trace *)
  | OSubmit true (SB k b) => if full max q then (q, RFull)  (* full: rejected, no trace *)
                             else (q ++ [(k, b)], ROk)       (* enqueue at the back *)
  | ONext false => (q, RInvalidId)
  | ONext true => match q with
                  | [] => (q, REmpty)
                  | e :: r => (r, RBatch (snd e))            (* dequeue at the front *)
                  end
  end.

(* a restart changes nothing; an operation cut by a crash either did not happen (its write was lost)
   or happened (its write is durable: a submission then counts as accepted, a hand-out as done) *)
Definition a_item (max : N) (q : list entry) (it : item) : list entry * option out :=
  match it with
  | IOp o => let '(q', r) := a_step max q o in (q', Some r)
  | IRestart => (q, None)
  | ICrash o n => ((match n with O => q | S _ => fst (a_step max q o) end), None)
  end.

Fixpoint a_run (max : N) (q : list entry) (h : list item) : list entry * list (option out) :=
  match h with
  | [] => (q, [])
  | it :: r =>
      let '(q', o) := a_item max q it in
      let '(q'', os) := a_run max q' r in
      (q'', o :: os)
  end.

Definition a_final (max : N) (h : list item) : list entry := fst (a_run max [] h).
Definition a_outputs (max : N) (h : list item) : list (option out) := snd (a_run max [] h).

(* ---- guards (decidable predicates of the history) ------------------------------------------------ *)
(* strictly increasing *)
Fixpoint ssorted (l : list N) : bool :=
  match l with [] => true | x :: r => forallb (N.ltb x) r && ssorted r end.

Definition memb (k : N) (l : list N) : bool := existsb (N.eqb k) l.

(* no submission is accepted while a batch with the same key is pending *)
Definition op_guard (max : N) (q : list entry) (o : op) : bool :=
  match o with
  | OSubmit true (SB k b) => full max q || negb (memb k (keys q))
  | _ => true
  end.

(* [fifo_guard]: (1) as above; (2) at every restart (and after every crash) the keys of the pending
   batches are strictly increasing in acceptance order.  With content-hash keys (1) reads "no two
   pending batches have equal contents" and (2) "the pending batches happen to have been accepted in
   the order of their hashes" — in particular (2) holds whenever at most one batch is pending. *)
Fixpoint fifo_guard (max : N) (q : list entry) (h : list item) : bool :=
  match h with
  | [] => true
  | IOp o :: r => op_guard max q o && fifo_guard max (fst (a_step max q o)) r
  | IRestart :: r => ssorted (keys q) && fifo_guard max q r
  | ICrash o n :: r =>
      let q' := fst (a_item max q (ICrash o n)) in
      ssorted (keys q') && fifo_guard max q' r
  end.

(* the keys computed by AddBatch-reaching submissions, in history order *)
Fixpoint submit_keys (h : list item) : list key :=
  match h with
  | [] => []
  | IOp (OSubmit true (SB k _)) :: r => k :: submit_keys r
  | ICrash (OSubmit true (SB k _)) _ :: r => k :: submit_keys r
  | _ :: r => submit_keys r
  end.

(* keys grow with every submission (the shape a repair of the key scheme must have) *)
Definition monotone_keys (h : list item) : bool := ssorted (submit_keys h).

(* content-hash keys: the (contents, key) pairs of a history form an injective function given by a table *)
Fixpoint submits (h : list item) : list (batch * key) :=
  match h with
  | [] => []
  | IOp (OSubmit _ (SB k b)) :: r => (b, k) :: submits r
  | ICrash (OSubmit _ (SB k b)) _ :: r => (b, k) :: submits r
  | _ :: r => submits r
  end.

Fixpoint nodupb (l : list N) : bool :=
  match l with [] => true | x :: r => negb (memb x r) && nodupb r end.

Definition hash_keyedb (tbl : list (batch * key)) (h : list item) : bool :=
  nodupb (map fst tbl) && nodupb (map snd tbl) &&
  forallb (fun p => existsb (fun t => (fst t =? fst p) && (snd t =? snd p)) tbl) (submits h).

(* ---- the statement "the queue is a durable FIFO on history h" -------------------------------------
   every result equals the specification's; the in-memory queue is exactly the pending batches in
   acceptance order; the durable image holds exactly the pending batches (one record each). *)
Definition fifo_refines (max : N) (h : list item) : Prop :=
  outputs max h = a_outputs max h /\
  mem (final max h) = a_final max h /\
  (forall e, In e (db (final max h)) <-> In e (a_final max h)).

(* ==== the repaired code: keys are chosen by the queue ================================================ *)

(* what a caller hands to SubmitBatchTxs (contents only) *)
Inductive usub := UNil | UEmpty | UB (b : batch).
Inductive uop := USubmit (ok : bool) (s : usub) | UNext (ok : bool).
Inductive uitem := UOp (o : uop) | URestart | UCrash (o : uop) (n : nat).

(* BatchQueue with its sequence counter: nseq = BatchQueue.nextSeq (queue.go:31) *)
Record rstate := { core : qstate; nseq : N }.

(* Load, queue.go:150-155: continue numbering above every reloaded record (a fresh BatchQueue starts at 0) *)
Definition next_seq (d : list entry) : N := fold_left (fun a e => N.max a (fst e + 1)) d 0.

(* NewSequencerWithQueueSize -> NewBatchQueue + Load (sequencer.go:66-80): every process start *)
Definition r_boot (d : list entry) : rstate := {| core := load d; nseq := next_seq d |}.
Definition r_st0 : rstate := r_boot [].

(* AddBatch stores the batch under batchKey(nextSeq, hash), queue.go:71 *)
Definition key_op (s : N) (o : uop) : op :=
  match o with
  | USubmit ok UNil => OSubmit ok SNil
  | USubmit ok UEmpty => OSubmit ok SEmpty
  | USubmit ok (UB b) => OSubmit ok (SB s b)
  | UNext ok => ONext ok
  end.
Definition key_item (s : N) (it : uitem) : item :=
  match it with
  | UOp o => IOp (key_op s o)
  | URestart => IRestart
  | UCrash o n => ICrash (key_op s o) n
  end.

(* AddBatch reached its end (queue.go:88-90: append, nextSeq++) *)
Definition accepts (max : N) (m : list entry) (o : uop) : bool :=
  match o with USubmit true (UB _) => negb (full max m) | _ => false end.

Definition r_step (max : N) (rst : rstate) (it : uitem) : rstate * option out :=
  let '(st', r) := step max (core rst) (key_item (nseq rst) it) in
  match it with
  | UOp o => ({| core := st'; nseq := if accepts max (mem (core rst)) o then nseq rst + 1 else nseq rst |}, r)
  | URestart | UCrash _ _ => (r_boot (db st'), r)     (* a new process: counter restored from the records *)
  end.

Fixpoint r_run (max : N) (rst : rstate) (h : list uitem) : rstate * list (option out) :=
  match h with
  | [] => (rst, [])
  | it :: r =>
      let '(rst', o) := r_step max rst it in
      let '(rst'', os) := r_run max rst' r in
      (rst'', o :: os)
  end.

Definition r_final (max : N) (h : list uitem) : rstate := fst (r_run max r_st0 h).
Definition r_outputs (max : N) (h : list uitem) : list (option out) := snd (r_run max r_st0 h).

(* the write log of a history of the repaired code (compared with the recorded datastore writes) *)
Fixpoint r_wlog (max : N) (rst : rstate) (h : list uitem) : list wr :=
  match h with
  | [] => []
  | it :: r =>
      wlog max (core rst) [key_item (nseq rst) it] ++ r_wlog max (fst (r_step max rst it)) r
  end.

(* ---- the specification: a plain FIFO of batch contents ------------------------------------------------ *)
Definition s_full (max : N) (q : list batch) : bool :=
  (0 <? max) && (max <=? N.of_nat (length q)).

Definition s_step (max : N) (q : list batch) (o : uop) : list batch * out :=
  match o with
  | USubmit false _ => (q, RInvalidId)                      (* foreign chain id: no trace *)
  | USubmit true UNil | USubmit true UEmpty => (q, ROk)     (* empty submission: no trace *)
  | USubmit true (UB b) => if s_full max q then (q, RFull)  (* full: rejected, no trace *)
                           else (q ++ [b], ROk)              (* accepted: enqueue at the back *)
  | UNext false => (q, RInvalidId)
  | UNext true => match q with
                  | [] => (q, REmpty)
                  | b :: r => (r, RBatch b)                  (* hand out the oldest *)
                  end
  end.

(* a restart changes nothing; an operation cut by a crash either did not happen (its write was lost) or
   happened (its write is durable: a submission then counts as accepted, a hand-out as done) *)
Definition s_item (max : N) (q : list batch) (it : uitem) : list batch * option out :=
  match it with
  | UOp o => let '(q', r) := s_step max q o in (q', Some r)
  | URestart => (q, None)
  | UCrash o n => ((match n with O => q | S _ => fst (s_step max q o) end), None)
  end.

Fixpoint s_run (max : N) (q : list batch) (h : list uitem) : list batch * list (option out) :=
  match h with
  | [] => (q, [])
  | it :: r =>
      let '(q', o) := s_item max q it in
      let '(q'', os) := s_run max q' r in
      (q'', o :: os)
  end.

Definition s_final (max : N) (h : list uitem) : list batch := fst (s_run max [] h).
Definition s_outputs (max : N) (h : list uitem) : list (option out) := snd (s_run max [] h).

(* what "accepted" and "handed out" mean in a run of the specification: the contents, in order *)
Definition accepted_by (max : N) (q : list batch) (it : uitem) : list batch :=
  match it with
  | UOp (USubmit true (UB b)) => if s_full max q then [] else [b]
  | UCrash (USubmit true (UB b)) (S _) => if s_full max q then [] else [b]
  | _ => []
  end.
Definition delivered_by (q : list batch) (it : uitem) : list batch :=
  match it with
  | UOp (UNext true) => match q with [] => [] | b :: _ => [b] end
  | UCrash (UNext true) (S _) => match q with [] => [] | b :: _ => [b] end
  | _ => []
  end.
Fixpoint s_accepted (max : N) (q : list batch) (h : list uitem) : list batch :=
  match h with [] => [] | it :: r => accepted_by max q it ++ s_accepted max (fst (s_item max q it)) r end.
Fixpoint s_delivered (max : N) (q : list batch) (h : list uitem) : list batch :=
  match h with [] => [] | it :: r => delivered_by q it ++ s_delivered max (fst (s_item max q it)) r end.

(* ---- "the queue is a durable exactly-once FIFO on history h" ---------------------------------------------
   every result equals the specification's; the in-memory queue is exactly the pending batches in acceptance
   order; the datastore holds exactly the pending batches, one record each, and its key order is their
   acceptance order (so a restart at this point rebuilds the same queue). *)
Definition r_fifo (max : N) (h : list uitem) : Prop :=
  r_outputs max h = s_outputs max h /\
  map snd (mem (core (r_final max h))) = s_final max h /\
  map snd (db (core (r_final max h))) = s_final max h.

(* ==== a submission as the caller hands it over: transactions with their sizes ==============================
   SubmitBatchTxs (sequencer.go:87-111) distinguishes three shapes of req.Batch — nil pointer, no transactions,
   some transactions — and looks at nothing else: not at the number of transactions beyond zero / non-zero and
   at no transaction's size.  The whole list becomes ONE coresequencer.Batch and ONE call of AddBatch
   (sequencer.go:97-99), i.e. one bound check, one Put, one queue entry.  [enc] names the contents of a
   non-empty transaction list (the model's batch id; equal lists = equal ids). *)
Definition tx := (N * N)%type.                        (* (transaction id, size in bytes) *)
Definition payload (l : list tx) : N := fold_right (fun t a => snd t + a) 0 l.
Definition sub_of (enc : list tx -> batch) (req : option (list tx)) : usub :=
  match req with None => UNil | Some [] => UEmpty | Some l => UB (enc l) end.

(* ==== the bound is a parameter of every PROCESS START =====================================================
   maxQueueSize is an argument of NewSequencerWithQueueSize (sequencer.go:60-80) -> NewBatchQueue (queue.go:48-54):
   it is fixed for the life of one process, and a restart may bring another one (the operator lowers or raises the
   bound; an upgrade from "unlimited").  Load (queue.go:120-158) does not look at it: the query has no Limit, EVERY
   record is reloaded, and nextSeq continues above every record — so a process started with a bound smaller than the
   number of pending batches holds more than its bound; AddBatch (queue.go:63) then refuses until enough was handed
   out.  Histories of this layer name the bound of the process each restart / crash recovery starts. *)
Inductive vitem :=
| VOp (o : uop)                            (* the operation runs to completion, under the current process's bound *)
| VStart (max : N)                         (* the process stops between operations; a new one is started with bound [max] *)
| VCrash (o : uop) (n : nat) (max : N).    (* the process dies inside o after n of its writes; a new one with bound [max] *)

(* vmax = BatchQueue.maxQueueSize of the running process; vload = len(bq.queue) when its Load returned *)
Record vstate := { vr : rstate; vmax : N; vload : N }.

Definition v_boot (max : N) (d : list entry) : vstate :=
  {| vr := r_boot d; vmax := max; vload := N.of_nat (length d) |}.
Definition v_st0 (max : N) : vstate := v_boot max [].

Definition v_plain (it : vitem) : uitem :=
  match it with VOp o => UOp o | VStart _ => URestart | VCrash o n _ => UCrash o n end.
(* the bound in force after the item *)
Definition v_next_max (cur : N) (it : vitem) : N :=
  match it with VOp _ => cur | VStart m => m | VCrash _ _ m => m end.

(* operations and crash cuts happen under the running process's bound; the process start itself ([r_boot] inside
   [r_step]: Load + counter) takes no bound at all *)
Definition v_step (st : vstate) (it : vitem) : vstate * option out :=
  let '(rst', r) := r_step (vmax st) (vr st) (v_plain it) in
  match it with
  | VOp _ => ({| vr := rst'; vmax := vmax st; vload := vload st |}, r)
  | VStart m | VCrash _ _ m =>
      ({| vr := rst'; vmax := m; vload := N.of_nat (length (mem (core rst'))) |}, r)
  end.

Fixpoint v_run (st : vstate) (h : list vitem) : vstate * list (option out) :=
  match h with
  | [] => (st, [])
  | it :: r =>
      let '(st', o) := v_step st it in
      let '(st'', os) := v_run st' r in
      (st'', o :: os)
  end.

(* [max0] = the bound of the first process (on an empty datastore) *)
Definition v_final (max0 : N) (h : list vitem) : vstate := fst (v_run (v_st0 max0) h).
Definition v_outputs (max0 : N) (h : list vitem) : list (option out) := snd (v_run (v_st0 max0) h).

Fixpoint v_wlog (st : vstate) (h : list vitem) : list wr :=
  match h with
  | [] => []
  | it :: r => r_wlog (vmax st) (vr st) [v_plain it] ++ v_wlog (fst (v_step st it)) r
  end.

(* the specification: the same plain FIFO; the bound only decides whether a submission is accepted, and it is the
   bound of the process that receives the submission.  A restart changes nothing in the queue, whatever the bounds. *)
Fixpoint sv_run (max : N) (q : list batch) (h : list vitem) : list batch * list (option out) :=
  match h with
  | [] => (q, [])
  | it :: r =>
      let '(q', o) := s_item max q (v_plain it) in
      let '(q'', os) := sv_run (v_next_max max it) q' r in
      (q'', o :: os)
  end.
Definition sv_final (max0 : N) (h : list vitem) : list batch := fst (sv_run max0 [] h).
Definition sv_outputs (max0 : N) (h : list vitem) : list (option out) := snd (sv_run max0 [] h).

Fixpoint sv_accepted (max : N) (q : list batch) (h : list vitem) : list batch :=
  match h with
  | [] => []
  | it :: r => accepted_by max q (v_plain it) ++ sv_accepted (v_next_max max it) (fst (s_item max q (v_plain it))) r
  end.
Fixpoint sv_delivered (max : N) (q : list batch) (h : list vitem) : list batch :=
  match h with
  | [] => []
  | it :: r => delivered_by q (v_plain it) ++ sv_delivered (v_next_max max it) (fst (s_item max q (v_plain it))) r
  end.

(* "the queue is a durable exactly-once FIFO on history h", bounds changing from process to process *)
Definition v_fifo (max0 : N) (h : list vitem) : Prop :=
  v_outputs max0 h = sv_outputs max0 h /\
  map snd (mem (core (vr (v_final max0 h)))) = sv_final max0 h /\
  map snd (db (core (vr (v_final max0 h)))) = sv_final max0 h.

(* a history whose process starts all use the same bound *)
Definition v_of (max : N) (it : uitem) : vitem :=
  match it with UOp o => VOp o | URestart => VStart max | UCrash o n => VCrash o n max end.
