(* Model/Queue.v — the single sequencer's batch queue (C10).
   Mirrors /repo/sequencers/single/queue.go (BatchQueue: AddBatch, Next, Load) and the admission
   logic of /repo/sequencers/single/sequencer.go (SubmitBatchTxs, GetNextBatch, NewSequencerWithQueueSize).
   Definitions only; proofs are in Proofs/QueueProofs.v.

   Vocabulary.  A batch is identified by its CONTENTS (an id: equal ids = equal transaction lists).
   The datastore key under which AddBatch stores a batch is an INPUT of the submit step ([SB k b]):
   in the code it is hex(SHA-256(length-prefixed contents)) (queue.go:56-60, core/sequencer/sequencing.go
   Batch.Hash), i.e. a function of the contents.  Histories in which the key is an injective function of
   the contents are [hash_keyedb]; every history the harness produces from the real code is of that form.
   Keeping the key an input lets the same model also describe key schemes a repair could use
   (C10_fifo_monotone_keys_partial).  Keys are numbers; their order is the datastore's iteration order
   (badger iterates in key order; hex encoding preserves byte order). *)
From Coq Require Import NArith List Bool.
Import ListNotations.
Open Scope N_scope.

Definition key := N.
Definition batch := N.
Definition entry := (key * batch)%type.

Definition keys (l : list entry) : list key := map fst l.

(* ---- the durable image: the "batches" prefix of the datastore, as the list of its records in
        iteration (= key) order.  Put replaces the record of an equal key. ------------------------- *)

(* sorted insertion of a key that is not present *)
Fixpoint db_insert (k : key) (b : batch) (d : list entry) : list entry :=
  match d with
  | [] => [(k, b)]
  | (k', b') :: r => if k <? k' then (k, b) :: d else (k', b') :: db_insert k b r
  end.

(* ds.Delete(key): queue.go:101 *)
Definition db_del (k : key) (d : list entry) : list entry :=
  filter (fun e => negb (fst e =? k)) d.

(* ds.Put(key, value): queue.go:72 — one record per key *)
Definition db_put (k : key) (b : batch) (d : list entry) : list entry :=
  db_insert k b (db_del k d).

(* the atomic datastore writes of a step, in order (each AddBatch / Next performs at most one) *)
Inductive wr := WPut (k : key) (b : batch) | WDel (k : key).

Definition apply_w (d : list entry) (w : wr) : list entry :=
  match w with WPut k b => db_put k b d | WDel k => db_del k d end.
Definition apply_ws (d : list entry) (ws : list wr) : list entry := fold_left apply_w ws d.

(* ---- state ------------------------------------------------------------------------------------ *)
(* mem = BatchQueue.queue (queue.go:29).  The code keeps only the batch and recomputes its key by
   hashing at Next (queue.go:94-98); the model remembers the key computed at AddBatch, which is the
   same value whenever the key is a function of the contents. *)
Record qstate := { mem : list entry; db : list entry }.

Definition st0 : qstate := {| mem := []; db := [] |}.

(* what a caller hands to SubmitBatchTxs: req.Batch == nil, zero transactions, or a real batch *)
Inductive sub := SNil | SEmpty | SB (k : key) (b : batch).

(* operations; [ok] = the request's chain id equals the sequencer's (sequencer.go:170 isValid) *)
Inductive op := OSubmit (ok : bool) (s : sub) | ONext (ok : bool).

(* results, as error classes *)
Inductive out :=
| ROk                (* SubmitBatchTxs: nil error (also for a skipped empty submission, sequencer.go:92-95) *)
| RInvalidId         (* ErrInvalidId, sequencer.go:88-90 and 115-117 *)
| RFull              (* wraps ErrQueueFull, sequencer.go:101-106 *)
| REmpty             (* GetNextBatch on an empty queue: a batch without transactions, queue.go:87-89 *)
| RBatch (b : batch) (* GetNextBatch: the head, queue.go:91-107 *).

(* queue.go:52  maxQueueSize > 0 && len(queue) >= maxQueueSize  (0 = unlimited) *)
Definition full (max : N) (m : list entry) : bool :=
  (0 <? max) && (max <=? N.of_nat (length m)).

(* one operation on the in-memory queue: new queue, result, datastore writes issued (in order).
   OSubmit: sequencer.go:87-111 + queue.go:47-80;  ONext: sequencer.go:114-128 + queue.go:83-108 *)
Definition step_mem (max : N) (m : list entry) (o : op) : list entry * out * list wr :=
  match o with
  | OSubmit false _ => (m, RInvalidId, [])
  | OSubmit true SNil => (m, ROk, [])
  | OSubmit true SEmpty => (m, ROk, [])
  | OSubmit true (SB k b) =>
      if full max m then (m, RFull, [])
      else (m ++ [(k, b)], ROk, [WPut k b])
  | ONext false => (m, RInvalidId, [])
  | ONext true =>
      match m with
      | [] => (m, REmpty, [])
      | (k, b) :: r => (r, RBatch b, [WDel k])
      end
  end.

(* BatchQueue.Load, queue.go:111-141: the queue becomes the records of the datastore in iteration order.
   Called by NewSequencerWithQueueSize (sequencer.go:76-80) = every process start. *)
Definition load (d : list entry) : qstate := {| mem := d; db := d |}.

(* ---- histories (DESIGN 2.5) -------------------------------------------------------------------- *)
(* IOp o      : the operation runs to completion
   IRestart   : the process stops between operations and a new Sequencer is built on the same datastore
   ICrash o n : the process dies inside o after n of its datastore writes became durable; then restart.
                Every operation has at most one write, so n = 0 (write lost) or n >= 1 (write durable,
                the caller never saw the result). *)
Inductive item := IOp (o : op) | IRestart | ICrash (o : op) (n : nat).

Definition step (max : N) (st : qstate) (it : item) : qstate * option out :=
  match it with
  | IOp o =>
      let '(m', r, ws) := step_mem max (mem st) o in
      ({| mem := m'; db := apply_ws (db st) ws |}, Some r)
  | IRestart => (load (db st), None)
  | ICrash o n =>
      let '(_, _, ws) := step_mem max (mem st) o in
      (load (apply_ws (db st) (firstn n ws)), None)
  end.

Fixpoint run (max : N) (st : qstate) (h : list item) : qstate * list (option out) :=
  match h with
  | [] => (st, [])
  | it :: r =>
      let '(st', o) := step max st it in
      let '(st'', os) := run max st' r in
      (st'', o :: os)
  end.

Definition final (max : N) (h : list item) : qstate := fst (run max st0 h).
Definition outputs (max : N) (h : list item) : list (option out) := snd (run max st0 h).

(* the write log of a history (compared with the recorded datastore writes of the real run) *)
Fixpoint wlog (max : N) (st : qstate) (h : list item) : list wr :=
  match h with
  | [] => []
  | it :: r =>
      let ws := match it with
                | IOp o => snd (step_mem max (mem st) o)
                | IRestart => []
                | ICrash o n => firstn n (snd (step_mem max (mem st) o))
                end in
      ws ++ wlog max (fst (step max st it)) r
  end.

(* ---- the specification: a plain FIFO of accepted, not yet handed out batches ---------------------
   (entries carry their key as a ghost tag so that guards can speak about keys; results mention
   contents only) *)
Definition a_step (max : N) (q : list entry) (o : op) : list entry * out :=
  match o with
  | OSubmit false _ => (q, RInvalidId)                      (* foreign chain id: no trace *)
  | OSubmit true SNil | OSubmit true SEmpty => (q, ROk)     (* empty submission: no trace *)
  | OSubmit true (SB k b) => if full max q then (q, RFull)  (* full: rejected, no trace *)
                             else (q ++ [(k, b)], ROk)       (* enqueue at the back *)
  | ONext false => (q, RInvalidId)
  | ONext true => match q with
                  | [] => (q, REmpty)
                  | e :: r => (r, RBatch (snd e))            (* dequeue at the front *)
                  end
  end.

(* a restart changes nothing; an operation cut by a crash either did not happen (its write was lost)
   or happened (its write is durable: a submission then counts as accepted, a hand-out as done) *)
Definition a_item (max : N) (q : list entry) (it : item) : list entry * option out :=
  match it with
  | IOp o => let '(q', r) := a_step max q o in (q', Some r)
  | IRestart => (q, None)
  | ICrash o n => ((match n with O => q | S _ => fst (a_step max q o) end), None)
  end.

Fixpoint a_run (max : N) (q : list entry) (h : list item) : list entry * list (option out) :=
  match h with
  | [] => (q, [])
  | it :: r =>
      let '(q', o) := a_item max q it in
      let '(q'', os) := a_run max q' r in
      (q'', o :: os)
  end.

Definition a_final (max : N) (h : list item) : list entry := fst (a_run max [] h).
Definition a_outputs (max : N) (h : list item) : list (option out) := snd (a_run max [] h).

(* what "accepted" and "handed out" mean in a run of the specification: the contents, in order *)
Definition accepted_by (max : N) (q : list entry) (it : item) : list batch :=
  match it with
  | IOp (OSubmit true (SB k b)) => if full max q then [] else [b]
  | ICrash (OSubmit true (SB k b)) (S _) => if full max q then [] else [b]
  | _ => []
  end.
Definition delivered_by (q : list entry) (it : item) : list batch :=
  match it with
  | IOp (ONext true) => match q with [] => [] | e :: _ => [snd e] end
  | ICrash (ONext true) (S _) => match q with [] => [] | e :: _ => [snd e] end
  | _ => []
  end.
Fixpoint a_accepted (max : N) (q : list entry) (h : list item) : list batch :=
  match h with [] => [] | it :: r => accepted_by max q it ++ a_accepted max (fst (a_item max q it)) r end.
Fixpoint a_delivered (max : N) (q : list entry) (h : list item) : list batch :=
  match h with [] => [] | it :: r => delivered_by q it ++ a_delivered max (fst (a_item max q it)) r end.

(* ---- guards (decidable predicates of the history) ------------------------------------------------ *)
(* strictly increasing *)
Fixpoint ssorted (l : list N) : bool :=
  match l with [] => true | x :: r => forallb (N.ltb x) r && ssorted r end.

Definition memb (k : N) (l : list N) : bool := existsb (N.eqb k) l.

(* no submission is accepted while a batch with the same key is pending *)
Definition op_guard (max : N) (q : list entry) (o : op) : bool :=
  match o with
  | OSubmit true (SB k b) => full max q || negb (memb k (keys q))
  | _ => true
  end.

(* [fifo_guard]: (1) as above; (2) at every restart (and after every crash) the keys of the pending
   batches are strictly increasing in acceptance order.  With content-hash keys (1) reads "no two
   pending batches have equal contents" and (2) "the pending batches happen to have been accepted in
   the order of their hashes" — in particular (2) holds whenever at most one batch is pending. *)
Fixpoint fifo_guard (max : N) (q : list entry) (h : list item) : bool :=
  match h with
  | [] => true
  | IOp o :: r => op_guard max q o && fifo_guard max (fst (a_step max q o)) r
  | IRestart :: r => ssorted (keys q) && fifo_guard max q r
  | ICrash o n :: r =>
      let q' := fst (a_item max q (ICrash o n)) in
      ssorted (keys q') && fifo_guard max q' r
  end.

(* the keys computed by AddBatch-reaching submissions, in history order *)
Fixpoint submit_keys (h : list item) : list key :=
  match h with
  | [] => []
  | IOp (OSubmit true (SB k _)) :: r => k :: submit_keys r
  | ICrash (OSubmit true (SB k _)) _ :: r => k :: submit_keys r
  | _ :: r => submit_keys r
  end.

(* keys grow with every submission (the shape a repair of the key scheme must have) *)
Definition monotone_keys (h : list item) : bool := ssorted (submit_keys h).

(* content-hash keys: the (contents, key) pairs of a history form an injective function given by a table *)
Fixpoint submits (h : list item) : list (batch * key) :=
  match h with
  | [] => []
  | IOp (OSubmit _ (SB k b)) :: r => (b, k) :: submits r
  | ICrash (OSubmit _ (SB k b)) _ :: r => (b, k) :: submits r
  | _ :: r => submits r
  end.

Fixpoint nodupb (l : list N) : bool :=
  match l with [] => true | x :: r => negb (memb x r) && nodupb r end.

Definition hash_keyedb (tbl : list (batch * key)) (h : list item) : bool :=
  nodupb (map fst tbl) && nodupb (map snd tbl) &&
  forallb (fun p => existsb (fun t => (fst t =? fst p) && (snd t =? snd p)) tbl) (submits h).

(* ---- the statement "the queue is a durable FIFO on history h" -------------------------------------
   every result equals the specification's; the in-memory queue is exactly the pending batches in
   acceptance order; the durable image holds exactly the pending batches (one record each). *)
Definition fifo_refines (max : N) (h : list item) : Prop :=
  outputs max h = a_outputs max h /\
  mem (final max h) = a_final max h /\
  (forall e, In e (db (final max h)) <-> In e (a_final max h)).
