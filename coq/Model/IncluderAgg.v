(* Model/IncluderAgg.v — the AGGREGATOR around the includer of Model/Includer.v: where the DA-included marks of a
   sequencer node come from (the DA layer's ANSWERS to its submissions) and where they are kept across a clean
   stop / start (the cache files), for every configuration of the node's directories.
   Mirrors block/submitter.go (the bodies of HeaderSubmissionLoop / DataSubmissionLoop as far as they call
   submitToDA; submitToDA with its attempt loop, fuel = maxSubmitAttempts = 30; the two postSubmit closures:
   SetDAIncluded(hash, res.Height) for the submitted prefix, setLastSubmitted…Height, signal; createSignedDataToSubmit:
   empty data elided), types/da.go SubmitWithHelpers (which answers reach the StatusSuccess branch),
   block/pending_base.go (the pending range (watermark, store height]; the watermark only grows) and
   block/manager.go SaveCache / LoadCache (the directory the cache files are written to / read from:
   filepath.Join(config.RootDir, "data"), whatever config.DBPath says) with node/full.go (SaveCache at clean shutdown,
   NewManager -> LoadCache at start).
   The DA layer is part of the state (as in Model/IncluderScan.v: the blob lists of DA heights 1, 2, ...); what it
   ANSWERS to one SubmitWithOptions call is an input ([answer]): a list of ids with a nil error, or an error of some
   class together with ANY number of ids, while it in fact keeps any prefix of the blobs (or none).
   Every aggregator item is translated to items of Model/Includer.v ([aitems]); the includer part of the state is
   proved to evolve by [Includer.step] on them (Proofs/IncluderAggProofs.v), so every theorem about [Includer.run]
   holds of aggregator histories, with the mark events no longer inputs.
   Definitions only. *)
From Coq Require Import String NArith List Bool.
From Verif Require Import Model.Includer Model.IncluderScan.
Import ListNotations.
Open Scope N_scope.

(* ---- configuration and the cache files ------------------------------------------------------------------- *)
Record acfg := { c_root : string;     (* config.RootDir *)
                 c_db : string }.     (* config.DBPath ("data" by default; any string) *)

(* manager.go LoadCache :1070 / SaveCache :1085: cfgDir := filepath.Join(m.config.RootDir, "data") — both the
   same hard-coded directory; config.DBPath is not consulted.  A directory = (root, path below the root). *)
Definition cache_rel : string := "data".
Definition save_dir (c : acfg) : string * string := (c_root c, cache_rel).
Definition load_dir (c : acfg) : string * string := (c_root c, cache_rel).

Definition dir_eqb (a b : string * string) : bool := String.eqb (fst a) (fst b) && String.eqb (snd a) (snd b).
(* the file system as far as the cache files go: directory -> (header marks, data marks), latest write first;
   a directory never written reads as empty maps (pkg/cache loadMapGob: missing file = empty map) *)
Definition fsys := list ((string * string) * (marks * marks)).
Fixpoint fs_get (f : fsys) (d : string * string) : marks * marks :=
  match f with
  | [] => ([], [])
  | (d', v) :: r => if dir_eqb d d' then v else fs_get r d
  end.
Definition fs_put (d : string * string) (v : marks * marks) (f : fsys) : fsys := (d, v) :: f.

(* ---- the DA layer's answers to one SubmitWithOptions call ---------------------------------------------------- *)
(* class of the error, as types/da.go:31-55 and submitter.go:123-165 distinguish them *)
Inductive eclass :=
| ETimeout     (* ErrTxTimedOut -> StatusNotIncludedInBlock: retried after BlockTime * MempoolTTL *)
| EMempool     (* ErrTxAlreadyInMempool -> StatusAlreadyInMempool: the same *)
| ECancel      (* context.Canceled / ErrContextCanceled -> StatusContextCanceled: submitToDA returns nil *)
| EOther.      (* anything else (transport error, ErrBlobSizeOverLimit, ErrContextDeadline, ErrTxIncorrectAccountSequence,
                  ...): the default branch, retried with exponential backoff *)

Inductive answer :=
| AOk (k : N)                        (* ids of the first min k n blobs and a nil error; the DA layer holds exactly those,
                                        at one new DA height (the height the ids carry) *)
| AErr (e : eclass) (ids kept : N).  (* an error of class e TOGETHER WITH min ids n ids (0 = a nil slice);
                                        the DA layer in fact keeps the first min kept n blobs (0 = nothing) at a new height *)

(* the DA layer gets a new height only when it keeps something *)
Definition da_keep (d : list (list blob)) (bl : list blob) : list (list blob) :=
  match bl with [] => d | _ => d ++ [bl] end.

Definition max_attempts : nat := 30.     (* block/manager.go maxSubmitAttempts *)

(* submitter.go:76-174 submitToDA.  [rem] = the items still to submit as (block height, blob) — never empty when
   called —, [sc] = the DA layer's answers to the successive calls (when used up: everything is accepted), [wm] =
   the last-submitted watermark, [d] = the DA layer.  Returns the mark events (Model/Includer.v items) in the order
   the postSubmit closures produce them, the watermark and the DA layer afterwards.
   - StatusSuccess needs a nil error AND at least one id (types/da.go:67-75: no ids for non-empty input is
     StatusError): the submitted prefix is marked at the DA height of the ids, the watermark moves to its last
     height (pending_base.go:83-93: only upwards), the rest is retried at once;
   - every answer with an error marks nothing and moves nothing, WHATEVER ids come with it (submitToDA looks at
     res.Code only: :145-165); a cancellation ends the submission. *)
Fixpoint asubmit (fuel : nat) (rem : list (N * blob)) (sc : list answer) (wm : N) (d : list (list blob))
  : list item * N * list (list blob) :=
  match fuel with
  | O => ([], wm, d)                                                          (* :103 attempt = maxSubmitAttempts *)
  | S f =>
      match hd (AOk (N.of_nat (length rem))) sc with
      | AOk k =>
          match firstn (N.to_nat k) rem with
          | [] => asubmit f rem (tl sc) wm d                                  (* StatusError: default branch *)
          | taken =>
              let d' := d ++ [map snd taken] in
              let da := N.of_nat (length d') in                               (* res.Height *)
              let wm' := N.max wm (fst (last taken (0, BJ))) in               (* :190-194 / :215-219 *)
              let ms := mark_items da (map snd taken) in                      (* :187-189 / :212-214 *)
              match skipn (N.to_nat k) rem with
              | [] => (ms, wm', d')                                           (* :129 submittedAll *)
              | rest => let '(ms', w, dd) := asubmit f rest (tl sc) wm' d' in (ms ++ ms', w, dd)
              end
          end
      | AErr e _ kept =>
          let d' := da_keep d (map snd (firstn (N.to_nat kept) rem)) in
          match e with
          | ECancel => ([], wm, d')                                           (* :154-156 *)
          | _ => asubmit f rem (tl sc) wm d'                                  (* :145-153, :157-164 *)
          end
      end
  end.

(* ---- the node -------------------------------------------------------------------------------------------- *)
Record anode := {
  a_cfg : acfg;
  a_nd : node;                   (* the includer's view: Model/Includer.v ([sv_h], [sv_d] = the files in [load_dir]) *)
  a_wh : N;                      (* pendingHeaders.lastHeight = metadata "last-submitted-header-height" (written with it) *)
  a_wd : N;                      (* pendingData.lastHeight = metadata "last-submitted-data-height" *)
  a_dal : list (list blob);      (* the DA layer: blobs of heights 1, 2, ... *)
  a_fs : fsys                    (* the cache files on disk *)
}.

Fixpoint with_heights (n : N) (bs : list blk) : list (N * blk) :=
  match bs with [] => [] | b :: r => (n, b) :: with_heights (n + 1) r end.
(* pending_base.go:42-63 getPending: the stored blocks of heights (wm, store height] *)
Definition pending (s : node) (wm : N) : list (N * blk) :=
  with_heights (wm + 1) (skipn (N.to_nat (wm - base s)) (chain s)).
Definition pending_h (s : anode) : list (N * blob) :=
  map (fun p => (fst p, BH (bh (snd p)))) (pending (a_nd s) (a_wh s)).
(* submitter.go:253-256 createSignedDataToSubmit: blocks without transactions are skipped *)
Definition pending_d (s : anode) : list (N * blob) :=
  map (fun p => (fst p, BD (bd (snd p)))) (filter (fun p => negb (bempty (snd p))) (pending (a_nd s) (a_wd s))).

(* one iteration of a submission loop body: nothing pending -> no call (submitter.go:24-35 / 53-65) *)
Definition sub (rem : list (N * blob)) (sc : list answer) (wm : N) (d : list (list blob)) :=
  match rem with [] => ([], wm, d) | _ => asubmit max_attempts rem sc wm d end.

Inductive aitem :=
| AAppend (b : blk)             (* a block is produced and committed *)
| ASubH (sc : list answer)      (* one iteration of HeaderSubmissionLoop; the DA layer answers with sc, then accepts *)
| ASubD (sc : list answer)      (* one iteration of DataSubmissionLoop *)
| AInclude                      (* as in Includer *)
| ACrash (k : nat)
| AFault (k : nat)
| ARestart.

Definition aitems (s : anode) (i : aitem) : list item :=
  match i with
  | AAppend b => [IAppend b]
  | ASubH sc => fst (fst (sub (pending_h s) sc (a_wh s) (a_dal s)))
  | ASubD sc => fst (fst (sub (pending_d s) sc (a_wd s) (a_dal s)))
  | AInclude => [IInclude]
  | ACrash k => [ICrash k]
  | AFault k => [IFault k]
  | ARestart => [IRestart]
  end.

(* NewManager on the datastore of [s] with the cache files [m] found in [load_dir] (manager.go:413-424) *)
Definition boot_with (s : node) (m : marks * marks) : node :=
  {| base := base s; chain := chain s; meta := meta s; sv_h := fst m; sv_d := snd m;
     di := kd s; hm := fst m; dm := snd m; tr := tr s |}.

Definition with_nd (s : anode) (n : node) : anode :=
  {| a_cfg := a_cfg s; a_nd := n; a_wh := a_wh s; a_wd := a_wd s; a_dal := a_dal s; a_fs := a_fs s |}.

(* clean shutdown of the process whose includer state is [n]: SaveCache writes the caches to [save_dir]; the new
   process reads [load_dir] *)
Definition stop_start (s : anode) (n : node) : anode :=
  let f := fs_put (save_dir (a_cfg s)) (hm n, dm n) (a_fs s) in
  {| a_cfg := a_cfg s; a_nd := boot_with n (fs_get f (load_dir (a_cfg s)));
     a_wh := a_wh s; a_wd := a_wd s; a_dal := a_dal s; a_fs := f |}.

Definition astep (s : anode) (i : aitem) : anode :=
  match i with
  | AAppend _ | AInclude => with_nd s (run_from (a_nd s) (aitems s i))
  | ASubH sc =>
      let '(ms, w, d) := sub (pending_h s) sc (a_wh s) (a_dal s) in
      {| a_cfg := a_cfg s; a_nd := run_from (a_nd s) ms; a_wh := w; a_wd := a_wd s; a_dal := d; a_fs := a_fs s |}
  | ASubD sc =>
      let '(ms, w, d) := sub (pending_d s) sc (a_wd s) (a_dal s) in
      {| a_cfg := a_cfg s; a_nd := run_from (a_nd s) ms; a_wh := a_wh s; a_wd := w; a_dal := d; a_fs := a_fs s |}
  | ACrash k =>
      (* the process dies: no SaveCache; the new one finds the files of the last clean shutdown.  The watermarks
         are metadata: they survive (pending_base.go:95-112 init) *)
      with_nd s (boot_with (dying (a_nd s) k) (fs_get (a_fs s) (load_dir (a_cfg s))))
  | AFault k => stop_start s (dying (a_nd s) k)
  | ARestart => stop_start s (a_nd s)
  end.

Definition arun_from (s : anode) (h : list aitem) : anode := fold_left astep h s.
(* first start with configuration [c] on an empty store and an empty disk, genesis.InitialHeight = b+1: the
   watermarks start at InitialHeight-1 (manager.go:354-361) *)
Definition ainit (c : acfg) (b : N) : anode :=
  {| a_cfg := c; a_nd := init b; a_wh := b; a_wd := b; a_dal := []; a_fs := [] |}.
Definition arun (c : acfg) (b : N) (h : list aitem) : anode := arun_from (ainit c b) h.

(* the history of Model/Includer.v items an aggregator history amounts to *)
Fixpoint atrace (s : anode) (h : list aitem) : list item :=
  match h with
  | [] => []
  | i :: r => aitems s i ++ atrace (astep s i) r
  end.

(* ---- vocabulary of the statements -------------------------------------------------------------------------- *)
(* the same answers with every id that came next to an error removed *)
Definition strip_ids (a : answer) : answer :=
  match a with AErr e _ kept => AErr e 0 kept | _ => a end.

Definition is_acrash (i : aitem) : bool := match i with ACrash _ => true | _ => false end.
(* no process death in the history (clean stops / starts and failing effects are allowed) *)
Definition no_crash (h : list aitem) : bool := forallb (fun i => negb (is_acrash i)) h.

(* every non-empty block up to height n lies at or below the data watermark (its signed data went into a
   submission the DA layer accepted) *)
Definition data_submitted (s : anode) (n : N) : bool :=
  forallb (fun p => bempty (snd p) || (fst p <=? a_wd s))
          (firstn (N.to_nat (n - base (a_nd s))) (with_heights (base (a_nd s) + 1) (chain (a_nd s)))).
