(* Model/QueueStarts.v — what every starting process FINDS in the datastore (C10).
   "Batches accepted but not yet handed out survive a restart": the records under the queue's prefix at the moment a
   process is started (NewSequencer -> BatchQueue.Load, queue.go:120-158: one key-ordered query, every record decoded
   and appended) are the input of the new process.  A record is written once, by AddBatch's Put (queue.go:83), and
   must still hold THAT batch when the next process reads it - whatever the same process accepted, handed out or
   encoded afterwards (the datastore keeps what it was given: an in-memory datastore keeps the very slice).
   This layer names the records found at every process start of a history, so that the theorem "they are exactly the
   batches pending, in acceptance order" (Proofs/QueueStartsProofs.v) ranges over all histories and the harness can
   compare them with the records the REAL store holds at every start of a run (contents read back from the live store,
   not from the write log).  Definitions only. *)
From Coq Require Import NArith List Bool.
From Verif Require Import Model.Queue Model.QueueBudget.
Import ListNotations.
Open Scope N_scope.

(* the item ends one process and starts another *)
Definition is_start (it : vitem) : bool :=
  match it with VOp _ => false | VStart _ | VCrash _ _ _ => true end.

(* the records (sequence number of the key, contents), in key order, found by each process start of h, in order:
   [db] after the step is what the dying / stopping process left durable = what Load of the new one queries *)
Fixpoint v_start_images (st : vstate) (h : list vitem) : list (list entry) :=
  match h with
  | [] => []
  | it :: r =>
      let st' := fst (v_step st it) in
      (if is_start it then [db (core (vr st'))] else []) ++ v_start_images st' r
  end.

(* ... and the queue each of those processes starts with (bq.queue when Load returned) *)
Fixpoint v_start_queues (st : vstate) (h : list vitem) : list (list entry) :=
  match h with
  | [] => []
  | it :: r =>
      let st' := fst (v_step st it) in
      (if is_start it then [mem (core (vr st'))] else []) ++ v_start_queues st' r
  end.

(* the specification: the plain FIFO's contents at the same moments (a crashed operation whose write survived counts) *)
Fixpoint sv_start_queues (max : N) (q : list batch) (h : list vitem) : list (list batch) :=
  match h with
  | [] => []
  | it :: r =>
      let q' := fst (s_item max q (v_plain it)) in
      (if is_start it then [q'] else []) ++ sv_start_queues (v_next_max max it) q' r
  end.

(* histories with byte budgets (Model/QueueBudget.v), from the empty store *)
Definition b_start_images (max0 : N) (h : list bitem) : list (list entry) :=
  v_start_images (v_st0 max0) (map b_vitem h).
Definition b_start_queues (max0 : N) (h : list bitem) : list (list entry) :=
  v_start_queues (v_st0 max0) (map b_vitem h).
