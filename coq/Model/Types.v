(* Model/Types.v — shared symbolic vocabulary of the block-level models (DESIGN.md 2.4, 2.9).
   Hashes are the hashed term itself (so injective by construction), signatures are terms
   [Sig key payload], addresses are [Addr key].  What this idealises: SHA-256 collision freedom,
   Ed25519 correctness and unforgeability, injectivity of the address derivation.
   Mirrors: types/header.go, types/signed_header.go, types/data.go, types/state.go,
   block/manager.go execValidate.  Definitions only. *)
From Coq Require Import NArith ZArith List Bool.
Import ListNotations.

Definition key := N.                     (* a private key, by harness index *)
Definition tx := N.                      (* a transaction, by harness pool index *)
Definition root := N.                    (* an application state root, by harness index *)
Definition chainid := N.                 (* chain id string, by index *)

Inductive pubkey := Pub (k : key).
Inductive addr := Addr (k : key) | AddrRaw (n : N) | AddrEmpty.   (* KeyAddress(pub) / other bytes / empty *)

Definition pubkey_eqb (a b : pubkey) : bool := let '(Pub x) := a in let '(Pub y) := b in (x =? y)%N.
Definition addr_eqb (a b : addr) : bool :=
  match a, b with
  | Addr x, Addr y => (x =? y)%N
  | AddrRaw x, AddrRaw y => (x =? y)%N
  | AddrEmpty, AddrEmpty => true
  | _, _ => false
  end.
Definition key_address (p : pubkey) : addr := let '(Pub k) := p in Addr k.   (* types.KeyAddress *)

(* Data commitment: DACommitment() hashes the transaction list only; symbolic = the list. *)
Definition commitment := list tx.
Definition empty_commitment : commitment := [].       (* dataHashForEmptyTxs *)
Definition commitment_eqb (a b : commitment) : bool :=
  (fix eq (a b : list N) : bool :=
     match a, b with
     | [], [] => true
     | x :: a', y :: b' => (x =? y)%N && eq a' b'
     | _, _ => false
     end) a b.

(* types.Header.  [h_last] is the LastHeaderHash: the hash of a header is the header. *)
Inductive header := Header {
  h_height : N;
  h_time : Z;                 (* unix nanoseconds *)
  h_chain : chainid;
  h_last : option header;     (* None = empty LastHeaderHash *)
  h_data : commitment;        (* DataHash *)
  h_app : root;               (* AppHash *)
  h_proposer : addr           (* ProposerAddress *)
}.

Fixpoint header_eqb (a b : header) : bool :=
  (h_height a =? h_height b)%N && (h_time a =? h_time b)%Z && (h_chain a =? h_chain b)%N &&
  match h_last a, h_last b with
  | None, None => true
  | Some x, Some y => header_eqb x y
  | _, _ => false
  end &&
  commitment_eqb (h_data a) (h_data b) && (h_app a =? h_app b)%N && addr_eqb (h_proposer a) (h_proposer b).

(* signatures *)
Inductive sigterm :=
| Sig (k : key) (payload : header)      (* signer.Sign(header.MarshalBinary()) with key k *)
| SigData (k : key) (txs : list tx) (meta_height : N)  (* signature over Data.MarshalBinary() *)
| SigJunk (n : N)                       (* arbitrary non-empty bytes *)
| SigEmpty.

Definition verify_header (p : pubkey) (h : header) (s : sigterm) : bool :=
  match s, p with
  | Sig k h', Pub k' => (k =? k')%N && header_eqb h h'
  | _, _ => false
  end.

(* types.Signer: absent public key = Signer{} *)
Record signer := { sg_pub : option pubkey; sg_addr : addr }.

(* types.SignedHeader *)
Record sheader := { sh_hdr : header; sh_sig : sigterm; sh_signer : signer }.

(* types.Metadata of Data (only the fields Validate compares) *)
Record meta := { m_chain : chainid; m_height : N; m_time : Z }.
Record data := { d_meta : option meta; d_txs : list tx }.

(* types.State (fields the block manager reads) *)
Record cstate := { s_chain : chainid; s_initial : N; s_height : N; s_time : Z; s_app : root; s_da : N }.

(* SignedHeader.ValidateBasic — types/signed_header.go:105-143 *)
Definition validate_basic (sh : sheader) : bool :=
  negb (addr_eqb (h_proposer (sh_hdr sh)) AddrEmpty) &&
  match sh_sig sh with SigEmpty => false | _ => true end &&
  addr_eqb (h_proposer (sh_hdr sh)) (sg_addr (sh_signer sh)) &&
  match sg_pub (sh_signer sh) with
  | Some p =>
      (* since the fix "bind the signer's address to the signer's public key": Signer.Address must be
         KeyAddress(Signer.PubKey) *)
      addr_eqb (sg_addr (sh_signer sh)) (key_address p) &&
      verify_header p (sh_hdr sh) (sh_sig sh)
  | None => false     (* Signer.PubKey == nil is rejected (ErrProposerAddressMismatch) *)
  end.

(* types.Validate(header, data) — types/data.go:57-74 *)
Definition validate_pair (sh : sheader) (d : data) : bool :=
  match d_meta d with
  | Some m => (h_chain (sh_hdr sh) =? m_chain m)%N && (h_height (sh_hdr sh) =? m_height m)%N &&
              (h_time (sh_hdr sh) =? m_time m)%Z
  | None => true
  end && commitment_eqb (d_txs d) (h_data (sh_hdr sh)).

(* Manager.execValidate — block/manager.go:794-829.  Note what it does NOT check: the
   LastHeaderHash link and the identity of the proposer. *)
Definition validate (s : cstate) (sh : sheader) (d : data) : bool :=
  validate_basic sh && validate_pair sh d &&
  (h_chain (sh_hdr sh) =? s_chain s)%N &&
  (h_height (sh_hdr sh) =? s_height s + 1)%N &&
  negb ((1 <? h_height (sh_hdr sh))%N && (h_time (sh_hdr sh) <? s_time s)%Z) &&
  (h_app (sh_hdr sh) =? s_app s)%N.

(* State.NextState — types/state.go:60 *)
Definition next_state (s : cstate) (h : header) (r : root) : cstate :=
  {| s_chain := s_chain s; s_initial := s_initial s; s_height := h_height h; s_time := h_time h;
     s_app := r; s_da := s_da s |}.
