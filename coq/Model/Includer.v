(* Model/Includer.v — the DA-included ("final") height of a node.
   Mirrors block/da_includer.go (DAIncluderLoop body, incrementDAIncludedHeight), block/manager.go
   (IsDAIncluded, SetRollkitHeightToDAHeight, the reload of the height and LoadCache in NewManager,
   SaveCache) and pkg/cache/cache.go (the daIncluded map: hash -> DA height).
   The marks (SetDAIncluded) are produced in the real code by the submitter (block/submitter.go,
   postSubmit closures; aggregator) and by the retriever (block/retriever.go handlePotentialHeader /
   handlePotentialData; full node); here they are INPUT events.  Blocks are identified by the harness's
   ids of header.Hash() and data.DACommitment(); id 0 of a data commitment = dataHashForEmptyTxs.
   [base] = genesis.InitialHeight - 1: no block exists at or below it; the store height starts there and so
   does (since the fix "DA inclusion with an initial height above 1") the DA-included height when no "d" is
   persisted.  A failing effect (datastore write or SetFinal) is the item IFault: the loop returns its error
   and the node shuts down cleanly.
   Definitions only; proofs are in Proofs/IncluderProofs.v. *)
From Coq Require Import NArith List Bool.
Import ListNotations.
Open Scope N_scope.

(* a stored block as IsDAIncluded sees it: header.Hash() and data.DACommitment(), by id *)
Record blk := { bh : N; bd : N }.
(* manager.go:494,522  bytes.Equal(dataHash, dataHashForEmptyTxs) *)
Definition bempty (b : blk) : bool := (bd b =? 0).

(* pkg/cache/cache.go daIncluded: hash -> DA height (latest binding first) *)
Definition marks := list (N * N).
Fixpoint mget (m : marks) (id : N) : option N :=            (* GetDAIncludedHeight / IsDAIncluded *)
  match m with
  | [] => None
  | (i, v) :: r => if (id =? i) then Some v else mget r id
  end.

(* the metadata keys the includer writes: pkg/store/keys.go DAIncludedHeightKey = "d",
   RollkitHeightToDAHeightKey = "rhb": "rhb/<n>/h", "rhb/<n>/d" *)
Inductive mkey := KD | KH (n : N) | KT (n : N).
Definition mkey_eqb (a b : mkey) : bool :=
  match a, b with
  | KD, KD => true
  | KH x, KH y => (x =? y)
  | KT x, KT y => (x =? y)
  | _, _ => false
  end.
Definition metaT := list (mkey * N).                         (* durable, latest binding first; values = 8-byte LE *)
Fixpoint meta_get (m : metaT) (k : mkey) : option N :=
  match m with
  | [] => None
  | (k', v) :: r => if mkey_eqb k k' then Some v else meta_get r k
  end.

(* the externally visible effects of the includer, in order: a metadata Put (one atomic datastore
   write each: store.SetMetadata) or a call exec.SetFinal(n) *)
Inductive eff := EPut (k : mkey) (v : N) | EFin (n : N)
  | EPub (n : N).   (* m.daIncludedHeight.CompareAndSwap: the height becomes visible to GetDAIncludedHeight() *)

Record node := {
  (* configuration *)
  base : N;              (* genesis.InitialHeight - 1 *)
  (* durable *)
  chain : list blk;      (* block store: the block of height base+i is the (i-1)-th element; store height = base + length *)
  meta : metaT;          (* metadata written by the includer *)
  sv_h : marks;          (* <root>/data/cache/header/da_included.gob as of the last SaveCache *)
  sv_d : marks;          (* <root>/data/cache/data/da_included.gob *)
  (* volatile *)
  di : N;                (* m.daIncludedHeight *)
  hm : marks;            (* m.headerCache.daIncluded *)
  dm : marks;            (* m.dataCache.daIncluded *)
  (* the world's record of the effects so far, newest first (datastore write log + executor call log) *)
  tr : list eff
}.

(* NewManager on an empty store with initial height b+1 (manager.go:413-419: no "d" -> InitialHeight-1) *)
Definition init (b : N) : node :=
  {| base := b; chain := []; meta := []; sv_h := []; sv_d := []; di := b; hm := []; dm := []; tr := [] |}.

(* one effect.  incrementDAIncludedHeight: SetFinal, then Put "d", then CompareAndSwap of the volatile
   height — three separate effects, in this order (da_includer.go:58-73) *)
Definition apply_eff (s : node) (e : eff) : node :=
  match e with
  | EPut k v =>
      {| base := base s; chain := chain s; meta := (k, v) :: meta s; sv_h := sv_h s; sv_d := sv_d s;
         di := di s; hm := hm s; dm := dm s; tr := e :: tr s |}
  | EFin n =>
      {| base := base s; chain := chain s; meta := meta s; sv_h := sv_h s; sv_d := sv_d s;
         di := di s; hm := hm s; dm := dm s; tr := e :: tr s |}
  | EPub n =>
      {| base := base s; chain := chain s; meta := meta s; sv_h := sv_h s; sv_d := sv_d s;
         di := n; hm := hm s; dm := dm s; tr := e :: tr s |}
  end.
Definition apply_effs (s : node) (es : list eff) : node := fold_left apply_eff es s.

(* DAIncluderLoop body after a signal (da_includer.go:22-47), as recursion over the stored blocks above
   the current height [n]:
   - no block left: IsDAIncluded returns (false, nil) because syncedHeight < nextHeight -> break;
   - IsDAIncluded (manager.go:481-496): header mark present && (empty data || data mark present);
   - SetRollkitHeightToDAHeight (manager.go:505-535): Put rhb/<n+1>/h := header DA height,
     Put rhb/<n+1>/d := (empty ? header DA height : data DA height);
   - incrementDAIncludedHeight (da_includer.go:54-83): SetFinal(n+1), Put d := n+1, CAS. *)
Fixpoint incl_effs (hmk dmk : marks) (bs : list blk) (n : N) : list eff :=
  match bs with
  | [] => []
  | b :: r =>
      match mget hmk (bh b) with
      | None => []
      | Some hda =>
          match (if bempty b then Some hda else mget dmk (bd b)) with
          | None => []
          | Some dda =>
              EPut (KH (n + 1)) hda :: EPut (KT (n + 1)) dda :: EFin (n + 1) :: EPut KD (n + 1)
              :: EPub (n + 1) :: incl_effs hmk dmk r (n + 1)
          end
      end
  end.

(* the next height is at or below [base]: store.GetBlockData fails (no such block), IsDAIncluded returns the
   error -> break.  (Not reachable from [init] since the fix; it is what the code did before: Example
   before_the_repair_* in Props/C07.v.) *)
Definition include_effs (s : node) : list eff :=
  if (di s <? base s) then []
  else incl_effs (hm s) (dm s) (skipn (N.to_nat (di s - base s)) (chain s)) (di s).

(* NewManager (manager.go:413-424): reload "d" (absent -> InitialHeight-1), LoadCache from the files of the last SaveCache *)
Definition kd (s : node) : N := match meta_get (meta s) KD with Some v => v | None => base s end.
Definition boot (s : node) : node :=
  {| base := base s; chain := chain s; meta := meta s; sv_h := sv_h s; sv_d := sv_d s;
     di := kd s; hm := sv_h s; dm := sv_d s; tr := tr s |}.
(* node/full.go:491 SaveCache at clean shutdown (atomic since the fix "cache: write cache files atomically") *)
Definition save (s : node) : node :=
  {| base := base s; chain := chain s; meta := meta s; sv_h := hm s; sv_d := dm s;
     di := di s; hm := hm s; dm := dm s; tr := tr s |}.

(* the process [k] effects into an includer run: what an outside observer can last have seen of it *)
Definition dying (s : node) (k : nat) : node := apply_effs s (firstn k (include_effs s)).

Inductive item :=
| IAppend (b : blk)        (* a block is committed: SaveBlockData + SetHeight (producer or syncer) *)
| IMarkH (id da : N)       (* headerCache.SetDAIncluded(hash, da): submitter postSubmit / handlePotentialHeader *)
| IMarkD (id da : N)       (* dataCache.SetDAIncluded(commitment, da) *)
| IInclude                 (* a signal on daIncluderCh; the loop body runs to its break *)
| ICrash (k : nat)         (* a signal; the process dies after [k] effects of that run (k = 0: plain crash); then NewManager *)
| IFault (k : nat)         (* a signal; effect number k+1 of that run FAILS (datastore write / SetFinal error): the loop
                              returns the error through errCh, the node shuts down cleanly (SaveCache); then NewManager *)
| IRestart.                (* clean shutdown (SaveCache), then NewManager *)

Definition step (s : node) (i : item) : node :=
  match i with
  | IAppend b =>
      {| base := base s; chain := chain s ++ [b]; meta := meta s; sv_h := sv_h s; sv_d := sv_d s;
         di := di s; hm := hm s; dm := dm s; tr := tr s |}
  | IMarkH id da =>
      {| base := base s; chain := chain s; meta := meta s; sv_h := sv_h s; sv_d := sv_d s;
         di := di s; hm := (id, da) :: hm s; dm := dm s; tr := tr s |}
  | IMarkD id da =>
      {| base := base s; chain := chain s; meta := meta s; sv_h := sv_h s; sv_d := sv_d s;
         di := di s; hm := hm s; dm := (id, da) :: dm s; tr := tr s |}
  | IInclude => apply_effs s (include_effs s)
  | ICrash k => boot (dying s k)
  | IFault k => boot (save (dying s k))
  | IRestart => boot (save s)
  end.

Definition run_from (s : node) (h : list item) : node := fold_left step h s.
(* [run b h]: history [h] of a node whose genesis.InitialHeight is b+1 *)
Definition run (b : N) (h : list item) : node := run_from (init b) h.

(* ---- what the property talks about ------------------------------------------------------- *)
Definition rep (s : node) : N := di s.                               (* GetDAIncludedHeight() *)
Definition sheight (s : node) : N := base s + N.of_nat (length (chain s)).    (* store.Height() *)
Definition block_at (s : node) (n : N) : option blk :=
  if (n <=? base s) then None else nth_error (chain s) (N.to_nat (n - base s - 1)).
(* what GetDAIncludedHeight() returns of a process [k] effects into an includer run after history [h] *)
Definition seen_at_death (b : N) (h : list item) (k : nat) : N := di (dying (run b h) k).

(* every value ever stored under "d", newest first *)
Definition dputs (t : list eff) : list N :=
  flat_map (fun e => match e with EPut KD v => [v] | _ => [] end) t.
(* the executor's SetFinal log, newest first *)
Definition fins (t : list eff) : list N :=
  flat_map (fun e => match e with EFin n => [n] | _ => [] end) t.

(* l = [d; d-1; ...; b+1] *)
Fixpoint desc (b : N) (l : list N) (d : N) : Prop :=
  match l with
  | [] => d = b
  | x :: r => x = d /\ b < d /\ desc b r (d - 1)
  end.
(* newest first: top m, every older entry equal to or one below its successor, oldest = b+1 *)
Fixpoint finsok (b : N) (l : list N) (m : N) : Prop :=
  match l with
  | [] => m = b
  | x :: r => x = m /\ b < m /\ (finsok b r m \/ finsok b r (m - 1))
  end.
(* every publication of height n is preceded by the Put of "d" := n *)
Fixpoint persisted_before (t : list eff) : Prop :=
  match t with
  | [] => True
  | EPub n :: r => In (EPut KD n) r /\ persisted_before r
  | _ :: r => persisted_before r
  end.
(* every Put of "d" := n is preceded by SetFinal(n) *)
Fixpoint asked_before (t : list eff) : Prop :=
  match t with
  | [] => True
  | EPut KD n :: r => In (EFin n) r /\ asked_before r
  | _ :: r => asked_before r
  end.

(* guard of the liveness theorem: a mark for [id] was produced after the last crash *)
Fixpoint marked_h_since_crash (rh : list item) (id : N) : bool :=   (* [rh] = history, newest first *)
  match rh with
  | [] => false
  | IMarkH i _ :: r => (i =? id) || marked_h_since_crash r id
  | ICrash _ :: _ => false
  | _ :: r => marked_h_since_crash r id
  end.
Fixpoint marked_d_since_crash (rh : list item) (id : N) : bool :=
  match rh with
  | [] => false
  | IMarkD i _ :: r => (i =? id) || marked_d_since_crash r id
  | ICrash _ :: _ => false
  | _ :: r => marked_d_since_crash r id
  end.

Definition is_markh (i : item) : bool := match i with IMarkH _ _ => true | _ => false end.

(* "both parts of every block up to n are on the DA layer": a mark event (= acceptance by / observation on
   the DA layer) exists in the history for the header of each block <= n and, unless empty, for its data *)
Definition marked_h_ever (h : list item) (id : N) : bool :=
  existsb (fun i => match i with IMarkH i' _ => (i' =? id) | _ => false end) h.
Definition marked_d_ever (h : list item) (id : N) : bool :=
  existsb (fun i => match i with IMarkD i' _ => (i' =? id) | _ => false end) h.
Definition blocks_marked_ever (b : N) (h : list item) (n : N) : bool :=
  forallb (fun x => marked_h_ever h (bh x) && (bempty x || marked_d_ever h (bd x)))
          (firstn (N.to_nat (n - b)) (chain (run b h))).
(* the guard of the liveness theorem: ... and each of these marks was produced after the last crash *)
Definition blocks_marked_since_crash (b : N) (h : list item) (n : N) : bool :=
  forallb (fun x => marked_h_since_crash (rev h) (bh x) && (bempty x || marked_d_since_crash (rev h) (bd x)))
          (firstn (N.to_nat (n - b)) (chain (run b h))).

(* the state NewManager produced BEFORE the fix for an initial height b+1 > 1: the count started at 0 *)
Definition init_before_the_repair (b : N) : node :=
  {| base := b; chain := []; meta := []; sv_h := []; sv_d := []; di := 0; hm := []; dm := []; tr := [] |}.
