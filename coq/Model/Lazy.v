(* Model/Lazy.v — block/aggregation.go (AggregationLoop, lazyAggregationLoop, normalAggregationLoop,
   produceBlock, getRemainingSleep), block/manager.go (NotifyNewTransactions, the one-slot txNotifyCh,
   the interval defaults of NewManager), block/reaper.go (the reaper only calls NotifyNewTransactions).
   A timed transition system over virtual time in nanoseconds (Z).  The loop goroutine is modelled at
   the granularity of one handled `select` case per step; a block production is one step that takes
   the production's duration and absorbs the notifications arriving meanwhile.  Go's `select` picks
   at random among ready cases and goroutines woken at the same instant run in any order: the model is
   therefore a relation — [step c s ch] is defined for every choice [ch] that is enabled at the
   earliest instant [tau c s] at which anything can happen (time never passes an enabled case:
   that is what testing/synctest's virtual clock does, and what the harness checks).
   Definitions only; proofs are in Proofs/LazyProofs.v. *)
From Coq Require Import ZArith NArith List Bool.
Import ListNotations.
Open Scope Z_scope.

Definition ms : Z := 1000000.                       (* time.Millisecond *)
Definition default_bt : Z := 1000 * ms.             (* manager.go:38 defaultBlockTime *)
Definition default_li : Z := 60000 * ms.            (* manager.go:41 defaultLazyBlockTime *)

(* configuration and environment of one run.  Times are relative to the instant AggregationLoop is
   entered.  [c_gen] = genesis.GenesisDAStartTime minus that instant (fresh store: height < initial
   height).  [c_durs]/[c_ddef]: duration of the k-th call of publishBlock (k-th element, default
   [c_ddef] beyond the list); negative entries count as 0. *)
Record cfg := {
  c_lazy : bool;        (* config.Node.LazyMode *)
  c_bt : Z;             (* config.Node.BlockTime as configured *)
  c_li : Z;             (* config.Node.LazyBlockInterval as configured *)
  c_gen : Z;
  c_durs : list Z;
  c_ddef : Z
}.

(* manager.go:329-337: a zero interval is replaced by the default *)
Definition eff_bt (c : cfg) : Z := if c_bt c =? 0 then default_bt else c_bt c.
Definition eff_li (c : cfg) : Z := if c_li c =? 0 then default_li else c_li c.

(* aggregation.go:17-29: the loop first sleeps until genesis time + block time *)
Definition t0 (c : cfg) : Z := Z.max 0 (c_gen c + eff_bt c).


(* aggregation.go:129-137 getRemainingSleep, with elapsed = the production's duration *)
Definition remaining (elapsed interval : Z) : Z :=
  if elapsed <? interval then interval - elapsed else ms.

(* state between two handled select cases.  [lz]/[bk]: instants at which lazyTimer / blockTimer
   fire (both are always armed when the loop is in `select`); [chan]: txNotifyCh holds a value
   (capacity 1, manager.go:400); [avail]: m.txsAvailable; [pend]: notifications still to come
   (ascending); [dl]: durations of the calls of publishBlock still to come (then [c_ddef] for ever);
   [prods]: (start, duration) of the productions so far, newest first. *)
Record st := {
  now : Z; lz : Z; bk : Z; chan : bool; avail : bool; pend : list Z; dl : list Z; prods : list (Z * Z)
}.

(* duration of the next call of publishBlock *)
Definition pdur (c : cfg) (s : st) : Z := Z.max 0 (hd (c_ddef c) (dl s)).

(* insertion sort of the notification instants (the environment may list them in any order) *)
Fixpoint insert (x : Z) (l : list Z) : list Z :=
  match l with
  | [] => [x]
  | y :: r => if x <=? y then x :: l else y :: insert x r
  end.
Definition isort (l : list Z) : list Z := fold_right insert [] l.

(* AggregationLoop up to the first select: sleep until t0 (notifications arriving meanwhile stay in
   the channel; NotifyNewTransactions drops a second one, manager.go:1024-1030), then
   time.NewTimer(0) twice (aggregation.go:34, 54). *)
Definition init (c : cfg) (ns : list Z) : st :=
  let s := isort ns in
  {| now := t0 c; lz := t0 c; bk := t0 c;
     chan := existsb (fun x => x <=? t0 c) s; avail := false;
     pend := filter (fun x => negb (x <=? t0 c)) s; dl := c_durs c; prods := [] |}.

(* the earliest instant at which a select case is ready or a notification arrives *)
Definition tau (c : cfg) (s : st) : Z :=
  if chan s then now s else
  let t := if c_lazy c then Z.min (lz s) (bk s) else bk s in
  match pend s with [] => t | h :: _ => Z.min t h end.

Inductive choice :=
| CEnv      (* the next notification: NotifyNewTransactions (manager.go:1022) *)
| CRecv     (* case <-m.txNotifyCh  (aggregation.go:79 / 120) *)
| CLazy     (* case <-lazyTimer.C   (aggregation.go:62) *)
| CBlock.   (* case <-blockTimer.C  (aggregation.go:68 / 108) *)

(* produceBlock (aggregation.go:86-101) / the blockTimer case of the normal loop (108-118):
   publishBlock runs from t to t+d; both timers are then reset with getRemainingSleep.  A timer that
   fired meanwhile is re-armed by Reset (Go >= 1.23 timers: no stale value survives a Reset).
   [byblock]: lazy mode resets txsAvailable after a block-timer production (aggregation.go:74). *)
Definition produce (c : cfg) (s : st) (byblock : bool) : st :=
  let t := tau c s in
  let d := pdur c s in
  let e := t + d in
  {| now := e;
     lz := if c_lazy c then e + remaining d (eff_li c) else lz s;
     bk := e + remaining d (eff_bt c);
     chan := chan s || existsb (fun x => x <=? e) (pend s);
     avail := if c_lazy c && byblock then false else avail s;
     pend := filter (fun x => negb (x <=? e)) (pend s);
     dl := tl (dl s);
     prods := (t, d) :: prods s |}.

Definition step (c : cfg) (s : st) (ch : choice) : option st :=
  let t := tau c s in
  match ch with
  | CEnv =>
      match pend s with
      | h :: r => if h =? t
                  then Some {| now := t; lz := lz s; bk := bk s; chan := true; avail := avail s;
                               pend := r; dl := dl s; prods := prods s |}
                  else None
      | [] => None
      end
  | CRecv =>
      if chan s
      then Some {| now := now s; lz := lz s; bk := bk s; chan := false; avail := true;
                   pend := pend s; dl := dl s; prods := prods s |}
      else None
  | CLazy => if c_lazy c && (lz s =? t) then Some (produce c s false) else None
  | CBlock =>
      if bk s =? t then
        if c_lazy c && negb (avail s)
        then (* aggregation.go:77: keep ticking, blockTimer.Reset(BlockTime) *)
             Some {| now := t; lz := lz s; bk := t + Z.max 0 (eff_bt c); chan := chan s;
                     avail := avail s; pend := pend s; dl := dl s; prods := prods s |}
        else Some (produce c s true)
      else None
  end.

(* does an enabled choice start a production (at instant [tau c s])? *)
Definition produces (c : cfg) (s : st) (ch : choice) : bool :=
  match ch with
  | CLazy => true
  | CBlock => negb (c_lazy c && negb (avail s))
  | _ => false
  end.

(* reachable states, for all schedules *)
Inductive reach (c : cfg) (ns : list Z) : st -> Prop :=
| reach_init : reach c ns (init c ns)
| reach_step : forall s ch s', reach c ns s -> step c s ch = Some s' -> reach c ns s'.

Inductive steps (c : cfg) : st -> st -> Prop :=
| steps_refl : forall s, steps c s s
| steps_step : forall s ch s' s'', step c s ch = Some s' -> steps c s' s'' -> steps c s s''.

(* a run under an explicit schedule (used for witnesses and examples) *)
Fixpoint run (c : cfg) (s : st) (chs : list choice) : option st :=
  match chs with
  | [] => Some s
  | ch :: r => match step c s ch with Some s' => run c s' r | None => None end
  end.

(* ---- the trace predicates the property is stated with ------------------------------------- *)

(* start-to-start distance of consecutive productions at least [b] (list newest first) *)
Fixpoint gaps_ge (b : Z) (l : list (Z * Z)) : Prop :=
  match l with
  | p2 :: ((p1 :: _) as r) => fst p1 + b <= fst p2 /\ gaps_ge b r
  | _ => True
  end.
Fixpoint gaps_geb (b : Z) (l : list (Z * Z)) : bool :=
  match l with
  | p2 :: ((p1 :: _) as r) => (fst p1 + b <=? fst p2) && gaps_geb b r
  | _ => true
  end.

(* the instant a timer of interval [i] fires after a production (start, duration) *)
Definition next_fire (i : Z) (p : Z * Z) : Z := fst p + snd p + remaining (snd p) i.

(* every production starts exactly when the timer of interval [i] armed by its predecessor fires,
   the first one at [first] *)
Fixpoint chain (i first : Z) (l : list (Z * Z)) : Prop :=
  match l with
  | [] => True
  | [p] => fst p = first
  | p2 :: ((p1 :: _) as r) => fst p2 = next_fire i p1 /\ chain i first r
  end.
(* ... at the latest when it fires *)
Fixpoint chain_le (i : Z) (l : list (Z * Z)) : Prop :=
  match l with
  | p2 :: ((p1 :: _) as r) => fst p2 <= next_fire i p1 /\ chain_le i r
  | _ => True
  end.

(* the deadline armed by the newest production ([first] before any) *)
Definition armed (i first : Z) (l : list (Z * Z)) : Z :=
  match l with [] => first | p :: _ => next_fire i p end.

(* guard of C17_rate_partial *)
Definition rate_guard (c : cfg) : bool := negb (c_lazy c) || (eff_bt c <=? eff_li c).

(* ---- the reaper (block/reaper.go): the producer of the notifications ------------------------ *)

(* One call of Reaper.SubmitTxs (reaper.go:72-129).  The environment's answers are inputs:
   [ri_get] = what exec.GetTxs returns (None = error), transactions named by ids (the code keys them by
   sha256 of their bytes, reaper.go:131); [ri_ok] = sequencer.SubmitBatchTxs accepts the batch (only
   consulted when there is something new to hand over); [ri_seen_ok] = the seen-store writes of this
   call succeed (reaper.go:117-119: a failed write is logged and nothing else changes; all writes of
   one call fail or succeed together here).  The seen-store (reaper.go:87, 117) is a set of ids; errors
   of its reads (Has) are not modelled.  The manager is connected (node/full.go:132). *)
Record rin := { ri_get : option (list N); ri_ok : bool; ri_seen_ok : bool }.

(* what one call does: [ro_call] = the batch handed to the sequencer (None = SubmitBatchTxs is not
   called), [ro_acc] = the sequencer accepted it, [ro_notify] = Manager.NotifyNewTransactions is called *)
Record rout := { ro_call : option (list N); ro_acc : bool; ro_notify : bool }.

(* reaper.go:79-96: the transactions that are neither in the seen-store nor listed earlier in the
   same answer ([inBatch]), in the executor's order *)
Fixpoint fresh (seen : list N) (txs : list N) : list N :=
  match txs with
  | [] => []
  | x :: r => if existsb (N.eqb x) seen then fresh seen r else x :: fresh (x :: seen) r
  end.

Definition nonempty {A} (l : list A) : bool := match l with [] => false | _ => true end.

Definition rquiet : rout := {| ro_call := None; ro_acc := false; ro_notify := false |}.

(* returns the new seen-set and what the call did *)
Definition rstep (seen : list N) (i : rin) : list N * rout :=
  match ri_get i with
  | None => (seen, rquiet)                                   (* reaper.go:73-77 *)
  | Some txs =>
      let new := fresh seen txs in
      if nonempty new then
        if ri_ok i
        then ((if ri_seen_ok i then new ++ seen else seen),  (* reaper.go:114-120 *)
              {| ro_call := Some new; ro_acc := true;
                 ro_notify := nonempty new |})               (* reaper.go:123-126 *)
        else (seen, {| ro_call := Some new; ro_acc := false; ro_notify := false |})  (* 109-112 *)
      else (seen, rquiet)                                    (* reaper.go:98-101 *)
  end.

(* a history of calls of SubmitTxs: (instant, the environment's answers), in the order they happen *)
Fixpoint rrun (seen : list N) (evs : list (Z * rin)) : list (Z * rout) :=
  match evs with
  | [] => []
  | (t, i) :: r => let '(seen', o) := rstep seen i in (t, o) :: rrun seen' r
  end.

(* the calls of SubmitBatchTxs: (instant, (batch, accepted)) *)
Definition rcalls (evs : list (Z * rin)) : list (Z * (list N * bool)) :=
  flat_map (fun to => match ro_call (snd to) with
                      | Some b => [(fst to, (b, ro_acc (snd to)))]
                      | None => [] end) (rrun [] evs).

(* the batches the sequencer accepted: (instant, batch) = the transactions handed to the sequencer *)
Definition rsubs (evs : list (Z * rin)) : list (Z * list N) :=
  flat_map (fun to => match ro_call (snd to) with
                      | Some b => if ro_acc (snd to) then [(fst to, b)] else []
                      | None => [] end) (rrun [] evs).

(* the instants at which the reaper calls NotifyNewTransactions *)
Definition rnotifs (evs : list (Z * rin)) : list Z :=
  flat_map (fun to => if ro_notify (snd to) then [fst to] else []) (rrun [] evs).

(* the bound within which a notification must be answered: one block interval (1 ms floor of
   getRemainingSleep for block times below 1 ms) *)
Definition resp (c : cfg) : Z := Z.max (eff_bt c) ms.

(* a notification instant [x] is answered in state [s]: either (once time has passed x + one block
   interval) a production started in [x, x + block interval], or x fell strictly inside a production
   (t, t+d] and (once time has passed the block timer that production re-armed) a FURTHER production
   started after its end and no later than that timer.  Instants before the loop's first select count
   from that select ([t0 c]). *)
Definition answered (c : cfg) (x : Z) (s : st) : Prop :=
  let x' := Z.max x (t0 c) in
  (x' + resp c < now s -> exists p, In p (prods s) /\ x' <= fst p /\ fst p <= x' + resp c)
  \/ (exists t d, In (t, d) (prods s) /\ t < x' /\ x' <= t + d /\
        (next_fire (eff_bt c) (t, d) < now s ->
         exists p, In p (prods s) /\ t + d < fst p /\ fst p <= next_fire (eff_bt c) (t, d))).
