(* Model/DAIngress.v — the DA ingress of the full node as far as C02 depends on it: what a DA request that
   comes back with an ERROR (of whatever class) or with an answer does to the DA scan position and to what
   is handed to SyncLoop.  Code: types/da.go RetrieveWithHelpers (101-186), block/retriever.go fetchBlobs
   (218-238), processNextDAHeaderAndData (56-109: one attempt = one pass of its loop body), RetrieveLoop
   (24-51: m.daHeight.Store(daHeight+1) iff processNextDAHeaderAndData returned nil).
   Level: one REQUEST (fetch attempt) at a time.  The input is the sequence of outcomes the DA layer gives
   to the successive requests of the retriever, whatever they are and however they are grouped into
   wake-ups and retry rounds (10 attempts per round, 100 ms apart, next round at the next DA tick — that
   schedule, the blob classes, junk and the seen-filter are the subject of C09's model, Model/Retriever.v);
   every request is for the height the scan position points at.  Which blob is a header / signed data of the
   chain is admission (C03, C09); here the DA layer holds parts of the proposer's chain.
   Definitions only; proofs are in Proofs/DAIngressProofs.v. *)
From Coq Require Import String NArith ZArith List Bool.
From Verif Require Import Base.KV Base.Keys Model.Types Model.Syncer.
Import ListNotations.
Open Scope list_scope.
Open Scope N_scope.

(* ---- the classes of error a DA request can come back with (the node's own context is alive) ----------- *)
Inductive derr :=
| EGeneric        (* any other error: connection reset, internal error of the DA node ... *)
| EDeadlineCtx    (* context.DeadlineExceeded: the 30 s dAefetcherTimeout of fetchBlobs (retriever.go:221) or a
                     deadline of the RPC client fired *)
| EDeadlineDA     (* coreda.ErrContextDeadline ("context deadline"): what the JSON-RPC DA client returns when the
                     DA node answers with its deadline code *)
| ECanceledCtx    (* context.Canceled *)
| ECanceledDA     (* coreda.ErrContextCanceled ("context canceled"): the DA node's cancellation code *)
| EFuture         (* coreda.ErrHeightFromFuture *)
| ENotFound.      (* coreda.ErrBlobNotFound *)

(* what the two substring tests of RetrieveWithHelpers / processNextDAHeaderAndData see of an error text
   (types/da.go:113,123; retriever.go:94): no other class contains either text *)
Definition is_notfound (e : derr) : bool := match e with ENotFound => true | _ => false end.
Definition is_future (e : derr) : bool := match e with EFuture => true | _ => false end.

(* ---- the outcome of one request (fetch attempt) as the DA layer decides it ---------------------------- *)
Inductive outcome :=
| OIds (e : derr)     (* da.GetIDs returns an error of class e *)
| OGet (e : derr)     (* GetIDs lists the ids of the height; a da.Get call for them returns an error of class e *)
| OOk.                (* GetIDs lists the ids and every Get returns the blobs (a height without blobs: GetIDs
                         reports ErrBlobNotFound / no ids) *)

(* ---- RetrieveWithHelpers: types/da.go:101-186.  The codes it can produce (clean tree): success, not found,
   height from future, error — nothing else; in particular deadline and cancellation errors are StatusError *)
Inductive status := StSuccess | StNotFound | StFuture | StError (futtext : bool).
   (* futtext: the message (which embeds the error text) contains the from-the-future text *)

Definition retrieve (nonempty : bool) (o : outcome) : status :=
  match o with
  | OIds e => if is_notfound e then StNotFound            (* types/da.go:113 *)
              else if is_future e then StFuture           (* types/da.go:123 *)
              else StError false                          (* types/da.go:134: EVERY other error *)
  | OGet e => if nonempty then StError (is_future e)      (* types/da.go:164-174: EVERY error of Get *)
              else StNotFound                             (* no ids: no Get call is made, types/da.go:145 *)
  | OOk => if nonempty then StSuccess else StNotFound
  end.

(* ---- fetchBlobs: retriever.go:218-238.  Only StatusError and StatusHeightFromFuture are turned into an error;
   a result with any other code comes back with err = nil *)
Inductive fetch := FNil (st : status) | FErr (futtext : bool).
Definition fetch_blobs (st : status) : fetch :=
  match st with
  | StError f => FErr f
  | StFuture => FErr true
  | _ => FNil st
  end.

(* ---- one pass of the loop body of processNextDAHeaderAndData: retriever.go:72-106 --------------------- *)
Inductive verdict :=
| VPass (handed : bool)   (* fetchErr == nil: the function returns nil (RetrieveLoop then stores daHeight+1);
                             handed = the blobs of the result went through handlePotentialHeader / Data *)
| VStay (again : bool).   (* fetchErr != nil: the scan position stays; again = the next attempt of this round
                             follows (otherwise the error is returned at once: from-the-future text, :94-96) *)

Definition attempt (nonempty : bool) (o : outcome) : verdict :=
  match fetch_blobs (retrieve nonempty o) with
  | FNil StSuccess => VPass true          (* :82-93 *)
  | FNil _ => VPass false                 (* :78-81 (not found); any other nil-error code: an empty Data *)
  | FErr fut => VStay (negb fut)
  end.

(* ---- what the DA layer holds: parts of the proposer's chain by DA height ------------------------------- *)
Inductive part :=
| PH (i : N)      (* the header blob of block number i of the chain (0 = the block at the initial height) *)
| PD (i : N).     (* the signed-data blob of block number i *)
Definition part_eqb (a b : part) : bool :=
  match a, b with PH i, PH j | PD i, PD j => i =? j | _, _ => false end.

Definition content := list (N * list part).
Definition blobs_at (ct : content) (x : N) : list part :=
  match lookup ct x with Some l => l | None => [] end.
Definition nonempty {A} (l : list A) : bool := match l with [] => false | _ => true end.

(* the DA layer denies what it holds: "not found" for a height that carries blobs (the only answer after
   which the code, rightly, moves on without having seen them) *)
Definition lie_at (ct : content) (cur : N) (o : outcome) : bool :=
  nonempty (blobs_at ct cur) && match o with OIds e => is_notfound e | _ => false end.

(* one request at scan position cur: new scan position, parts handed over (tagged with the DA height) *)
Definition da_step (ct : content) (cur : N) (o : outcome) : N * list (part * N) :=
  let bl := blobs_at ct cur in
  match attempt (nonempty bl) o with
  | VPass true => (cur + 1, map (fun p => (p, cur)) bl)
  | VPass false => (cur + 1, [])
  | VStay _ => (cur, [])
  end.

(* a run over the outcomes of the successive requests: hand-overs per request, final scan position *)
Fixpoint da_run (ct : content) (cur : N) (outs : list outcome) : list (list (part * N)) * N :=
  match outs with
  | [] => ([], cur)
  | o :: r =>
      let '(cur', em) := da_step ct cur o in
      let '(ems, fin) := da_run ct cur' r in
      (em :: ems, fin)
  end.
Definition da_cursor (ct : content) (cur : N) (outs : list outcome) : N := snd (da_run ct cur outs).
Definition da_handed (ct : content) (cur : N) (outs : list outcome) : list (part * N) :=
  concat (fst (da_run ct cur outs)).

(* the heights each request asked for (the scan position at that moment) *)
Fixpoint da_asked (ct : content) (cur : N) (outs : list outcome) : list N :=
  match outs with
  | [] => []
  | o :: r => cur :: da_asked ct (fst (da_step ct cur o)) r
  end.

(* the heights passed on a denial *)
Fixpoint da_lies (ct : content) (cur : N) (outs : list outcome) : list N :=
  match outs with
  | [] => []
  | o :: r => (if lie_at ct cur o then [cur] else []) ++ da_lies ct (fst (da_step ct cur o)) r
  end.

(* requests that did not move the scan position *)
Fixpoint da_failures (ct : content) (cur : N) (outs : list outcome) : nat :=
  match outs with
  | [] => O
  | o :: r => Nat.add (if N.eqb (fst (da_step ct cur o)) cur then 1%nat else 0%nat) (da_failures ct (fst (da_step ct cur o)) r)
  end.

(* ---- composition with the syncer: the SyncLoop events the hand-overs are ------------------------------ *)
(* retriever.go:145 / 191: NewHeaderEvent{header, daHeight} / NewDataEvent{&signedData.Data, daHeight}.  The
   retriever does not send an item that SyncLoop has already marked as seen (:141, :187); SyncLoop drops such an
   item itself (Syncer.on_header / on_data: hseen / dseen -> nothing changes), so a history with those events
   put back where they were filtered leaves the node in the same state: [da_events] lists them all. *)
Definition part_items (C : list block) (e : part * N) : list item :=
  match fst e with
  | PH i => match nth_error C (N.to_nat i) with Some b => [IEv (EvHeader (fst b) (snd e))] | None => [] end
  | PD i => match nth_error C (N.to_nat i) with Some b => [IEv (EvData (snd b) (snd e))] | None => [] end
  end.
Definition da_events (C : list block) (em : list (part * N)) : list item := flat_map (part_items C) em.

(* part q sits at a DA height the scan has passed, and that height was not passed on a denial *)
Definition scanned (ct : content) (c0 : N) (outs : list outcome) (q : part) : Prop :=
  exists x, c0 <= x /\ x < da_cursor ct c0 outs /\ In q (blobs_at ct x) /\ ~ In x (da_lies ct c0 outs).
