(* Model/QueueKeys.v — the datastore keys of the single sequencer's batch queue AS BYTE STRINGS (C10).
   Model/Queue.v identifies the key of a queued batch with its sequence number and takes the datastore's iteration
   order to be numeric order.  The datastore orders BYTE STRINGS (Load asks for query.OrderByKey, queue.go:129:
   bytewise lexicographic; badger iterates in the same order).  This file models the strings:
     batchKey(seq, hash) = fmt.Sprintf("s%016x-%s", seq, hex.EncodeToString(hash))       queue.go:42-44
     Load: fmt.Sscanf(result.Key, "/s%016x-", &seq)                                        queue.go:151-154
   Proofs/QueueKeysProofs.v shows that string order of these keys IS numeric order of the sequence numbers (for all
   uint64 values and all hashes) and that Load reads back the number batchKey wrote — the two facts Model/Queue.v rests
   on — and, as an Example, that without the zero padding the first fails at the first change of width (16 sorts
   before 2).  Definitions only.  A byte is a number. *)
From Coq Require Import NArith List Bool.
Import ListNotations.
Open Scope N_scope.

(* one lower-case hex digit: '0'..'9' = 48..57, 'a'..'f' = 97..102 *)
Definition hexchar (d : N) : N := if d <? 10 then 48 + d else 87 + d.

(* "%0<n>x" of a value below 16^n: n digits, most significant first *)
Fixpoint hex_fixed (n : nat) (v : N) : list N :=
  match n with
  | O => []
  | S n' => hexchar ((v / 16 ^ N.of_nat n') mod 16) :: hex_fixed n' v
  end.

(* 's' = 115, '-' = 45;  [hash] = the hex digits of the content hash (any byte string: it plays no role) *)
Definition key_string (sq : N) (hash : list N) : list N := 115 :: hex_fixed 16 sq ++ 45 :: hash.
(* the part of the key that carries the number: "s" ++ 16 digits ++ "-" *)
Definition key_head (sq : N) : list N := key_string sq [].

(* bytewise lexicographic order (a proper prefix sorts first): query.OrderByKey / badger's iteration order *)
Fixpoint lex_lt (a b : list N) : bool :=
  match a, b with
  | _, [] => false
  | [], _ :: _ => true
  | x :: a', y :: b' => (x <? y) || ((x =? y) && lex_lt a' b')
  end.

(* a list of key strings is in strictly increasing datastore order *)
Fixpoint sorted_by (lt : list N -> list N -> bool) (l : list (list N)) : bool :=
  match l with [] => true | x :: r => forallb (lt x) r && sorted_by lt r end.

(* reading the number back (Sscanf %x): value of a digit, value of a digit string *)
Definition unhex (c : N) : N := if c <? 58 then c - 48 else c - 87.
Definition hex_value (l : list N) : N := fold_left (fun acc c => acc * 16 + unhex c) l 0.

(* Load's view of a key: the digits between the leading 's' and the 16 digits' end *)
Definition key_seq (k : list N) : N := hex_value (firstn 16 (tl k)).

(* uint64 *)
Definition u64 (v : N) : Prop := v < 2 ^ 64.

(* ---- the harness's samples: (sequence number the model gives a record, first 18 bytes of its real key) ---- *)
Definition key_sample_ok (s : N * list N) : bool :=
  let '(sq, bytes) := s in
  (fix eqb (a b : list N) : bool :=
     match a, b with
     | [], [] => true
     | x :: a', y :: b' => (x =? y) && eqb a' b'
     | _, _ => false
     end) bytes (key_head sq)
  && (key_seq bytes =? sq).

Fixpoint key_mismatches_from (i : N) (l : list (N * list N)) : list (N * list N) :=
  match l with
  | [] => []
  | s :: r => if key_sample_ok s then key_mismatches_from (i + 1) r else (i, [4]) :: key_mismatches_from (i + 1) r
  end.
(* numbered from 900000 on, so that they cannot be taken for history cases; 4 = key string differs *)
Definition key_mismatches := key_mismatches_from 900000.
