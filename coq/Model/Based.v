(* Model/Based.v — sequencers/based/sequencer.go (GetNextBatch, NewSequencer) and
   sequencers/based/persistent_pending_txs.go (PersistentPendingTxs), AS REPAIRED by
   fixes/C20-based-scan-position.diff (three one-line changes, marked "repair" below) and by the commit
   "fix: based sequencer: a request that cannot be used does not consume the carry-over queue" (the queue is
   popped after the request has been checked, marked "repair 4").  The behaviour before repair 4 is kept at
   the end of the file ([gnb_before_repair]) for the witness in Props/C20.v.
   Definitions only; proofs are in Proofs/BasedProofs.v.

   A transaction is identified by its DA position (height, index at that height) and carries its byte
   size; the bytes themselves never matter to the code.  A DA timestamp is represented by the height it
   belongs to.  The DA layer is an input: [daf : N -> list tx] gives the (final) contents of every height;
   during one call the heights above the call's tip are "from the future" and are answered without
   contents, so nothing the model does depends on the contents of a height before that height exists. *)
From Coq Require Import NArith List Bool.
Import ListNotations.
Open Scope N_scope.

Record tx := { t_h : N; t_i : N; t_sz : N }.

(* TxsWithTimestamp (persistent_pending_txs.go:12-16) *)
Record entry := { e_txs : list tx; e_ts : N }.

(* The sequencer's state: the in-memory queue of the running process (PersistentPendingTxs.list), the
   value stored under /sequencer/pendingTxs, the value stored under /sequencer/lastScannedDAHeight. *)
Record state := { mem_q : list entry; dur_q : list entry; dur_scan : option N }.

Definition init : state := {| mem_q := []; dur_q := []; dur_scan := None |}.

(* NewSequencer -> NewPersistentPendingTxs -> Load (sequencer.go:75-96, persistent_pending_txs.go:25-31,82-88):
   the new process reads the queue back from the datastore; an absent key is the empty queue *)
Definition restart (s : state) : state :=
  {| mem_q := dur_q s; dur_q := dur_q s; dur_scan := dur_scan s |}.

Record config := { cf_start : N; cf_drift : N }.   (* daStartHeight, maxHeightDrift *)

(* what the caller passes as LastBatchData: what block.Manager keeps (manager.go:553,577), nothing, a
   forged value naming height h, or a non-empty value whose LAST id cannot name a DA height (8 bytes or
   fewer, the empty id included: coreda.SplitID fails, core/da/da.go:126-129) *)
Inductive lbd := LMgr | LNone | LRaw (h : N) | LShort.

(* the rest of the request: an ordinary one; one whose context is already cancelled (the DA client answers
   every retrieval with the context's error; the map datastore does not look at the context); one that
   carries another chain's id (isValid fails, sequencer.go:117-119) *)
Inductive reqk := QOk | QCancelled | QForeignId.

(* one GetNextBatch call: requested MaxBytes; the DA tip during the call; per retrieval of the call, in
   order: 0 = answered, 1 = GetIDs fails, 2 = Get fails, 3 = an empty height answered with ErrBlobNotFound
   instead of an empty id list; the LastBatchData policy; the kind of request *)
Record call := mkcallq { c_max : N; c_tip : N; c_errs : list N; c_lbd : lbd; c_req : reqk }.
Definition mkcall (m t : N) (e : list N) (l : lbd) : call := mkcallq m t e l QOk.

(* the error classes GetNextBatch returns *)
Inductive errk := EInvalidId      (* ErrInvalidId, sequencer.go:118 *)
                | EBadLbd.        (* "failed to get last DA height", sequencer.go:140-143 *)

(* a request that cannot be used: the chain id is looked at first (sequencer.go:117), the last id of
   LastBatchData after the scan position has been read (sequencer.go:139-143) *)
Definition unusable (c : call) : option errk :=
  match c_req c with
  | QForeignId => Some EInvalidId
  | _ => match c_lbd c with LShort => Some EBadLbd | _ => None end
  end.

(* the retrieval script as the call sees it: under a cancelled context every retrieval fails (the scan
   stops at the first failure, so one entry is enough) *)
Definition call_errs (c : call) : list N :=
  match c_req c with QCancelled => [1] | _ => c_errs c end.

(* types.RetrieveWithHelpers (types/da.go:101-185) as GetNextBatch sees it *)
Inductive dares := DErr | DFuture | DOk (txs : list tx).

Definition retrieve (daf : N -> list tx) (tip h code : N) : dares :=
  if code =? 1 then DErr                       (* da.go:133-141 StatusError *)
  else if tip <? h then DFuture                (* da.go:123-132 StatusHeightFromFuture *)
  else match daf h with
       | [] => DOk []                          (* da.go:113-122 / 145-153 StatusNotFound, no data *)
       | txs => if code =? 2 then DErr         (* da.go:161-172 StatusError *)
                else DOk txs                   (* da.go:177-185 StatusSuccess *)
       end.

(* sequencer.go:120-124 *)
Definition eff_max (m : N) : N := if m =? 0 then 1500000 else m.

(* persistent_pending_txs.go:51-65, the inner loop over one entry: a transaction is popped when
   totalSize+txSize <= maxBytes *)
Fixpoint pop_entry (maxb : N) (txs : list tx) (size : N) : list tx * list tx * N :=
  match txs with
  | [] => ([], [], size)
  | t :: r => if maxb <? size + t_sz t then ([], txs, size)
              else let '(p, rest, s) := pop_entry maxb r (size + t_sz t) in (t :: p, rest, s)
  end.

(* persistent_pending_txs.go:40-70 PopUpToMaxBytes: popped transactions, remaining queue, total size,
   timestamp (None = time.Now()) *)
Fixpoint pop (maxb : N) (q : list entry) (size : N) (ts : option N)
  : list tx * list entry * N * option N :=
  match q with
  | [] => ([], [], size, ts)
  | e :: q' =>
      let '(p, rest, s) := pop_entry maxb (e_txs e) size in
      match rest with
      | [] => let '(p2, q2, s2, ts2) := pop maxb q' s (Some (e_ts e)) in (p ++ p2, q2, s2, ts2)
      | _ => (p, {| e_txs := rest; e_ts := e_ts e |} :: q', s, Some (e_ts e))
      end
  end.

(* sequencer.go:185-198, the loop over the transactions of one height: a transaction is taken when
   size+txSize < maxBytes, else it and the rest of the height are pushed back *)
Fixpoint take_fit (maxb : N) (txs : list tx) (size : N) : list tx * list tx * N :=
  match txs with
  | [] => ([], [], size)
  | t :: r => if maxb <=? size + t_sz t then ([], txs, size)
              else let '(p, rest, s) := take_fit maxb r (size + t_sz t) in (t :: p, rest, s)
  end.

Record scan_res := { sr_txs : list tx;          (* appended to the batch *)
                     sr_push : option entry;    (* pushed back to the queue *)
                     sr_next : N;               (* nextDAHeight when the loop ends *)
                     sr_ts : option N;          (* resp.Timestamp *)
                     sr_log : list N }.         (* heights retrieved, in order *)

Definition scan_stop (next : N) (ts : option N) (log : list N) : scan_res :=
  {| sr_txs := []; sr_push := None; sr_next := next; sr_ts := ts; sr_log := log |}.

(* sequencer.go:164-203 OuterLoop (line numbers of the repaired file).  [fuel] = number of heights the drift test (sequencer.go:169) lets
   through, i.e. lastDAHeight + maxHeightDrift + 1 - nextDAHeight. *)
Fixpoint scan (daf : N -> list tx) (maxb tip : N) (fuel : nat) (next : N) (errs : list N)
              (size : N) (ts : option N) : scan_res :=
  match fuel with
  | O => scan_stop next ts []                                           (* :169-172 drift exceeded *)
  | S f =>
      if size <? maxb then                                              (* :167 loop condition *)
        match retrieve daf tip next (hd 0 errs) with
        | DErr => scan_stop next ts [next]                              (* :175-180 *)
        | DFuture => scan_stop next ts [next]                           (* :175-180 repair: a future height stops the scan *)
        | DOk txs =>
            let '(p, rest, s) := take_fit maxb txs size in
            let ts' := match p with [] => ts | _ => Some next end in    (* :197 *)
            match rest with
            | [] => let r := scan daf maxb tip f (next + 1) (tl errs) s ts' in      (* :202 nextDAHeight++ *)
                    {| sr_txs := p ++ sr_txs r; sr_push := sr_push r; sr_next := sr_next r;
                       sr_ts := sr_ts r; sr_log := next :: sr_log r |}
            | _ => {| sr_txs := p; sr_push := Some {| e_txs := rest; e_ts := next |};   (* :190 Push *)
                      sr_next := next + 1;                              (* :191-192 repair: the height is consumed *)
                      sr_ts := ts'; sr_log := [next] |}
            end
        end
      else scan_stop next ts []
  end.

(* sequencer.go:127-137: max(daStartHeight, persisted position) *)
Definition scan_pos (cfg : config) (s : state) : N :=
  match dur_scan s with Some v => N.max (cf_start cfg) v | None => cf_start cfg end.

Inductive response := MNone | MBatch (txs : list tx) (ts : option N) | MErr (e : errk).

(* sequencer.go:120-218 GetNextBatch once the request has been found usable: a valid chain id and a
   LastBatchData that is empty ([lbdh] = None) or whose last id names height [lbdh].
   Result: new state, response, heights retrieved. *)
Definition get_next_batch (cfg : config) (daf : N -> list tx) (s : state) (c : call) (lbdh : option N)
  : state * response * list N :=
  let maxb := eff_max (c_max c) in
  let last0 := scan_pos cfg s in                                        (* :127-137 *)
  let '(last, next0) :=
    match lbdh with                                                     (* :139-148 *)
    | Some h => if last0 <? h then (h, h + 1) else (last0, last0)
    | None => (last0, last0)
    end in
  let '(popped, q1, size, ts) := pop maxb (mem_q s) 0 None in           (* :156 repair 4: only now *)
  let r := match q1 with
           | [] => scan daf maxb (c_tip c) (N.to_nat (last + cf_drift cfg + 1 - next0)) next0 (call_errs c) size ts
           | _ => scan_stop next0 ts []          (* :167 repair: no scan while the queue is not drained *)
           end in
  let q2 := q1 ++ match sr_push r with Some e => [e] | None => [] end in
  let txs := popped ++ sr_txs r in
  ({| mem_q := q2; dur_q := q2;                                         (* every Pop and Push ends in Save *)
      dur_scan := Some (sr_next r) |},                                  (* :213 *)
   match txs with [] => MNone | _ => MBatch txs (sr_ts r) end,          (* :215-218 *)
   sr_log r).

(* sequencer.go:116-219 GetNextBatch, any request.  A request that cannot be used is answered with an error
   BEFORE anything is popped, pushed, retrieved or stored: the state is the state before the call. *)
Definition gnb (cfg : config) (daf : N -> list tx) (s : state) (c : call) (lbdh : option N)
  : state * response * list N :=
  match unusable c with
  | Some e => (s, MErr e, [])                                           (* :117-119, :139-143 *)
  | None => get_next_batch cfg daf s c lbdh
  end.

(* ---- the sequencer together with its caller ------------------------------------------------------- *)
(* block.Manager.retrieveBatch (manager.go:546-582) keeps the BatchData of the last non-nil response and
   passes it back as LastBatchData; the sequencer only looks at the height of its last id. *)
Record sys := { sy_st : state; sy_lbd : option N }.
Definition init_sys : sys := {| sy_st := init; sy_lbd := None |}.

Definition last_height (txs : list tx) : option N :=
  match rev txs with t :: _ => Some (t_h t) | [] => None end.

Definition lbd_of (m : option N) (c : call) : option N :=
  match c_lbd c with LMgr => m | LNone => None | LRaw h => Some h | LShort => None end.

Inductive item := ICall (c : call) | IRestart.

Definition step (cfg : config) (daf : N -> list tx) (y : sys) (it : item)
  : sys * option (response * list N) :=
  match it with
  | IRestart => ({| sy_st := restart (sy_st y); sy_lbd := sy_lbd y |}, None)
  | ICall c =>
      let '(s', r, log) := gnb cfg daf (sy_st y) c (lbd_of (sy_lbd y) c) in
      ({| sy_st := s';                       (* manager.go:546-582: kept only from a non-nil response *)
          sy_lbd := match r with MBatch txs _ => last_height txs | _ => sy_lbd y end |},
       Some (r, log))
  end.

(* the response of one more call, and the system after it *)
Definition call_resp (cfg : config) (daf : N -> list tx) (y : sys) (c : call) : response :=
  snd (fst (gnb cfg daf (sy_st y) c (lbd_of (sy_lbd y) c))).
Definition after_call (cfg : config) (daf : N -> list tx) (y : sys) (c : call) : sys :=
  fst (step cfg daf y (ICall c)).

Fixpoint final (cfg : config) (daf : N -> list tx) (y : sys) (h : list item) : sys :=
  match h with [] => y | it :: r => final cfg daf (fst (step cfg daf y it)) r end.

(* per call: response, heights retrieved, state after the call *)
Fixpoint trace (cfg : config) (daf : N -> list tx) (y : sys) (h : list item)
  : list (response * list N * state) :=
  match h with
  | [] => []
  | it :: r =>
      let y' := fst (step cfg daf y it) in
      match snd (step cfg daf y it) with
      | Some (rp, lg) => (rp, lg, sy_st y') :: trace cfg daf y' r
      | None => trace cfg daf y' r
      end
  end.

Definition batch_of (rp : response) : list tx := match rp with MBatch t _ => t | _ => [] end.

(* everything released over a history, in release order *)
Definition released (cfg : config) (daf : N -> list tx) (y : sys) (h : list item) : list tx :=
  concat (map (fun o => batch_of (fst (fst o))) (trace cfg daf y h)).

(* the carry-over queue, flattened *)
Definition flat (q : list entry) : list tx := concat (map e_txs q).
Definition carry (y : sys) : list tx := flat (mem_q (sy_st y)).

(* ---- vocabulary of the theorems ----------------------------------------------------------------------- *)
(* the DA contents of heights a, a+1, ..., in DA order *)
Fixpoint stream_n (daf : N -> list tx) (a : N) (n : nat) : list tx :=
  match n with O => [] | S k => daf a ++ stream_n daf (a + 1) k end.
Definition stream (daf : N -> list tx) (a b : N) : list tx := stream_n daf a (N.to_nat (b - a)).

(* a transaction found at height h carries height h *)
Definition wf_da (daf : N -> list tx) : Prop := forall h t, In t (daf h) -> t_h t = h.

(* LastBatchData is never forged to name a height: it is what the manager kept, nothing, or unusable *)
Definition manager_lbd (h : list item) : bool :=
  forallb (fun it => match it with ICall c => match c_lbd c with LRaw _ => false | _ => true end | IRestart => true end) h.

Definition no_restarts (h : list item) : list item :=
  filter (fun it => match it with IRestart => false | ICall _ => true end) h.

(* the history without the calls whose request cannot be used *)
Definition usable_item (it : item) : bool :=
  match it with ICall c => match unusable c with Some _ => false | None => true end | IRestart => true end.
Definition usable_only (h : list item) : list item := filter usable_item h.

Definition total (txs : list tx) : N := fold_right (fun t a => t_sz t + a) 0 txs.

Fixpoint max_tip (h : list item) : N :=
  match h with [] => 0 | ICall c :: r => N.max (c_tip c) (max_tip r) | IRestart :: r => max_tip r end.

(* ---- DA contents as the harness writes them: (height, sizes of its transactions) ------------------------ *)
Fixpoint mk_txs (h i : N) (szs : list N) : list tx :=
  match szs with [] => [] | s :: r => {| t_h := h; t_i := i; t_sz := s |} :: mk_txs h (i + 1) r end.
Definition da_at (da : list (N * list N)) (h : N) : list tx :=
  match find (fun p => fst p =? h) da with Some p => mk_txs h 0 (snd p) | None => [] end.

(* ---- before repair 4 (sequencer.go of the parent commit: PopUpToMaxBytes at :131, ahead of the LastBatchData
   check at :153-157) ------------------------------------------------------------------------------------------
   A foreign chain id was refused before the pop then as now.  A LastBatchData whose last id is too short was
   refused AFTER PopUpToMaxBytes had removed the popped transactions from memory and stored the shortened
   queue: they are in no batch, no longer queued, and behind the stored scan position. *)
Definition gnb_before_repair (cfg : config) (daf : N -> list tx) (s : state) (c : call) (lbdh : option N)
  : state * response * list N :=
  match c_req c with
  | QForeignId => (s, MErr EInvalidId, [])
  | _ =>
      match c_lbd c with
      | LShort =>
          let '(_, q1, _, _) := pop (eff_max (c_max c)) (mem_q s) 0 None in
          ({| mem_q := q1; dur_q := q1; dur_scan := dur_scan s |}, MErr EBadLbd, [])
      | _ => get_next_batch cfg daf s c lbdh
      end
  end.

(* the batches released by a history of calls under the pre-repair rule *)
Fixpoint released_before_repair (cfg : config) (daf : N -> list tx) (y : sys) (h : list item) : list tx :=
  match h with
  | [] => []
  | IRestart :: r => released_before_repair cfg daf {| sy_st := restart (sy_st y); sy_lbd := sy_lbd y |} r
  | ICall c :: r =>
      let '(s', rp, _) := gnb_before_repair cfg daf (sy_st y) c (lbd_of (sy_lbd y) c) in
      batch_of rp ++
      released_before_repair cfg daf
        {| sy_st := s'; sy_lbd := match rp with MBatch txs _ => last_height txs | _ => sy_lbd y end |} r
  end.
