(* Model/SubmitterWaiting.v — the SECOND WRITER of the data watermark (property C06).  Definitions only, no proofs
   (Proofs/SubmitterWaitingProofs.v).  Nothing of Model/Submitter.v / Model/SubmitterConc.v is changed.

   The last-submitted-data height has two writers:
     - the data submission loop (postSubmit of submitDataToDA, Model/Submitter.v [submit]), and
     - BLOCK PRODUCTION: publishBlockInternal's pending-limit check (block/manager.go:612)
           L != 0 && (numPendingHeaders() >= L || (numPendingData() >= L && numWaitingData(ctx) >= L))
       calls PendingData.numWaitingData (block/pending_data.go:66-77), which reads the pending range
       (getPendingData = pendingBase.getPending, block/pending_base.go:47-68: ONE read of lastHeight, one of the store
       height, then the fetches), counts the items with transactions and, for every item WITHOUT transactions met
       before the first one with transactions, calls setLastSubmittedDataHeight(data.Height()) — the height the
       fetched item itself carries.

   The two writers run on different goroutines (AggregationLoop / DataSubmissionLoop).  Here iterations of the data
   submission loop run WHILE block production is inside numWaitingData: after it has read the pending range and
   before its loop examines the k-th fetched item, for every k ([qs]).  What the submission side does in between
   (DA calls, acceptance of a prefix, cancellation, its own raise of the watermark) is the unchanged [tick_side].
   The chain does not grow meanwhile: block production is the goroutine that is busy in the check. *)
From Coq Require Import NArith List Bool.
From Verif Require Import Model.Submitter Model.SubmitterConc.
Import ListNotations.
Open Scope N_scope.

(* iterations of the data submission loop (submitter.go:53-69), one per script *)
Definition dticks (c : cfg) (rel : N -> bool) (init hi : N) (scs : list (list outcome)) (sd : side) : side :=
  fold_left (fun sd0 sc => fst (fst (fst (tick_side c (Some rel) init hi sc sd0)))) scs sd.

(* what the other goroutine does at the points of one numWaitingData call: k-th entry = the data iterations that
   run before the loop examines the k-th fetched item (entry 0: right after getPendingData returned) *)
Definition wsched := list (list (list outcome)).

(* pending_data.go:69-76 the loop of numWaitingData over the fetched items ([hs] = the heights they carry):
     if len(data.Txs) > 0 { waiting++ } else if waiting == 0 && data.Metadata != nil { setLastSubmittedDataHeight(ctx, data.Height()) }
   (every committed Data carries its Metadata: manager.go execCreateBlock).  setLastSubmittedDataHeight is
   pendingBase.setLastSubmittedHeight = [set_last]: raises only. *)
Fixpoint waiting_scan (c : cfg) (rel : N -> bool) (init hi : N) (hs : list N) (waiting : N) (qs : wsched) (sd : side)
  : N * side :=
  match hs with
  | [] => (waiting, sd)
  | h :: r =>
      let sd1 := dticks c rel init hi (hd [] qs) sd in
      if rel h then waiting_scan c rel init hi r (waiting + 1) (tl qs) sd1
      else if waiting =? 0 then waiting_scan c rel init hi r waiting (tl qs) (set_last h sd1)
      else waiting_scan c rel init hi r waiting (tl qs) sd1
  end.

(* pending_data.go:67 `pending, _ := pd.getPendingData(ctx)`: the error is dropped; getPending returns nil when the
   watermark is above the store height and the items fetched BEFORE the first failing fetch otherwise — a fetch
   fails only below the initial height, i.e. at the first item, so nothing is returned then *)
Definition pending_items (init hi v : N) : list N :=
  match pending_range init hi v with Some r => r | None => [] end.

(* pending_data.go:66-77 numWaitingData, with the other goroutine's iterations *)
Definition num_waiting (c : cfg) (s : state) (qs : wsched) : N * side :=
  waiting_scan c (nonempty_at (s_init s) (s_chain s)) (s_init s) (height s)
    (pending_items (s_init s) (height s) (vol (s_d s))) 0 qs (s_d s).

(* pending_base.go:79-86 numPending: height - lastHeight in uint64 *)
Definition sub64 (a b : N) : N := (a + 2 ^ 64 - b mod 2 ^ 64) mod 2 ^ 64.
Definition num_pending (hi : N) (sd : side) : N := sub64 hi (vol sd).

(* manager.go:612 the pending-limit check of publishBlockInternal; Go's && and || evaluate left to right and stop
   early, so numWaitingData runs only when the limit is on, the headers are below it and the data count reached
   it.  Returns (numWaitingData was called, refused, state after the check). *)
Definition limit_check (c : cfg) (L : N) (qs : wsched) (s : state) : bool * bool * state :=
  if L =? 0 then (false, false, s)
  else if L <=? num_pending (height s) (s_h s) then (false, true, s)
  else if L <=? num_pending (height s) (s_d s) then
         let '(n, sd) := num_waiting c s qs in (true, L <=? n, set_side KData s sd)
       else (false, false, s).

Definition commit (b : bool) (s : state) : state :=
  {| s_init := s_init s; s_chain := s_chain s ++ [b]; s_h := s_h s; s_d := s_d s |}.

(* histories: everything of Model/SubmitterConc.v, and one call of publishBlockInternal with the limit L: the
   check (with the data iterations that run inside numWaitingData), then — unless refused (manager.go:613-614
   returns nil) — the block (with transactions: b) is committed *)
Inductive witem :=
| WC (ci : citem)
| WPublish (L : N) (b : bool) (qs : wsched).

Definition wstep (c : cfg) (s : state) (wi : witem) : state :=
  match wi with
  | WC ci => cstep_state c s ci
  | WPublish L b qs => let '(_, refused, s') := limit_check c L qs s in
                       if refused then s' else commit b s'
  end.

Definition wrun_from (c : cfg) (s : state) (h : list witem) : state := fold_left (wstep c) h s.
Definition wrun (c : cfg) (init : N) (h : list witem) : state := wrun_from c (boot init) h.
