(* Model/Producer.v — the sequencer ("aggregator") side of block/manager.go:
   NewManager / getInitialState (start-up), publishBlockInternal, retrieveBatch, execCreateBlock,
   execApplyBlock, execValidate (= Types.validate), State.NextState (= Types.next_state), plus the
   on-disk cache files of pkg/cache (LoadFromDisk at start, SaveToDisk at shutdown: the file operations
   create / write / rename of saveMapGob, a crash after any of them or INSIDE the write of a file).
   Shared by C01 (valid chain / never wedges) and C04 (crash recovery).
   Models the tree AFTER the repairs a489023 (an empty batch older than the last block is skipped),
   46e0134 (state written before the store height), d2502c2 (cache files written atomically) and
   3873d52 (ValidateBasic binds the signer address to the signer key).
   Durable state is a Base/KV image; every action returns the ordered list of atomic writes it
   performs; a crash keeps a prefix of that list and loses the volatile state.
   The block store is abstracted to one record per height (C14 proves that SaveBlockData is one
   atomic batch and that the store behaves as a height-indexed map).
   Definitions only; proofs are in Proofs/ProducerProofs.v. *)
From Coq Require Import String NArith ZArith List Bool.
From Verif Require Import Base.KV Base.Keys Model.Types.
Import ListNotations.
Open Scope string_scope.
Open Scope list_scope.

(* ---- configuration: genesis.Genesis + the signer handed to NewManager ------------------------ *)
Record cfg := {
  c_chain : chainid;      (* genesis.ChainID *)
  c_initial : N;          (* genesis.InitialHeight *)
  c_gtime : Z;            (* genesis.GenesisDAStartTime *)
  c_key : key;            (* the private key of the signer given to NewManager *)
  c_gaddr : addr          (* genesis.ProposerAddress *)
}.

(* the quantifier of C01/C04: initial height >= 1, the signer is the genesis proposer *)
Definition wf_cfg (c : cfg) : Prop := (1 <= c_initial c)%N /\ c_gaddr c = Addr (c_key c).
Definition wf_cfgb (c : cfg) : bool := (1 <=? c_initial c)%N && addr_eqb (c_gaddr c) (Addr (c_key c)).

(* ---- durable values ------------------------------------------------------------------------- *)
(* what SaveBlockData(header, data, signature) stores at a height: /h/n, /d/n, /c/n (+ /i/hash) *)
Record blk := { b_sh : sheader; b_data : data; b_sig : sigterm }.

Inductive pval :=
| VBlock (b : blk)       (* the block record of a height *)
| VHeight (n : N)        (* /t   store height, SetHeight *)
| VState (s : cstate)    (* /s   UpdateState *)
| VCursor (c : N).       (* /m/l LastBatchDataKey: the batch cursor handed back to the sequencer *)

Definition img := kv pval.
Definition wr := write pval.

Definition height_key : string := "/t".
Definition state_key : string := "/s".
Definition cursor_key : string := "/m/l".
Definition block_key (n : N) : string := "/b/" ++ dec n.

(* reads: store.Height (missing = 0), GetState, GetMetadata(LastBatchDataKey), GetBlockData+GetSignature *)
Definition g_height (m : img) : N := match kv_get m height_key with Some (VHeight n) => n | _ => 0%N end.
Definition g_state (m : img) : option cstate := match kv_get m state_key with Some (VState s) => Some s | _ => None end.
Definition g_cursor (m : img) : N := match kv_get m cursor_key with Some (VCursor c) => c | _ => 0%N end.
Definition g_block (m : img) (n : N) : option blk := match kv_get m (block_key n) with Some (VBlock b) => Some b | _ => None end.

(* writes *)
Definition w_height (n : N) : wr := W1 (Put height_key (VHeight n)).
Definition w_state (s : cstate) : wr := W1 (Put state_key (VState s)).
Definition w_cursor (c : N) : wr := W1 (Put cursor_key (VCursor c)).
Definition w_block (n : N) (b : blk) : wr := WBatch [Put (block_key n) (VBlock b)].   (* one datastore batch *)

(* DefaultStore.SetHeight: writes only when the height grows — pkg/store/store.go SetHeight *)
Definition set_height (m : img) (n : N) : list wr := if (n <=? g_height m)%N then [] else [w_height n].

(* ---- volatile state of a running Manager: m.lastState, m.lastBatchData ------------------------ *)
Record vol := { v_state : cstate; v_cursor : N }.

(* ---- inputs --------------------------------------------------------------------------------- *)
(* sequencer.GetNextBatch: error | nil response / nil batch | batch (txs, timestamp, BatchData) *)
Inductive seqresp := SErr | SNil | SBatch (txs : list tx) (ts : Z) (cur : N).
(* executor.ExecuteTxs: new state root | error *)
Inductive execresp := EOk (r : root) | EErr.

Inductive outcome :=
| OCommitted (n : N)   (* publishBlockInternal returned nil after committing height n *)
| OSkipped             (* returned nil without producing (no batch / sequencer error) *)
| OErrLoad             (* "error while loading last commit/block" *)
| OErrTime             (* "timestamp is not monotonically increasing" *)
| OErrProposer         (* "proposer address is not the same as the genesis proposer address" *)
| OErrExec             (* "error applying block" *)
| OErrValidate         (* "failed to validate block" *)
| ONotRunning          (* no process *)
| OBootOk | OBootFailInit | OBootFailGenesis | OBootFailCache   (* NewManager *)
| OCrashed | OStopped | OTampered.

(* ExecuteTxs(txs, height, time, prevStateRoot) as seen by the execution layer *)
Definition ecall : Type := (N * list tx * Z * root)%type.

(* result of one action *)
Record ares := {
  a_pre : list wr;                 (* writes before the commit group *)
  a_commit : list wr;              (* the commit group: state, then store height *)
  a_vol : option vol;              (* volatile state afterwards (None = no running process) *)
  a_out : outcome;
  a_call : option ecall;           (* the ExecuteTxs call made, if any *)
  a_req : option N;                (* the cursor passed to GetNextBatch, if it was called *)
  a_init : option root;            (* InitChain called and returned this root *)
  a_built : option (N * list tx * Z)   (* a block was built at this height from these txs / this timestamp *)
}.
Definition a_ws (r : ares) : list wr := a_pre r ++ a_commit r.

Definition hdr_of (b : blk) : header := sh_hdr (b_sh b).

(* ---- start-up: getInitialState + NewManager — block/manager.go:174-263, 310-418 --------------- *)
Definition mk_signer (c : cfg) : signer := {| sg_pub := Some (Pub (c_key c)); sg_addr := c_gaddr c |}.

(* manager.go:189-198 *)
Definition genesis_header (c : cfg) (r0 : root) : header :=
  Header (c_initial c) (c_gtime c) (c_chain c) None empty_commitment r0 (c_gaddr c).

(* manager.go:226-235: signed by the signer, empty Data, the same signature under the signature key *)
Definition genesis_block (c : cfg) (r0 : root) : blk :=
  let h := genesis_header c r0 in
  {| b_sh := {| sh_hdr := h; sh_sig := Sig (c_key c) h; sh_signer := mk_signer c |};
     b_data := {| d_meta := None; d_txs := [] |};
     b_sig := Sig (c_key c) h |}.

(* manager.go:240-248 *)
Definition genesis_state (c : cfg) (r0 : root) : cstate :=
  {| s_chain := c_chain c; s_initial := c_initial c; s_height := c_initial c - 1; s_time := c_gtime c;
     s_app := r0; s_da := 0 |}.

Definition fail_res (ws : list wr) (o : outcome) (ini : option root) (bu : option (N * list tx * Z)) : ares :=
  {| a_pre := ws; a_commit := []; a_vol := None; a_out := o; a_call := None; a_req := None; a_init := ini; a_built := bu |}.

(* [ic] = what InitChain returns (consulted only when no state is stored); [files_ok] = every cache
   file on disk is absent or complete (LoadCache, manager.go:414, pkg/cache/cache.go loadMapGob). *)
Definition boot (c : cfg) (m : img) (files_ok : bool) (ic : option root) : ares :=
  match g_state m with
  | None =>
      match ic with
      | None => fail_res [] OBootFailInit None None                          (* manager.go:184 *)
      | Some r0 =>
          let ws := [w_block (c_initial c) (genesis_block c r0)]             (* manager.go:235 *)
                    ++ set_height m (c_initial c - 1) in                      (* manager.go:316 *)
          let bu := Some (c_initial c, [], c_gtime c) in
          if files_ok
          then {| a_pre := ws; a_commit := []; a_vol := Some {| v_state := genesis_state c r0; v_cursor := g_cursor m |};
                  a_out := OBootOk; a_call := None; a_req := None; a_init := Some r0; a_built := bu |}
          else fail_res ws OBootFailCache (Some r0) bu
      end
  | Some s =>
      if (s_height s <? c_initial c)%N then fail_res [] OBootFailGenesis None None      (* manager.go:257 *)
      else
        let ws := set_height m (s_height s) in                                (* manager.go:316 *)
        if files_ok
        then {| a_pre := ws; a_commit := []; a_vol := Some {| v_state := s; v_cursor := g_cursor m |};
                a_out := OBootOk; a_call := None; a_req := None; a_init := None; a_built := None |}
        else fail_res ws OBootFailCache None None
  end.

(* ---- one production step: publishBlockInternal — block/manager.go:590-749 --------------------- *)

(* manager.go:619-636: signature, header (= its hash) and time of the block at the store height *)
Definition last_info (c : cfg) (m : img) (H : N) : option (sigterm * option header * option Z) :=
  if (H + 1 <=? c_initial c)%N then Some (SigEmpty, None, None)
  else match g_block m H with
       | Some b => Some (b_sig b, Some (hdr_of b), Some (h_time (hdr_of b)))
       | None => None
       end.

(* execCreateBlock, manager.go:831-904 + the early save of manager.go:676 (empty signature) *)
Definition early_block (c : cfg) (v : vol) (n : N) (lsig : sigterm) (lhdr : option header) (txs : list tx) (ts : Z) : blk :=
  let h := Header n ts (s_chain (v_state v)) lhdr txs (s_app (v_state v)) (c_gaddr c) in
  {| b_sh := {| sh_hdr := h; sh_sig := lsig; sh_signer := mk_signer c |};
     b_data := {| d_meta := None; d_txs := txs |};
     b_sig := SigEmpty |}.

(* manager.go:686-704: metadata appended, header signed by the signer *)
Definition final_block (c : cfg) (b : blk) : blk :=
  let h := hdr_of b in
  let sg := Sig (c_key c) h in
  {| b_sh := {| sh_hdr := h; sh_sig := sg; sh_signer := sh_signer (b_sh b) |};
     b_data := {| d_meta := Some {| m_chain := h_chain h; m_height := h_height h; m_time := h_time h |};
                  d_txs := d_txs (b_data b) |};
     b_sig := sg |}.

(* manager.go:681-749 for the block [b] (freshly built or found in the store), after writes [ws0] *)
Definition finish (c : cfg) (m : img) (v : vol) (b : blk) (ws0 : list wr)
           (req : option N) (bu : option (N * list tx * Z)) (e : execresp) : ares :=
  let h := hdr_of b in
  let call := Some (h_height h, d_txs (b_data b), h_time h, s_app (v_state v)) in      (* manager.go:913 *)
  match e with
  | EErr => {| a_pre := ws0; a_commit := []; a_vol := Some v; a_out := OErrExec; a_call := call; a_req := req;
               a_init := None; a_built := bu |}
  | EOk r =>
      let fb := final_block c b in
      if validate (v_state v) (b_sh fb) (b_data fb)                                     (* manager.go:707 *)
      then let s' := next_state (v_state v) h r in
           {| a_pre := ws0 ++ [w_block (h_height h) fb];                                (* manager.go:715 *)
              a_commit := [w_state s'] ++ set_height m (h_height h);                    (* manager.go: updateState, then SetHeight (fix 46e0134) *)
              a_vol := Some {| v_state := s'; v_cursor := v_cursor v |};
              a_out := OCommitted (h_height h); a_call := call; a_req := req; a_init := None; a_built := bu |}
      else {| a_pre := ws0; a_commit := []; a_vol := Some v; a_out := OErrValidate; a_call := call; a_req := req;
              a_init := None; a_built := bu |}
  end.

Definition quiet (v : vol) (ws : list wr) (o : outcome) (req : option N) : ares :=
  {| a_pre := ws; a_commit := []; a_vol := Some v; a_out := o; a_call := None; a_req := req; a_init := None; a_built := None |}.

Definition step (c : cfg) (m : img) (v : vol) (s : seqresp) (e : execresp) : ares :=
  let H := g_height m in
  let n := (H + 1)%N in
  match last_info c m H with
  | None => quiet v [] OErrLoad None
  | Some (lsig, lhdr, ltime) =>
      match g_block m n with
      | Some pb => finish c m v pb [] None None e                                      (* manager.go:646-650 "using pending block" *)
      | None =>
          let req := Some (v_cursor v) in                                               (* retrieveBatch, manager.go:546-581 *)
          match s with
          | SErr => quiet v [] OSkipped req                                             (* manager.go:661 *)
          | SNil => quiet v [] OSkipped req                                             (* manager.go:656 *)
          | SBatch txs ts cur =>
              let v' := {| v_state := v_state v; v_cursor := cur |} in
              let w1 := [w_cursor cur] in                                               (* manager.go:574 *)
              let nonempty := match txs with [] => false | _ => true end in
              let before := match ltime with Some lt => (ts <? lt)%Z | None => false end in
              if nonempty && before then quiet v' w1 OErrTime req                       (* non-empty batch older than the last block: error *)
              else if before then quiet v' w1 OSkipped req                              (* empty batch older than the last block: skipped, nothing saved (fix a489023) *)
              else if negb (addr_eqb (c_gaddr c) (Addr (c_key c))) then quiet v' w1 OErrProposer req   (* manager.go:849 *)
              else
                let eb := early_block c v n lsig lhdr txs ts in
                finish c m v' eb (w1 ++ [w_block n eb]) req (Some (n, txs, ts)) e       (* manager.go:671-676 *)
          end
      end
  end.

(* ---- the cache directory: pkg/cache/cache.go SaveToDisk / saveMapGob / LoadFromDisk --------------- *)
(* Manager.SaveCache (manager.go:1087) writes eight files, f = 0..7 in this order: header cache
   items_by_height, items_by_hash, hashes, da_included (cache.go:163-198), then the same four of the data
   cache; saveMapGob (cache.go:88-113) writes each to the temporary name <file>.tmp and renames it. *)
Inductive fname := FFinal (f : nat) | FTmp (f : nat).

Inductive fop :=
| FCreate (n : fname)       (* os.Create(n), cache.go:92: n exists and is EMPTY (an existing file is truncated) *)
| FWrite (n : fname)        (* encoder.Encode + Sync + Close, cache.go:97-108: n holds a complete gob stream.  The only
                               operation that is not atomic: a process that dies INSIDE it leaves a strict prefix *)
| FRename (a b : fname).    (* os.Rename(a, b), cache.go:109: atomic; b gets the content of a, a is gone *)

Definition save_file (f : nat) : list fop := [FCreate (FTmp f); FWrite (FTmp f); FRename (FTmp f) (FFinal f)].
Definition n_files : nat := 8.
Definition save_ops : list fop := flat_map save_file (seq 0 n_files).

(* The state of the directory = the names that hold a PARTIAL stream: an empty file or a strict prefix of a gob
   stream, i.e. neither absent nor complete.  loadMapGob (cache.go:117-135) accepts an absent file (empty map)
   and a complete one; it fails on a partial one (EOF / unexpected EOF), and LoadFromDisk reads the final names
   only.  The content of a complete file does not influence block production and is not modelled. *)
Definition fname_eqb (a b : fname) : bool :=
  match a, b with
  | FFinal x, FFinal y | FTmp x, FTmp y => Nat.eqb x y
  | _, _ => false
  end.
Definition f_rm (n : fname) (d : list fname) : list fname := filter (fun x => negb (fname_eqb x n)) d.
Definition f_mem (n : fname) (d : list fname) : bool := existsb (fname_eqb n) d.

Definition apply_fop (d : list fname) (o : fop) : list fname :=
  match o with
  | FCreate n => n :: f_rm n d
  | FWrite n => f_rm n d
  | FRename a b => if f_mem a d then b :: f_rm b (f_rm a d) else f_rm b (f_rm a d)
  end.
Definition apply_fops (d : list fname) (ops : list fop) : list fname := fold_left apply_fop ops d.

(* the process dies INSIDE operation o: a write leaves a strict prefix (any number of bytes, possibly none) of
   the stream under the name it was writing to; create and rename are single system calls: not done *)
Definition torn_fop (d : list fname) (o : fop) : list fname :=
  match o with FWrite n => n :: f_rm n d | _ => d end.

(* where a shutdown is cut *)
Inductive cutpt :=
| CutAfter (k : nat)            (* the process dies after k file operations of SaveCache completed *)
| CutInside (k : nat) (b : N).  (* ... after k operations and INSIDE operation k+1: if that is the write of a gob stream, a strict
                                   prefix of b bytes of it is on disk.  The model does not depend on b: EVERY strict prefix is a
                                   partial file (tied to the code by the harness, which cuts at every byte) *)
Definition cut_done (cp : cutpt) : nat := match cp with CutAfter k | CutInside k _ => k end.
Definition cut_dir (d : list fname) (ops : list fop) (cp : cutpt) : list fname :=
  let d' := apply_fops d (firstn (cut_done cp) ops) in
  match cp with
  | CutAfter _ => d'
  | CutInside k _ => match nth_error ops k with Some o => torn_fop d' o | None => d' end
  end.

Definition is_tmp (n : fname) : bool := match n with FTmp _ => true | FFinal _ => false end.
(* LoadCache succeeds: no file under a FINAL name is partial (temporary files are never read) *)
Definition dir_ok (d : list fname) : bool := forallb is_tmp d.

(* ---- the machine: durable image, volatile state, cache files, observer's logs ------------------ *)
Record mach := {
  img_of : img;
  vol_of : option vol;
  bad_files : list fname;                           (* the cache directory: names (final or temporary) that hold a partial stream *)
  g_inits : list root;                              (* roots InitChain returned *)
  g_built : list (N * list tx * Z);                 (* (height, txs, timestamp) of every block built (genesis or from a batch) *)
  g_execs : list (N * list tx * Z * root * root)    (* successful ExecuteTxs calls: height, txs, time, previous root, returned root *)
}.

Definition fresh : mach :=
  {| img_of := []; vol_of := None; bad_files := []; g_inits := []; g_built := []; g_execs := [] |}.

Definition files_ok (st : mach) : bool := dir_ok (bad_files st).

Inductive act := ABoot (ic : option root) | AStep (s : seqresp) (e : execresp).

Inductive item :=
| IRun (a : act)                (* the action runs to completion (a boot discards any running process first) *)
| ICrash (a : act) (k : nat)    (* the process dies after [k] atomic writes of the action *)
| IStop (cut : option cutpt)    (* shutdown: SaveCache performs [save_ops] (each of the 8 cache files: create the temporary file, write it,
                                   rename it over the target; fix d2502c2); [Some cp] = the process dies at the cut point cp: after any
                                   number of these operations, or INSIDE the write of a file (a prefix of its bytes is on disk) — on the
                                   first save into an empty directory as well as on any later one (the directory is part of the state) *)
| ITamper (f : nat).            (* NOT a crash: cache file f is truncated in place by hand (malformed stream) *)

Definition not_running (st : mach) : ares :=
  {| a_pre := []; a_commit := []; a_vol := None; a_out := ONotRunning; a_call := None; a_req := None; a_init := None; a_built := None |}.

Definition do_act (c : cfg) (st : mach) (a : act) : ares :=
  match a with
  | ABoot ic => boot c (img_of st) (files_ok st) ic
  | AStep s e => match vol_of st with
                 | Some v => step c (img_of st) v s e
                 | None => not_running st
                 end
  end.

Definition exec_ret (a : act) : option root := match a with AStep _ (EOk r) => Some r | _ => None end.

Definition log_execs (l : list (N * list tx * Z * root * root)) (r : ares) (a : act) :=
  match a_call r, exec_ret a with
  | Some (n, txs, t, p), Some ret => (n, txs, t, p, ret) :: l
  | _, _ => l
  end.
Definition log_opt {A} (l : list A) (x : option A) : list A := match x with Some y => y :: l | None => l end.

(* what the harness observes of one item *)
Record iout := {
  o_res : outcome;
  o_call : option ecall;
  o_req : option N;
  o_ws : list wr;         (* the atomic writes that reached the datastore *)
  o_fops : list fop       (* the operations on cache files that completed *)
}.

Definition exec_item (c : cfg) (st : mach) (i : item) : mach * iout :=
  match i with
  | IRun a =>
      let r := do_act c st a in
      ({| img_of := apply_writes (img_of st) (a_ws r); vol_of := a_vol r; bad_files := bad_files st;
          g_inits := log_opt (g_inits st) (a_init r); g_built := log_opt (g_built st) (a_built r);
          g_execs := log_execs (g_execs st) r a |},
       {| o_res := a_out r; o_call := a_call r; o_req := a_req r; o_ws := a_ws r; o_fops := [] |})
  | ICrash a k =>
      let r := do_act c st a in
      ({| img_of := crash_after k (img_of st) (a_ws r); vol_of := None; bad_files := bad_files st;
          g_inits := log_opt (g_inits st) (a_init r); g_built := log_opt (g_built st) (a_built r);
          g_execs := log_execs (g_execs st) r a |},
       {| o_res := OCrashed; o_call := None; o_req := None; o_ws := firstn k (a_ws r); o_fops := [] |})
  | IStop cut =>
      match vol_of st with
      | None => (st, {| o_res := ONotRunning; o_call := None; o_req := None; o_ws := []; o_fops := [] |})
      | Some _ =>
          ({| img_of := img_of st; vol_of := None;
              bad_files := match cut with
                           | None => apply_fops (bad_files st) save_ops             (* all eight files rewritten *)
                           | Some cp => cut_dir (bad_files st) save_ops cp          (* cut after / inside an operation *)
                           end;
              g_inits := g_inits st; g_built := g_built st; g_execs := g_execs st |},
           {| o_res := OStopped; o_call := None; o_req := None; o_ws := [];
              o_fops := match cut with None => save_ops | Some cp => firstn (cut_done cp) save_ops end |})
      end
  | ITamper f =>
      ({| img_of := img_of st; vol_of := vol_of st; bad_files := FFinal f :: bad_files st;
          g_inits := g_inits st; g_built := g_built st; g_execs := g_execs st |},
       {| o_res := OTampered; o_call := None; o_req := None; o_ws := []; o_fops := [] |})
  end.

Fixpoint run_from (c : cfg) (st : mach) (h : list item) : mach * list iout :=
  match h with
  | [] => (st, [])
  | i :: r => let '(st', o) := exec_item c st i in
              let '(st'', os) := run_from c st' r in (st'', o :: os)
  end.

Definition run (c : cfg) (h : list item) : mach := fst (run_from c fresh h).
Definition outputs (c : cfg) (h : list item) : list iout := snd (run_from c fresh h).

(* ---- decidable classes of histories ------------------------------------------------------------ *)
(* no crash, no shutdown: the histories of C01 *)
Definition is_run (i : item) : bool := match i with IRun _ => true | _ => false end.
Definition crash_free (h : list item) : bool := forallb is_run h.

(* the histories of C04: boots, steps, crashes inside them, clean and cut shutdowns — no hand-made damage *)
Definition is_tamper (i : item) : bool := match i with ITamper _ => true | _ => false end.
Definition untampered (h : list item) : bool := forallb (fun i => negb (is_tamper i)) h.

(* a well-formed pair of responses for the next step: a batch not older than the last block, a
   successful execution *)
Definition last_time (c : cfg) (st : mach) : option Z :=
  match last_info c (img_of st) (g_height (img_of st)) with Some (_, _, lt) => lt | None => None end.
Definition wf_resp (c : cfg) (st : mach) (s : seqresp) (e : execresp) : bool :=
  match s, e with
  | SBatch _ ts _, EOk _ => match last_time c st with Some lt => (lt <=? ts)%Z | None => true end
  | _, _ => false
  end.

Definition committed_out (o : outcome) : bool := match o with OCommitted _ => true | _ => false end.

(* ---- specification: what a valid, hash-linked, signed chain is (C01) ----------------------------- *)
(* the header that a block at height n must name as its predecessor (hash = the header itself) *)
Definition link (c : cfg) (blocks : N -> option blk) (n : N) : option header :=
  if (n <=? c_initial c)%N then None else option_map hdr_of (blocks (n - 1)%N).

Definition signed_by (c : cfg) (b : blk) : Prop :=
  sh_sig (b_sh b) = Sig (c_key c) (hdr_of b) /\ sh_signer (b_sh b) = mk_signer c /\ b_sig b = Sig (c_key c) (hdr_of b).

(* one committed block [b], on top of the state [s] that resulted from executing all earlier blocks;
   [r] is the root the execution layer returned for it *)
Definition block_valid (c : cfg) (blocks : N -> option blk) (built : list (N * list tx * Z))
           (execs : list (N * list tx * Z * root * root)) (s : cstate) (b : blk) (r : root) : Prop :=
  validate s (b_sh b) (b_data b) = true /\                               (* the validation a full node applies (Types.validate) *)
  h_last (hdr_of b) = link c blocks (h_height (hdr_of b)) /\             (* names the previous header *)
  signed_by c b /\                                                       (* signed by the configured signer *)
  In (h_height (hdr_of b), d_txs (b_data b), h_time (hdr_of b)) built /\ (* exactly the txs / time of a batch taken for this height *)
  In (h_height (hdr_of b), d_txs (b_data b), h_time (hdr_of b), s_app s, r) execs.  (* executed on the previous root, returning r *)

(* [chain .. r0 n s]: heights initial..n hold valid blocks, starting from the InitChain root r0, and
   [s] is the state after executing all of them *)
Inductive chain (c : cfg) (blocks : N -> option blk) (built : list (N * list tx * Z))
          (execs : list (N * list tx * Z * root * root)) (r0 : root) : N -> cstate -> Prop :=
| ch_nil : chain c blocks built execs r0 (c_initial c - 1)%N (genesis_state c r0)
| ch_cons n s b r :
    chain c blocks built execs r0 n s ->
    blocks (n + 1)%N = Some b ->
    block_valid c blocks built execs s b r ->
    chain c blocks built execs r0 (n + 1)%N (next_state s (hdr_of b) r).

(* what holds of the durable image at EVERY instant, also of the image a dead process leaves behind: the
   chain is valid up to the height of the recorded state, and the store height is that height or (a crash
   between the state write and the height write) one less — start-up then raises it (manager.go:316) *)
Definition ChainDurable (c : cfg) (st : mach) : Prop :=
  let m := img_of st in
  ((g_height m < c_initial c)%N /\ g_state m = None) \/
  (exists r0 s, In r0 (g_inits st) /\ chain c (g_block m) (g_built st) (g_execs st) r0 (s_height s) s /\
                g_state m = Some s /\ (c_initial c <= s_height s)%N /\
                (s_height s <= g_height m + 1)%N /\ (g_height m <= s_height s)%N).

(* the committed chain of a machine state is valid and agrees with the recorded height and state *)
Definition ChainValid (c : cfg) (st : mach) : Prop :=
  let m := img_of st in
  ((g_height m < c_initial c)%N /\ g_state m = None) \/
  (exists r0 s, In r0 (g_inits st) /\ chain c (g_block m) (g_built st) (g_execs st) r0 (g_height m) s /\
                g_state m = Some s /\ (c_initial c <= g_height m)%N).

(* ---- what the node EXPOSES at a height ---------------------------------------------------------- *)
(* A reader of the node's store — an RPC client (GetBlock), the DA submitter, the header/data exchange, the
   next production step, a restarted process — gets at height n the signed header and data of
   GetBlockData(n) / GetHeader(n) and the signature record of GetSignature(n): the record written by the
   LATEST SaveBlockData for n (pkg/store/store.go:117-188 read the datastore on every call; the store
   object keeps nothing between calls).  Reads do not change the machine. *)
Definition served (st : mach) (n : N) : option blk := g_block (img_of st) n.

(* the served record is a block signed by the configured signer, as a verifier sees it: header.Signature
   verifies under the signer's public key over this very header, the signature record equals it, the
   signer named in the header is the configured one, and SignedHeader.ValidateBasic accepts it *)
Definition served_signed (c : cfg) (b : blk) : Prop :=
  verify_header (Pub (c_key c)) (hdr_of b) (sh_sig (b_sh b)) = true /\
  b_sig b = sh_sig (b_sh b) /\
  sh_signer (b_sh b) = mk_signer c /\
  validate_basic (b_sh b) = true.
