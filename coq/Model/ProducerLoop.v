(* Model/ProducerLoop.v — the sequencer node under its OWN production loop: block/aggregation.go
   AggregationLoop -> normalAggregationLoop / lazyAggregationLoop (-> produceBlock), on top of Model/Producer.v.
   A round of either loop is one call of m.publishBlock (= publishBlockInternal = [Producer.step]); WHEN rounds
   happen (timers, notifications) is C17's subject (Model/Lazy.v) and does not enter here.  What the loops add to
   a history of steps is what they do with the RESULT of a round (aggregation.go:90-93 produceBlock, 118-121
   normalAggregationLoop):
       if err := m.publishBlock(ctx); err != nil && ctx.Err() == nil { return fmt.Errorf(...) }
   a round that hands back an error while the node's context is live ENDS the loop; AggregationLoop reports the
   error on the node's error channel (aggregation.go:46-54) and FullNode.Run cancels every activity
   (node/full.go:399-403): the node has halted, nothing is produced until it is started again.
   Definitions only; proofs are in Proofs/ProducerLoopProofs.v. *)
From Coq Require Import String NArith ZArith List Bool.
From Verif Require Import Base.KV Base.Keys Model.Types Model.Producer.
Import ListNotations.
Open Scope list_scope.

(* publishBlockInternal returned a non-nil error: every outcome of [step] but "committed" and "skipped"
   (block/manager.go: the error returns of publishBlockInternal; a skipped round returns nil) *)
Definition round_failed (o : outcome) : bool :=
  match o with
  | OErrLoad | OErrTime | OErrProposer | OErrExec | OErrValidate => true
  | _ => false
  end.

(* aggregation.go:90-93, 118-121 as a function: the loop goes on after a round iff the round returned nil or the
   node's context was cancelled meanwhile.  (Tied to the translated loops by
   Proofs/ProducerLoopProofs.v [translated_loops_end_iff].) *)
Definition loop_ends (round_ok cancelled : bool) : bool := negb round_ok && negb cancelled.

(* the process is gone: the durable image and the observer's logs stay *)
Definition halt (st : mach) : mach :=
  {| img_of := img_of st; vol_of := None; bad_files := bad_files st;
     g_inits := g_inits st; g_built := g_built st; g_execs := g_execs st |}.

(* one item of a history of the node under its loop: a (re)start — NewManager, then AggregationLoop is started —
   or one round of the running loop with the responses of the sequencing and execution layer for it.  The node's
   context is live throughout (a stop request is the end of the history or the next start). *)
Definition loop_item (c : cfg) (st : mach) (a : act) : mach * iout :=
  let '(st', o) := exec_item c st (IRun a) in
  match a with
  | AStep _ _ => if loop_ends (negb (round_failed (o_res o))) false then (halt st', o) else (st', o)
  | ABoot _ => (st', o)
  end.

Fixpoint loop_from (c : cfg) (st : mach) (h : list act) : mach * list iout :=
  match h with
  | [] => (st, [])
  | a :: r => let '(st', o) := loop_item c st a in
              let '(st'', os) := loop_from c st' r in (st'', o :: os)
  end.

Definition lrun (c : cfg) (h : list act) : mach := fst (loop_from c fresh h).
Definition loutputs (c : cfg) (h : list act) : list iout := snd (loop_from c fresh h).

(* the production loop is running *)
Definition alive (st : mach) : bool := match vol_of st with Some _ => true | None => false end.

(* the sequencing layer had nothing to build a block from: a transient error (of any class), no response / no batch *)
Definition seq_fault (s : seqresp) : bool := match s with SErr | SNil => true | SBatch _ _ _ => false end.
