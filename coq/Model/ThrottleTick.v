(* Model/ThrottleTick.v — what ONE TICK of a submission loop owes the node (property C08).  Definitions only.
   Extends Model/Throttle.v, which it leaves unchanged.

   Throttle.headers_iter / Throttle.data_iter are the bodies of block/submitter.go HeaderSubmissionLoop /
   DataSubmissionLoop after the ticker fired:
       if pending.isEmpty() { continue }
       items := getPendingHeaders() | createSignedDataToSubmit()      (data: the items with transactions)
       if len(items) == 0 { continue }
       submit…ToDA(items)        -> submitToDA: every DA request carries ALL the items not yet accepted
   They take the state and the DA layer's answers — and NOTHING ELSE: not the node's mode (config.Node.LazyMode),
   not the limit (config.Node.MaxPendingHeadersAndData), not how many items are pending, not whether the pending
   blocks are empty, not the size of a blob.  A tick that finds something pending offers all of it to the DA
   layer at once; what the DA layer takes moves the watermark.  Block production is refused on the distance
   between the height and these watermarks (Throttle.limit_check), so this is what keeps the limit from
   becoming a deadlock: a tick that holds items back (to collect a batch, to respect a size budget, …) while
   production waits for the watermark is a cycle.

   This file names the two obligations of a tick so that they can be stated for all states, scripts and
   configurations (Proofs/ThrottleTickProofs.v, Props/C08.v) and compared with the real loops by the harness
   (harness/c08 drives HeaderSubmissionLoop / DataSubmissionLoop themselves for one tick, in lazy and normal
   mode, limits 1..10, blobs from 1 KB to 1.9 MB; cases evaluated by Check/ThrottleCheck.v). *)
From Coq Require Import NArith List Bool.
From Verif Require Import Model.Throttle.
Import ListNotations.
Open Scope N_scope.

(* what a header tick must offer: the heights above the header watermark (pending_base.go getPending) *)
Definition pending_headers (s : state) : list N :=
  seqN (t_wh s + 1) (N.to_nat (t_height s - t_wh s)).

(* what a data tick must offer: the heights above the data watermark whose block carries transactions
   (submitter.go createSignedDataToSubmit) *)
Definition pending_data (s : state) : list N :=
  filter (nonempty s) (seqN (t_wd s + 1) (N.to_nat (t_height s - t_wd s))).

(* the DA requests of one tick, as they must be: every request carries the WHOLE list of items not yet
   accepted (never an empty list, never a part of it); the list of the next request is the current one
   without the k items the DA layer took (k = 0: it failed) *)
Inductive chain : list N -> list (list N) -> Prop :=
| chain_end : forall rem, chain rem []
| chain_call : forall rem k cs, rem <> [] -> chain (skipn k rem) cs -> chain rem (rem :: cs).

(* the DA layer takes at least one blob of the request *)
Definition accepts_some (o : outcome) : bool :=
  match o with OAccept k => 1 <=? k | OAcceptAll => true | OFail => false end.

(* the DA requests of a tick *)
Definition headers_calls (s : state) (sc : list outcome) : list (list N) := snd (snd (headers_iter s sc)).
Definition data_calls (s : state) (sc : list outcome) : list (list N) := snd (snd (data_iter s sc)).
