(* Model/ReaperLimit.v — Model/Reaper.v under the pending-submission limit (C11):
     block/manager.go:612-615   publishBlockInternal, the back-pressure test: with MaxPendingHeadersAndData = lim <> 0 the
                                step returns nil BEFORE anything else (before the store height is read, before
                                retrieveBatch / Sequencer.GetNextBatch) when
                                  numPendingHeaders >= lim  \/  (numPendingData >= lim /\ numWaitingData >= lim)   [refuses]
     block/pending_base.go      numPending = store height - last submitted height; setLastSubmittedHeight (only
                                upwards; memory and stored copy together; start-up reads the stored copy)  [hsub, dsub]
     block/pending_data.go      numWaitingData = the pending Data WITH transactions                         [waiting_data]
     block/submitter.go:194,219 HeaderSubmissionLoop / DataSubmissionLoop advance the two watermarks independently
                                (the DA layer may accept headers and stall on data, or the reverse)   [LHdrSub, LDataSub]
   The state of Model/Reaper.v plus the two watermarks.  [dsub] is the height the DATA SUBMISSION LOOP last confirmed:
   numWaitingData also steps the stored watermark over Data without transactions that sit directly above it
   (pending_data.go:70-74); that changes neither numWaitingData (the items stepped over carry no transactions) nor the
   conjunction numPendingData >= lim /\ numWaitingData >= lim (numWaitingData <= numPendingData before and after), so
   [refuses] evaluated with [dsub] is the test the code evaluates; the stepping-over write itself is not modelled.
   Definitions only; proofs are in Proofs/ReaperLimitProofs.v. *)
From Coq Require Import NArith ZArith List Bool Arith.
From Verif Require Import Model.Reaper.
Import ListNotations.

Record lst := { base : st; hsub : nat; dsub : nat }.

Definition lst0 : lst := {| base := st0; hsub := 0; dsub := 0 |}.
Definition set_base (b : st) (l : lst) : lst := {| base := b; hsub := hsub l; dsub := dsub l |}.

Definition has_txs (x : list tx) : bool := match x with [] => false | _ => true end.

(* pending_base.go:72-79 *)
Definition pending_headers (l : lst) : nat := th (base l) - hsub l.
Definition pending_data (l : lst) : nat := th (base l) - dsub l.
(* pending_data.go:66-77: the Data of heights dsub+1 .. store height that carry transactions *)
Definition waiting_data (l : lst) : nat :=
  length (filter has_txs (firstn (th (base l) - dsub l) (skipn (dsub l) (block_txs (base l))))).

(* manager.go:612 *)
Definition refuses (lim : N) (l : lst) : bool :=
  negb (lim =? 0)%N &&
  ((lim <=? N.of_nat (pending_headers l))%N ||
   ((lim <=? N.of_nat (pending_data l))%N && (lim <=? N.of_nat (waiting_data l))%N)).

Inductive litem :=
| LBase (it : item)        (* an item of Model/Reaper.v *)
| LHdrSub (n : nat)        (* the DA layer has accepted the headers up to height n (submitter.go:194) *)
| LDataSub (n : nat).      (* the DA layer has accepted the data up to height n (submitter.go:219) *)

Definition is_produce (it : item) : bool :=
  match it with
  | IRun (AProduce _) | ICrash (AProduce _) _ _ | IFault (AProduce _) _ | IExecFail _ | IMid _ _ => true
  | _ => false
  end.

(* the produce step of a running node returns at manager.go:614 *)
Definition blocked (lim : N) (l : lst) (it : item) : bool := up (base l) && is_produce it && refuses lim l.

(* what is left of a produce-kind item whose step is refused: the step makes no write, calls neither the sequencer nor
   the executor and returns nil; a process that was to die inside it dies (having written nothing); a reap that was to
   run in its middle runs (right after it: no act of the step precedes it); a write fault / executor failure scheduled
   for it does not happen *)
Definition refused_as (it : item) : option item :=
  match it with
  | ICrash (AProduce ts) _ _ => Some (ICrash (AProduce ts) 0 false)
  | IMid _ _ => Some (IRun AReap)
  | _ => None
  end.

(* a watermark only moves upwards (pending_base.go:91) and never above the store height (only stored blocks are
   submitted); it is set through the running manager *)
Definition raise (cur n top : nat) : nat := Nat.max cur (Nat.min n top).

Definition lstep (lim max : N) (gt : Z) (l : lst) (li : litem) : lst :=
  match li with
  | LBase it =>
      if blocked lim l it then
        match refused_as it with
        | Some it' => set_base (step max gt (base l) it') l
        | None => l
        end
      else set_base (step max gt (base l) it) l
  | LHdrSub n => if up (base l) then {| base := base l; hsub := raise (hsub l) n (th (base l)); dsub := dsub l |} else l
  | LDataSub n => if up (base l) then {| base := base l; hsub := hsub l; dsub := raise (dsub l) n (th (base l)) |} else l
  end.

(* result code 13 = refused (nil, nothing written, the sequencer not asked) *)
Definition lobserve (lim max : N) (gt : Z) (l : lst) (li : litem) : N * list wr :=
  match li with
  | LBase it =>
      if blocked lim l it then
        match refused_as it with
        | Some it' => ((if is_crash it then 7 else 13)%N, snd (observe max gt (base l) it'))
        | None => (13%N, [])
        end
      else observe max gt (base l) it
  | _ => ((if up (base l) then 0 else 6)%N, [])
  end.

Fixpoint lrun (lim max : N) (gt : Z) (l : lst) (h : list litem) : lst :=
  match h with [] => l | li :: r => lrun lim max gt (lstep lim max gt l li) r end.

Fixpoint lobservations (lim max : N) (gt : Z) (l : lst) (h : list litem) : list (N * list wr) :=
  match h with [] => [] | li :: r => lobserve lim max gt l li :: lobservations lim max gt (lstep lim max gt l li) r end.

Definition lfinal (lim max : N) (gt : Z) (h : list litem) : lst := lrun lim max gt lst0 h.

(* the history of Model/Reaper.v that a history under the limit amounts to: refused steps and watermark moves vanish *)
Definition erase1 (lim : N) (l : lst) (li : litem) : list item :=
  match li with
  | LBase it => if blocked lim l it then match refused_as it with Some it' => [it'] | None => [] end else [it]
  | _ => []
  end.

Fixpoint erase (lim max : N) (gt : Z) (l : lst) (h : list litem) : list item :=
  match h with [] => [] | li :: r => erase1 lim l li ++ erase lim max gt (lstep lim max gt l li) r end.

(* the guard of C11_no_loss_partial, for histories under the limit: a step that is refused takes nothing *)
Fixpoint lsafe_hist (lim max : N) (gt : Z) (l : lst) (h : list litem) : bool :=
  match h with
  | [] => true
  | li :: r =>
      (match li with
       | LBase it => blocked lim l it || negb (lossy (item_acts max gt (base l) it))
       | _ => true
       end) && lsafe_hist lim max gt (lstep lim max gt l li) r
  end.

Definition base_items (h : list litem) : list item :=
  flat_map (fun li => match li with LBase it => [it] | _ => [] end) h.
