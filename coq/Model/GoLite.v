(* Model/GoLite.v — a deep embedding of the fragment of Go in which the node's DECISION FUNCTIONS are written
   (guard chains `if cond { return err }`, short-circuit boolean expressions, field selections, calls of other
   decision functions, small integer arithmetic), with a symbolic evaluator over the vocabulary of
   Model/Types.v and Model/Admission.v.

   The terms of this language are NOT written by hand: harness/translators/golite regenerates them from the Go
   source on every run (coq/gen/GoLiteFuns.v).  Check/GoLiteLemmas.v then proves, for all arguments, that the
   regenerated functions compute exactly what the hand-written model functions compute — so the model's
   validation / admission predicates are tied to the code by a proof over a translation of the code, not only
   by differential testing.

   The evaluator returns a DECISION TREE ([res]): a branch on a boolean the evaluator cannot decide is a
   constructor [RIf b x y], never a Coq [if] — so evaluation proceeds structurally under symbolic conditions
   (bind pushes the continuation into both branches); [interp] turns the finished tree into nested [if]s.
   Definitions only. *)
From Coq Require Import String List NArith ZArith Bool.
From Verif Require Import Model.Types Model.Admission.
From Verif Require Model.Throttle Model.Proxy Model.Includer.
Import ListNotations.
Open Scope string_scope.
Open Scope list_scope.

(* ---- syntax (what the translator emits) ------------------------------------------------------------------ *)
Inductive binop := OEq | ONe | OLt | OLe | OGt | OGe | OAnd | OOr | OAdd | OSub | OMul | OQuo.

Inductive gexpr :=
| EVar (x : string)                                   (* local, parameter, package-level name, "pkg.Name" *)
| ESel (e : gexpr) (f : string)                       (* e.f *)
| ECall (f : string) (args : list gexpr)              (* f(args), pkg.f(args) *)
| EMeth (e : gexpr) (m : string) (args : list gexpr)  (* e.m(args) *)
| EBin (o : binop) (a b : gexpr)
| ENot (e : gexpr)
| EInt (n : Z) | EStr (s : string) | ENil | EBool (b : bool)
| EId (e : gexpr)                                     (* *e, e[:] : no effect on the symbolic value *)
| EAddr (e : gexpr)                                   (* &e: the value when read, the place when a callee writes through it *)
| ENew (ty : string)                                  (* new(T), and the zero value of a declared variable *)
| ELit (ty : string) (fs : list (string * gexpr))     (* T{f: e, ...} *)
| EIndex (e i : gexpr)                                (* e[i] *)
| ESliceFrom (e lo : gexpr)                           (* e[lo:] *)
| EUnknown (what : string).

Inductive gstmt :=
| SAssign (lhs : list string) (rhs : gexpr)           (* x := e   x, y := e   x = e *)
| SOpAssign (x : string) (o : binop) (rhs : gexpr)    (* x *= e ... *)
| SAssignField (x f : string) (rhs : gexpr)           (* x.f = e, x.f++ *)
| SIf (init : list gstmt) (c : gexpr) (thn els : list gstmt)
| SReturn (es : list gexpr)
| SSkip (what : string)                               (* logging call *)
| SExpr (e : gexpr)                                   (* a call for its effect *)
| SSendOrDone (ch v : gexpr) (oncancel : list gstmt)  (* select { case <-ctx.Done(): oncancel; case ch <- v: } *)
| SVarZero (vars : list (string * string))            (* var x T: the zero value of T *)
| SUnknown (what : string).

Record gfun := { f_recv : option string; f_params : list string; f_body : list gstmt }.

(* ---- values ---------------------------------------------------------------------------------------------- *)
(* the manager as far as the decision functions read it *)
Record mgr := { mg_genesis : genesis; mg_da_block_time : Z;
                mg_hseen : list header; mg_dseen : list commitment }.   (* headerCache / dataCache seen sets *)
(* pendingBase as far as numPending / isEmpty read it: the store height (None = the store call fails) and the
   in-memory last-submitted height *)
Record pbase := { pb_height : option N; pb_last : N }.

(* the manager as far as the DA-inclusion functions read and write it (vocabulary of Model/Includer.v):
   store height, the block stored at the height asked for (None: GetBlockData fails), the DA-included marks of the
   two caches, the in-memory DA-included height, and whether the next SetFinal / store write succeeds *)
Record iworld := { iw_sheight : N; iw_blk : option Includer.blk; iw_hm : Includer.marks; iw_dm : Includer.marks;
                   iw_di : N; iw_fin_ok : bool; iw_put_ok : bool }.

Definition mhas (mk : Includer.marks) (i : N) : bool := match Includer.mget mk i with Some _ => true | None => false end.
Definition mget0 (mk : Includer.marks) (i : N) : N := match Includer.mget mk i with Some h => h | None => 0%N end.

Inductive gval :=
| VBool (b : bool) | VN (n : N) | VZ (z : Z)
| VErr (nonnil : bool) | VNil
| VAddr (a : addr) | VSig (s : sigterm) | VDSig (s : dsig) | VOPub (p : option pubkey) | VSigner (s : signer)
| VHeader (h : header) | VSHeader (sh : sheader) | VOMeta (m : option meta) | VData (d : data)
| VOSData (sd : option sdata)
| VTxs (l : option (list tx))                  (* a Txs slice; None = nil slice *)
| VState (s : cstate) | VCommit (c : commitment) | VRoot (r : root)
| VPayload (h : header)                        (* the signature payload bytes of a header *)
| VDataBytes (d : data)                        (* Data.MarshalBinary() *)
| VMgr (m : mgr) | VGenesis (g : genesis) | VPBase (p : pbase) | VPBStore (p : pbase) | VPBLast (p : pbase)
| VCfg (m : mgr) (path : list string)
| VTuple (l : list gval)
| VStr (s : string)
| VRec (fields : list (string * gval))          (* a struct literal, field by field *)
(* the DA helpers of types/da.go over the vocabulary of Model/Proxy.v *)
| VDASubmit (r : Proxy.sresult)                 (* a DA layer that answers SubmitWithOptions with r *)
| VDAGetIDs (g : Proxy.gresult)                 (* a DA layer that answers GetIDs with g *)
| VDAErr (e : Proxy.err) | VSent (s : Proxy.sentinel) (text : string) | VCtxCanceled | VStatus (st : Proxy.status)
| VIds (ids : list N) (h : N)                   (* ids minted at height h *)
| VId (h : N)
| VIdsResult (ids : list N) (ts : N)            (* *GetIDsResult, non-nil *)
| VBlobs (n : nat)                              (* data [][]byte as far as the helper reads it: its length *)
(* the DA admission path of block/retriever.go over the vocabulary of Model/Admission.v *)
| VBlob (b : blob)                              (* the bytes of a DA blob, by what they decode to *)
| VPbHeader (sh : option sheader)               (* a pb.SignedHeader after proto.Unmarshal: decodable by FromProto or not *)
| VZero (ty : string)                           (* new(T) / var x T before anything was decoded into it *)
| VHash (h : header) | VHCache (seen : list header) | VDCache (seen : list commitment) | VChan (name : string)
| VEff (what : string) (args : list gval)       (* an effect: cache mark, signal, channel send *)
(* DA inclusion (block/da_includer.go, manager.go IsDAIncluded / SetRollkitHeightToDAHeight) *)
| VMgrI (w : iworld) | VStoreI (w : iworld) | VExecI (w : iworld) | VAtomicI (w : iworld)
| VHMarks (m : Includer.marks) | VDMarks (m : Includer.marks)
| VHdrI (b : Includer.blk) | VDatI (b : Includer.blk) | VIdH (id : N) | VIdD (id : N)
| VLE64 (v : N)                                 (* 8 bytes, little endian *)
(* objects with assignable fields, and lists (the single sequencer's BatchQueue, sequencers/single/queue.go) *)
| VObj (ty : string) (fields : list (string * gval))
| VList (l : list gval)
| VBatchQ (b : N)                               (* a coresequencer.Batch, by its contents' id (Model/Queue.v) *)
| VHashQ (b : N) | VHexQ (b : N) | VTxsQ (b : N) | VEncQ (b : N)   (* batch.Hash(), its hex, batch.Transactions, proto.Marshal of it *)
| VKeyQ (k : N)                                 (* batchKey(seq, hash): identified with its sequence number *)
| VQDB (put_ok : bool)
| VChainQ (id : N)                              (* a chain id (request Id / Sequencer.Id) *)
| VSeqO (res err : gval)                        (* a sequencing layer that answers GetNextBatch with (res, err) *)
| VStoreM (ok : bool)                           (* the manager's store, as far as retrieveBatch writes to it *)
| VCursorQ (c : N)                              (* a batch cursor (res.BatchData), by id *)
| VErrTag (name : string)                       (* a sentinel error with its identity (errors.Is) *)
| VKey (k : Includer.mkey) | VKeyPrefix
(* orchestration code (publishBlockInternal, trySyncNextBlock): a collaborator whose methods answer from a script —
   the k-th call of method m returns the k-th entry of m's list — and whose calls are logged in order; and an
   uninterpreted value built by a constructor name (a hash, a signature, the result of a pure method on one) *)
| VOrc (name : string) (answers : list (string * list gval))
| VTok (name : string) (args : list gval)
| VAtom (name : string) (cur : N)              (* an atomic.Uint64 holding cur: Load / CompareAndSwap *)
| VSeg (tag : string) (lo hi : N)              (* the slice [lo:hi] of the list named tag (the items / blobs of a submission) *)
| VUnit.

Definition env := list (string * gval).
(* list length / append of list VALUES, under their own names so that a proof can keep them folded while the
   evaluator's own use of [length] / [++] computes *)
Definition llen (l : list gval) : N := N.of_nat (length l).
(* equality of two string VALUES of the program (hashes given by name), under its own name for the same reason *)
Definition str_eqb (a b : string) : bool := String.eqb a b.
Definition str_app (a b : string) : string := String.append a b.
Definition seg_len (lo hi : N) : N := (hi - lo)%N.               (* the length of a segment, under its own name *)
Definition status_eqb (a b : Proxy.status) : bool :=
  match a, b with
  | Proxy.StUnknown, Proxy.StUnknown | Proxy.StSuccess, Proxy.StSuccess | Proxy.StNotFound, Proxy.StNotFound
  | Proxy.StNotIncluded, Proxy.StNotIncluded | Proxy.StMempool, Proxy.StMempool | Proxy.StTooBig, Proxy.StTooBig
  | Proxy.StDeadline, Proxy.StDeadline | Proxy.StError, Proxy.StError | Proxy.StSeq, Proxy.StSeq
  | Proxy.StCanceled, Proxy.StCanceled | Proxy.StFuture, Proxy.StFuture => true
  | _, _ => false
  end.   (* concatenation of two string VALUES of the program *)
Definition lapp (a b : list gval) : list gval := a ++ b.

Fixpoint lookup {A} (l : list (string * A)) (x : string) : option A :=
  match l with
  | [] => None
  | (y, v) :: r => if String.eqb x y then Some v else lookup r x
  end.

(* ---- decision trees -------------------------------------------------------------------------------------- *)
Inductive res (A : Type) :=
| RRet (a : A)
| RIf (b : bool) (x y : res A)
| RFail (why : string).
Arguments RRet {A} a. Arguments RIf {A} b x y. Arguments RFail {A} why.

Fixpoint bind {A B} (r : res A) (k : A -> res B) : res B :=
  match r with
  | RRet a => k a
  | RIf b x y => RIf b (bind x k) (bind y k)
  | RFail w => RFail w
  end.

Fixpoint interp {A} (r : res A) : option A :=
  match r with
  | RRet a => Some a
  | RIf b x y => if b then interp x else interp y
  | RFail _ => None
  end.

(* ---- primitive meanings ---------------------------------------------------------------------------------- *)
Definition addr_len (a : addr) : N := match a with AddrEmpty => 0 | _ => 20 end.
Definition sig_len (s : sigterm) : N := match s with SigEmpty => 0 | _ => 64 end.

Definition tyname (v : gval) : string :=
  match v with
  | VHeader _ => "Header" | VSHeader _ => "SignedHeader" | VSig _ => "Signature" | VData _ => "Data"
  | VOSData _ => "SignedData" | VMgr _ => "Manager" | VMgrI _ => "Manager"
  | VObj ty _ => ty | VPBase _ => "pendingBase" | VState _ => "State"
  | _ => "?"
  end.

(* e.f *)
Definition sel (v : gval) (f : string) : res gval :=
  match v with
  | VSHeader sh =>
      if f =? "Header" then RRet (VHeader (sh_hdr sh)) else
      if f =? "Signature" then RRet (VSig (sh_sig sh)) else
      if f =? "Signer" then RRet (VSigner (sh_signer sh)) else
      if f =? "signatureProvider" then RRet VNil else      (* the default payload provider: no custom provider is modelled *)
      (* promoted fields of the embedded Header *)
      if f =? "ProposerAddress" then RRet (VAddr (h_proposer (sh_hdr sh))) else
      if f =? "AppHash" then RRet (VRoot (h_app (sh_hdr sh))) else
      if f =? "DataHash" then RRet (VCommit (h_data (sh_hdr sh))) else
      RFail ("SignedHeader." ++ f)
  | VHeader h =>
      if f =? "ProposerAddress" then RRet (VAddr (h_proposer h)) else
      if f =? "AppHash" then RRet (VRoot (h_app h)) else
      if f =? "DataHash" then RRet (VCommit (h_data h)) else
      RFail ("Header." ++ f)
  | VSigner s =>
      if f =? "PubKey" then RRet (VOPub (sg_pub s)) else
      if f =? "Address" then RRet (VAddr (sg_addr s)) else RFail ("Signer." ++ f)
  | VData d =>
      if f =? "Metadata" then RRet (VOMeta (d_meta d)) else
      if f =? "Txs" then RRet (VTxs (Some (d_txs d))) else RFail ("Data." ++ f)
  | VOSData (Some sd) =>
      if f =? "Metadata" then RRet (VOMeta (d_meta (sd_data sd))) else
      if f =? "Txs" then RRet (VTxs (Some (d_txs (sd_data sd)))) else   (* embedded Data; nil-ness of Txs: see GoLiteLemmas *)
      if f =? "Data" then RRet (VData (sd_data sd)) else
      if f =? "Signer" then RRet (VSigner (sd_signer sd)) else
      if f =? "Signature" then RRet (VDSig (sd_sig sd)) else RFail ("SignedData." ++ f)
  | VOSData None => RFail "nil pointer dereference"
  | VState s =>
      if f =? "ChainID" then RRet (VN (s_chain s)) else
      if f =? "LastBlockHeight" then RRet (VN (s_height s)) else
      if f =? "LastBlockTime" then RRet (VZ (s_time s)) else
      if f =? "AppHash" then RRet (VRoot (s_app s)) else
      if f =? "InitialHeight" then RRet (VN (s_initial s)) else
      if f =? "DAHeight" then RRet (VN (s_da s)) else
      if f =? "Version" then RRet VUnit else RFail ("State." ++ f)
  | VMgr m =>
      if f =? "genesis" then RRet (VGenesis (mg_genesis m)) else
      if f =? "config" then RRet (VCfg m ["config"]) else
      if f =? "headerCache" then RRet (VHCache (mg_hseen m)) else
      if f =? "dataCache" then RRet (VDCache (mg_dseen m)) else
      if (f =? "headerInCh") || (f =? "dataInCh") then RRet (VChan f) else
      if f =? "signaturePayloadProvider" then RRet VNil else RFail ("Manager." ++ f)
  | VCfg m p =>
      (* m.config.DA.BlockTime.Duration *)
      if f =? "Duration" then
        match p with
        | ["BlockTime"; "DA"; "config"] => RRet (VZ (mg_da_block_time m))
        | _ => RFail "config path"
        end
      else RRet (VCfg m (f :: p))
  | VGenesis g =>
      if f =? "ProposerAddress" then RRet (VAddr (g_proposer g)) else
      if f =? "ChainID" then RRet (VN (g_chain g)) else RFail ("Genesis." ++ f)
  | VPBase p =>
      if f =? "store" then RRet (VPBStore p) else
      if f =? "lastHeight" then RRet (VPBLast p) else RFail ("pendingBase." ++ f)
  | VMgrI w =>
      if f =? "store" then RRet (VStoreI w) else
      if f =? "exec" then RRet (VExecI w) else
      if f =? "daIncludedHeight" then RRet (VAtomicI w) else
      if f =? "headerCache" then RRet (VHMarks (iw_hm w)) else
      if f =? "dataCache" then RRet (VDMarks (iw_dm w)) else RFail ("Manager." ++ f)
  | VObj _ fields => match lookup fields f with Some v => RRet v | None => RFail ("field " ++ f) end
  | VBatchQ b => if f =? "Transactions" then RRet (VTxsQ b) else RFail ("Batch." ++ f)
  | VRec fields =>
      match lookup fields f with
      | Some v => RRet v
      | None =>                                  (* a field promoted from the embedded *Batch (block.BatchData) *)
          match lookup fields "Batch" with
          | Some (VRec bf) => match lookup bf f with Some v => RRet v | None => RFail ("field " ++ f) end
          | _ => RFail ("field " ++ f)
          end
      end
  | VTok _ _ => RRet (VTok ("." ++ f) [v])
  | VIdsResult ids ts =>
      if f =? "IDs" then RRet (VIds ids 0) else
      if f =? "Timestamp" then RRet (VN ts) else RFail ("GetIDsResult." ++ f)
  | _ => RFail ("select ." ++ f)
  end.

(* built-in methods (methods of translated functions are found in the function table first) *)
Definition meth (v : gval) (m : string) (args : list gval) : res gval :=
  match v, args with
  | VSHeader sh, [] =>
      if m =? "ChainID" then RRet (VN (h_chain (sh_hdr sh))) else
      if m =? "Height" then RRet (VN (h_height (sh_hdr sh))) else
      if m =? "Time" then RRet (VZ (h_time (sh_hdr sh))) else
      if m =? "Hash" then RRet (VHash (sh_hdr sh)) else RFail ("SignedHeader." ++ m)
  | VHeader h, [] =>
      if m =? "ChainID" then RRet (VN (h_chain h)) else
      if m =? "Height" then RRet (VN (h_height h)) else
      if m =? "Time" then RRet (VZ (h_time h)) else RFail ("Header." ++ m)
  | VData d, [] =>
      if m =? "DACommitment" then RRet (VCommit (d_txs d)) else
      if m =? "MarshalBinary" then RRet (VTuple [VDataBytes d; VErr false]) else
      (* Data.ChainID() / Height() / Time() read d.Metadata.X: a nil Metadata is a nil-pointer panic *)
      match d_meta d with
      | Some mt =>
          if m =? "ChainID" then RRet (VN (m_chain mt)) else
          if m =? "Height" then RRet (VN (m_height mt)) else
          if m =? "Time" then RRet (VZ (m_time mt)) else RFail ("Data." ++ m)
      | None => RFail "nil Metadata dereference"
      end
  | VSHeader sh, [_] => if m =? "SetCustomVerifier" then RRet VUnit else RFail ("SignedHeader." ++ m)
  | VHash h, [] => if m =? "String" then RRet (VHash h) else RFail ("Hash." ++ m)
  | VCommit c, [] => if m =? "String" then RRet (VCommit c) else RFail ("Hash." ++ m)
  | VHCache seen, [VHash h] => if m =? "IsSeen" then RRet (VBool (mem_header h seen)) else RFail ("headerCache." ++ m)
  | VDCache seen, [VCommit c] => if m =? "IsSeen" then RRet (VBool (mem_commitment c seen)) else RFail ("dataCache." ++ m)
  | VZ t, [VZ u] =>
      if m =? "After" then RRet (VBool (u <? t)%Z) else       (* t.After(u) *)
      if m =? "Before" then RRet (VBool (t <? u)%Z) else RFail ("Time." ++ m)
  | VZ t, [VZero ty] =>                                        (* nothing is before the zero time.Time *)
      if (m =? "Before") && (ty =? "time.Time") then RRet (VBool false) else RFail ("Time." ++ m)
  | VAtom _ cur, [] => if m =? "Load" then RRet (VN cur) else RFail ("atomic." ++ m)
  | VUnit, [] => if m =? "Err" then RRet (VErr true) else RFail ("ctx." ++ m)
  | VZero ty, [] =>                                            (* new(types.Data).DACommitment(): the hash of the empty tx list *)
      if (ty =? "Data") && (m =? "DACommitment") then RRet (VIdD 0) else RFail ("zero value." ++ m)
  | VZ t, [] => if m =? "UnixNano" then RRet (VZ t) else RFail ("Time." ++ m)
  | VUnit, [VLE64 n] => if m =? "Uint64" then RRet (VN n) else RFail ("binary.LittleEndian." ++ m)    (* ctx.Err() after ctx.Done() fired *)
  | VTok n [VBool c], [] =>                                    (* a context given with "has it been cancelled": ctx.Err() *)
      if (n =? "ctx") && (m =? "Err") then RRet (VErr c) else RRet (VTok m (v :: args))
  | VTok _ _, _ => RRet (VTok m (v :: args))                   (* a pure method of an uninterpreted value *)
  | VOrc _ answers, _ =>                                       (* read in an expression: the first answer, not logged *)
      match lookup answers m with
      | Some (x :: _) => RRet x
      | _ => RFail ("oracle method " ++ m)
      end
  | VObj _ fields, _ =>                                        (* an untranslated method of an object, read in an expression: scripted, not logged *)
      match lookup fields "$orc" with
      | Some (VOrc _ answers) => match lookup answers m with Some (x :: _) => RRet x | _ => RFail ("method " ++ m) end
      | _ => RFail ("method " ++ m)
      end
  | VRec fields, [u] =>                                        (* BatchData embeds time.Time: batchData.Before(t) *)
      if m =? "Before" then
        match lookup fields "Time", u with
        | Some (VZ t), VZ u' => RRet (VBool (t <? u')%Z)
        | Some (VZ _), VZero _ => RRet (VBool false)
        | _, _ => RFail "Before"
        end
      else if m =? "SetCustomVerifier" then RRet VUnit
      else RFail ("method " ++ m ++ " of a record")
  | VRec fields, [] =>                                         (* a struct given with the results of its getters: field "M()" *)
      match lookup fields (m ++ "()") with
      | Some x => RRet x
      | None =>
          if m =? "UnixNano" then                  (* promoted from the embedded time.Time (block.BatchData) *)
            match lookup fields "Time" with Some (VZ t) => RRet (VZ t) | _ => RFail "UnixNano" end
          else if m =? "DACommitment" then         (* the commitment of a Data record: a function of its Txs *)
            match lookup fields "Txs" with Some txs => RRet (VTok "commitment" [txs]) | None => RFail "DACommitment" end
          else RFail ("method " ++ m ++ " of a record")
      end
  | VOPub (Some p), [VPayload h; VSig s] =>
      if m =? "Verify" then RRet (VTuple [VBool (verify_header p h s); VErr false]) else RFail ("PubKey." ++ m)
  | VOPub (Some p), [VDataBytes d; VDSig s] =>
      if m =? "Verify" then RRet (VTuple [VBool (verify_data p d s); VErr false]) else RFail ("PubKey." ++ m)
  | VOPub None, _ => RFail "nil PubKey dereference"
  | VPBStore p, [_] =>
      if m =? "Height" then
        match pb_height p with
        | Some h => RRet (VTuple [VN h; VErr false])
        | None => RRet (VTuple [VN 0; VErr true])
        end
      else RFail ("store." ++ m)
  | VPBLast p, [] => if m =? "Load" then RRet (VN (pb_last p)) else RFail ("lastHeight." ++ m)
  | VDASubmit r, _ =>
      if m =? "SubmitWithOptions" then
        match r with
        | Proxy.SRes ids h => RRet (VTuple [VIds ids h; VNil])
        | Proxy.SFail e => RRet (VTuple [VIds [] 0; VDAErr e])       (* ids together with an error: outside the model *)
        end
      else RFail ("DA." ++ m)
  | VDAGetIDs g, _ =>
      if m =? "GetIDs" then
        match g with
        | Proxy.GNil => RRet (VTuple [VNil; VNil])
        | Proxy.GRes ids ts => RRet (VTuple [VIdsResult ids ts; VNil])
        | Proxy.GErr e => RRet (VTuple [VNil; VDAErr e])
        end
      else RFail ("DA." ++ m)
  | VMgrI w, [] => if m =? "GetDAIncludedHeight" then RRet (VN (iw_di w)) else RFail ("Manager." ++ m)
  | VStoreI w, [_] => if m =? "Height" then RRet (VTuple [VN (iw_sheight w); VNil]) else RFail ("store." ++ m)
  | VStoreI w, [_; VN _] =>
      if m =? "GetBlockData" then
        match iw_blk w with
        | Some b => RRet (VTuple [VHdrI b; VDatI b; VNil])
        | None => RRet (VTuple [VNil; VNil; VErr true])
        end
      else RFail ("store." ++ m)
  | VHdrI b, [] => if m =? "Hash" then RRet (VIdH (Includer.bh b)) else RFail ("header." ++ m)
  | VDatI b, [] => if m =? "DACommitment" then RRet (VIdD (Includer.bd b)) else RFail ("data." ++ m)
  | VIdH i, [] => if m =? "String" then RRet (VIdH i) else RFail ("Hash." ++ m)
  | VIdD i, [] => if m =? "String" then RRet (VIdD i) else RFail ("Hash." ++ m)
  | VHMarks mk, [VIdH i] =>
      if m =? "IsDAIncluded" then RRet (VBool (mhas mk i)) else
      if m =? "GetDAIncludedHeight" then
        RIf (mhas mk i) (RRet (VTuple [VN (mget0 mk i); VBool true])) (RRet (VTuple [VN 0; VBool false]))
      else RFail ("headerCache." ++ m)
  | VDMarks mk, [VIdD i] =>
      if m =? "IsDAIncluded" then RRet (VBool (mhas mk i)) else
      if m =? "GetDAIncludedHeight" then
        RIf (mhas mk i) (RRet (VTuple [VN (mget0 mk i); VBool true])) (RRet (VTuple [VN 0; VBool false]))
      else RFail ("dataCache." ++ m)
  | VSeqO res err, [_; _] => if m =? "GetNextBatch" then RRet (VTuple [res; err]) else RFail ("sequencer." ++ m)
  | VBatchQ b, [] => if m =? "Hash" then RRet (VTuple [VHashQ b; VNil]) else RFail ("Batch." ++ m)
  | VDAErr e, [] => if m =? "Error" then RRet (VStr (Proxy.e_msg e)) else RFail ("error." ++ m)
  | VStr a, [VStr b] => if m =? "Equal" then RRet (VBool (str_eqb a b)) else RFail ("string." ++ m)   (* ds.Key.Equal: keys by name *)
  | VSent _ t, [] => if m =? "Error" then RRet (VStr t) else RFail ("error." ++ m)
  | _, _ => RFail ("method " ++ m)
  end.

(* built-in functions *)
Definition is_nil (v : gval) : option bool :=
  match v with
  | VNil => Some true
  | VErr b => Some (negb b)
  | VOMeta m => Some (match m with None => true | _ => false end)
  | VOPub p => Some (match p with None => true | _ => false end)
  | VOSData p => Some (match p with None => true | _ => false end)
  | VTxs l => Some (match l with None => true | _ => false end)
  | VDAErr _ => Some false
  | VErrTag _ => Some false
  | VRec _ => Some false
  | VBatchQ _ => Some false
  | VIdsResult _ _ => Some false
  | VOrc _ _ => Some false
  | VObj _ _ => Some false
  | VTok n _ => if n =? "errors.Join" then Some false else None
  | _ => None
  end.

Definition builtin (globals : env) (f : string) (args : list gval) : res gval :=
  if f =? "len" then
    match args with
    | [VAddr a] => RRet (VN (addr_len a))
    | [VSig s] => RRet (VN (sig_len s))
    | [VIds ids _] => RRet (VN (N.of_nat (length ids)))
    | [VBlobs n] => RRet (VN (N.of_nat n))
    | [VTxs (Some l)] => RRet (VN (N.of_nat (length l)))
    | [VTxs None] => RRet (VN 0)
    | [VList l] => RRet (VN (llen l))
    | [VTok _ _] => RRet (VTok "len" args)
    | [VLE64 _] => RRet (VN 8)
    | [VSeg _ lo hi] => RRet (VN (seg_len lo hi))
    | [VStr _] => RRet (VTok "len" args)
    | [VTxsQ _] => RRet (VN 1)                 (* a VTxsQ is a NON-EMPTY transaction list, by id; its length only matters as "not 0" *)
    | _ => RFail "len"
    end
  else if f =? "bytes.Equal" then
    match args with
    | [VAddr a; VAddr b] => RRet (VBool (addr_eqb a b))
    | [VCommit a; VCommit b] => RRet (VBool (commitment_eqb a b))
    | [VRoot a; VRoot b] => RRet (VBool (a =? b)%N)
    | [VIdD a; VIdD b] => RRet (VBool (a =? b)%N)
    | [VChainQ a; VChainQ b] => RRet (VBool (a =? b)%N)
    | [VStr a; VStr b] => RRet (VBool (str_eqb a b))           (* hashes given by name *)
    | _ => RFail "bytes.Equal"
    end
  else if f =? "KeyAddress" then
    match args with
    | [VOPub (Some p)] => RRet (VAddr (key_address p))
    | _ => RFail "KeyAddress(nil)"
    end
  else if f =? "DefaultSignaturePayloadProvider" then
    match args with
    | [VHeader h] => RRet (VTuple [VPayload h; VErr false])
    | _ => RFail "DefaultSignaturePayloadProvider"
    end
  else if (f =? "fmt.Errorf") || (f =? "errors.New") then RRet (VErr true)
  else if f =? "context.Background" then RRet VUnit
  else if f =? "time.Now" then match lookup globals "$start" with Some v => RRet v | None => RRet VUnit end
  else if f =? "fmt.Errorf%w" then
    match args with
    | [VErrTag t] => RRet (VErrTag t)          (* wrapping keeps the identity errors.Is looks for *)
    | [VSent sn t] => RRet (VDAErr (Proxy.mk_err [sn] false t))   (* ... and, for "%w: ...", the sentinel's text at the front *)
    | _ => RRet (VErr true)
    end
  else if f =? "fmt.Sprintf" then
    match args with
    | [VStr fm; VN n] => if fm =? "%d" then RRet (VTok "decimal" [VN n]) else RRet (VStr "")
    | [VStr fm; VN sq; VHexQ _] =>
        if fm =? "s%016x-%s" then RRet (VKeyQ sq) else RFail "Sprintf: batch key format"
    | [VStr fm; VKeyPrefix; VN h] =>
        if fm =? "%s/%d/h" then RRet (VKey (Includer.KH h)) else
        if fm =? "%s/%d/d" then RRet (VKey (Includer.KT h)) else RFail "Sprintf: key format"
    | _ => RRet (VStr "")
    end
  else if f =? "hex.EncodeToString" then match args with [VHashQ b] => RRet (VHexQ b) | _ => RFail "hex.EncodeToString" end
  else if f =? "convertBatchDataToBytes" then match args with [v] => RRet v | _ => RFail "convertBatchDataToBytes" end
  else if f =? "datastore.NewKey" then match args with [v] => RRet v | _ => RFail "datastore.NewKey" end
  else if f =? "path.Base" then RRet (VTok f args)
  else if f =? "ds.NewKey" then match args with [v] => RRet v | _ => RFail "ds.NewKey" end
  else if f =? "fmt.Printf" then RRet VUnit
  else if f =? "proto.Marshal" then
    match args with
    | [VRec [(fld, VTxsQ b)]] => if fld =? "Txs" then RRet (VTuple [VEncQ b; VNil]) else RFail "proto.Marshal"
    | _ => RFail "proto.Marshal"
    end
  else if f =? "append" then
    match args with
    | [VList l; v] => RRet (VList (lapp l [v]))
    | _ => RFail "append"
    end
  else if f =? "uint64" then match args with [v] => RRet v | _ => RFail "uint64" end
  else if f =? "string" then match args with [v] => RRet v | _ => RFail "string" end      (* string(bytes): the same symbolic value *)
  else if f =? "errors.Is" then
    match args with
    | [VDAErr e; VSent sn _] => RRet (VBool (Proxy.is_sent e sn))
    | [VDAErr e; VCtxCanceled] => RRet (VBool (Proxy.e_ctx e))
    | [VErrTag a; VErrTag b] => RRet (VBool (a =? b))
    | [VErr _; VErrTag _] => RRet (VBool false)
    | [VNil; VErrTag _] => RRet (VBool false)
    | _ => RFail "errors.Is"
    end
  else if f =? "errors.Join" then                (* nil iff every part is nil; otherwise a new non-nil error of the non-nil parts *)
    match args with
    | [a; b] =>
        match is_nil a, is_nil b with
        | Some true, Some true => RRet VNil
        | Some true, Some false => RRet (VTok "errors.Join" [b])
        | Some false, Some true => RRet (VTok "errors.Join" [a])
        | Some false, Some false => RRet (VTok "errors.Join" [a; b])
        | _, _ => RFail "errors.Join"
        end
    | _ => RFail "errors.Join"
    end
  else if f =? "strings.Contains" then
    match args with
    | [VStr a; VStr b] => RRet (VBool (Proxy.contains a b))
    | _ => RFail "strings.Contains"
    end
  else if f =? "coreda.SplitID" then
    match args with
    | [VId h] => RRet (VTuple [VN h; VUnit; VNil])
    | _ => RFail "SplitID"
    end
  else if (f =? "getHeaderKey") || (f =? "getDataKey") || (f =? "getSignatureKey") || (f =? "getStateKey") ||
          (f =? "getMetaKey") || (f =? "getIndexKey") || (f =? "getHeightKey") then
    RRet (VTok f args)                                         (* pkg/store/keys.go: a key, by the function that builds it and its argument *)
  else if f =? "$slice_to" then                                 (* a[:n] *)
    match args with [VSeg t lo hi; VN n] => RRet (VSeg t lo (lo + n)) | _ => RFail "a[:n]" end
  else if f =? "$slice_from" then                               (* a[n:] *)
    match args with [VSeg t lo hi; VN n] => RRet (VSeg t (lo + n) hi) | _ => RFail "a[n:]" end
  else if f =? "context.WithValue" then RRet (VTok f args)
  else if f =? "context.WithTimeout" then RRet (VTuple [VTok "ctx-with-timeout" args; VUnit])
  else if (f =? "int") || (f =? "time.Duration") then match args with [v] => RRet v | _ => RFail f end
  else if f =? "max" then match args with [VZ a; VZ b] => RRet (VZ (Z.max a b)) | _ => RFail "max" end
  else if f =? "time.NewTicker" then RRet (VTok f args)
  else if f =? "os.IsNotExist" then
    match args with
    | [VErrTag t] => RRet (VBool (t =? "os.ErrNotExist"))
    | [VNil] | [VErr _] => RRet (VBool false)
    | _ => RFail "os.IsNotExist"
    end
  else if f =? "filepath.Join" then RRet (VTok f args)           (* a path, by its components *)
  else if f =? "gob.NewEncoder" then match args with [w] => RRet w | _ => RFail "gob.NewEncoder" end   (* encoding into w *)
  else if f =? "gob.Register" then RRet VUnit
  else if f =? "$ctxdone" then                                 (* select { case <-ctx.Done(): ...; default: } *)
    match lookup globals "$cancelled" with
    | Some (VBool b) => RRet (VBool b)
    | _ => RRet (VBool false)
    end
  else if f =? "$wait" then                                    (* errgroup.Wait(): nil iff every function returned nil *)
    (fix go (l : list gval) (acc : bool) : res gval :=
       match l with
       | [] => RRet (VErr acc)
       | VNil :: r => go r acc
       | VErr b :: r => go r (acc || b)
       | _ => RFail "g.Wait"
       end) args false
  else if f =? "NewMetricsTimer" then RRet (VRec [("start", VZ 0)])
  else if f =? "errgroup.WithContext" then match args with [c] => RRet (VTuple [VUnit; c]) | _ => RFail "errgroup.WithContext" end
  else if f =? "time.Since" then
    match args, lookup globals "$now" with
    | [VZ start], Some (VZ now) => RRet (VZ (now - start))
    | _, _ => RFail "time.Since"
    end
  else RFail ("call " ++ f).


(* uint64 subtraction wraps (numPending); everything else is far from any bound in the functions covered *)
Definition sub64 (a b : N) : N := Throttle.sub64 a b.

Definition arith (o : binop) (a b : gval) : res gval :=
  match o, a, b with
  | OEq, VN x, VN y => RRet (VBool (x =? y)%N)
  | ONe, VN x, VN y => RRet (VBool (negb (x =? y)%N))
  | OLt, VN x, VN y => RRet (VBool (x <? y)%N)
  | OLe, VN x, VN y => RRet (VBool (x <=? y)%N)
  | OGt, VN x, VN y => RRet (VBool (y <? x)%N)
  | OGe, VN x, VN y => RRet (VBool (y <=? x)%N)
  | OAdd, VN x, VN y => RRet (VN (x + y))
  | OSub, VN x, VN y => RRet (VN (sub64 x y))
  | OMul, VN x, VN y => RRet (VN (x * y))
  | OEq, VZ x, VZ y => RRet (VBool (x =? y)%Z)
  | ONe, VZ x, VZ y => RRet (VBool (negb (x =? y)%Z))
  | OLt, VZ x, VZ y => RRet (VBool (x <? y)%Z)
  | OLe, VZ x, VZ y => RRet (VBool (x <=? y)%Z)
  | OGt, VZ x, VZ y => RRet (VBool (y <? x)%Z)
  | OGe, VZ x, VZ y => RRet (VBool (y <=? x)%Z)
  | OAdd, VZ x, VZ y => RRet (VZ (x + y))
  | OSub, VZ x, VZ y => RRet (VZ (x - y))
  | OMul, VZ x, VZ y => RRet (VZ (x * y))
  | OQuo, VZ x, VZ y => RRet (VZ (x / y))                      (* a price / duration ratio, as integers *)
  | OEq, VStatus a, VStatus b => RRet (VBool (status_eqb a b))
  | OEq, VStr a, VStr b => RRet (VBool (str_eqb a b))
  | ONe, VStr a, VStr b => RRet (VBool (negb (str_eqb a b)))
  | OEq, VBool x, VBool y => RRet (VBool (Bool.eqb x y))
  | OAdd, VStr x, VStr y => RRet (VStr (str_app x y))
  (* comparison with nil: the literal nil is recognised by its constructor, so that the nil-ness [p] of the other side
     may stay symbolic (no match on it) *)
  | OEq, x, VNil => match is_nil x with Some p => RRet (VBool p) | None => RFail "==" end
  | OEq, VNil, y => match is_nil y with Some p => RRet (VBool p) | None => RFail "==" end
  | ONe, x, VNil => match is_nil x with Some p => RRet (VBool (negb p)) | None => RFail "!=" end
  | ONe, VNil, y => match is_nil y with Some p => RRet (VBool (negb p)) | None => RFail "!=" end
  | OEq, x, y =>
      match is_nil x, is_nil y with
      | Some p, Some true => RRet (VBool p)
      | Some true, Some p => RRet (VBool p)
      | _, _ => RFail "=="
      end
  | ONe, x, y =>
      match is_nil x, is_nil y with
      | Some p, Some true => RRet (VBool (negb p))
      | Some true, Some p => RRet (VBool (negb p))
      | _, _ => RFail "!="
      end
  | _, _, _ => RFail "arithmetic"
  end.

(* an untyped integer literal takes the type of the other operand *)
Definition coerce (a b : gval) : gval * gval :=
  match a, b with
  | VN x, VZ y => (VN x, VN (Z.to_N y))
  | VZ x, VN y => (VN (Z.to_N x), VN y)
  | _, _ => (a, b)
  end.

Fixpoint seq_res {A} (l : list (res A)) : res (list A) :=
  match l with
  | [] => RRet []
  | r :: rest => bind r (fun a => bind (seq_res rest) (fun as_ => RRet (a :: as_)))
  end.

Fixpoint bind_params (ps : list string) (vs : list gval) : env :=
  match ps, vs with
  | p :: ps', v :: vs' => (p, v) :: bind_params ps' vs'
  | _, _ => []
  end.

Definition starts_with_Err (x : string) : bool := String.prefix "Err" x.

(* ---- calls that write through the receiver or through a pointer argument, and calls made for their effect --- *)
(* (result, new value of the receiver, new values of the arguments by position) *)
Definition mut_meth (v : gval) (m : string) (args : list gval) : option (gval * option gval * list (nat * gval)) :=
  match v, args with
  | VZero ty, [VPbHeader o] =>
      if (ty =? "SignedHeader") && (m =? "FromProto") then              (* header.FromProto(&headerPb) *)
        match o with
        | Some sh => Some (VNil, Some (VSHeader sh), [])
        | None => Some (VErr true, None, [])
        end
      else None
  | VZero ty, [VTok n [x]] =>                                  (* v.UnmarshalBinary(stored bytes): a blob is given by what it decodes to *)
      if (m =? "UnmarshalBinary") && (n =? "blob") then Some (VNil, Some x, []) else None
  | VZero ty, [VTok n []] =>
      if (m =? "UnmarshalBinary") && (n =? "bad-blob") then Some (VErr true, None, []) else None
  | VZero ty, [VBlob b] =>
      if (ty =? "SignedData") && (m =? "UnmarshalBinary") then          (* signedData.UnmarshalBinary(bz) *)
        match b with
        | BData sd => Some (VNil, Some (VOSData (Some sd)), [])
        | _ => Some (VErr true, None, [])
        end
      else None
  | _, _ => None
  end.

Definition mut_call (f : string) (args : list gval) : option (gval * list (nat * gval)) :=
  if f =? "json.Unmarshal" then                                   (* json.Unmarshal(raw, &n): a stored decimal number *)
    match args with
    | [VTok t [VN n]; _] => if t =? "decimal" then Some (VNil, [(1%nat, VN n)]) else Some (VErr true, [])
    | [VTok t [v]; _] => if t =? "json-of" then Some (VNil, [(1%nat, v)]) else Some (VErr true, [])   (* the JSON text of a value *)
    | [_; _] => Some (VErr true, [])
    | _ => None
    end
  else if f =? "proto.Unmarshal" then                                        (* proto.Unmarshal(bz, &headerPb) *)
    match args with
    | [VBlob (BHdr sh); VZero _] => Some (VNil, [(1%nat, VPbHeader (Some sh))])
    | [VBlob BHdrUndecodable; VZero _] => Some (VNil, [(1%nat, VPbHeader None)])
    | [VBlob _; VZero _] => Some (VErr true, [])
    | _ => None
    end
  else None.

(* calls whose result matters AND that have an effect: a decision tree of (result, effects in order) — the outcome may
   depend on a condition the evaluator cannot decide (does the compare-and-swap find the expected value?) *)
Definition eff_meth (v : gval) (m : string) (args : list gval) : option (res (gval * list gval)) :=
  match v, args with
  | VExecI w, [_; VN n] =>
      if m =? "SetFinal"
      then Some (RIf (iw_fin_ok w) (RRet (VNil, [VEff "SetFinal" [VN n]])) (RRet (VErr true, [VEff "SetFinal" [VN n]])))
      else None
  | VStoreI w, [_; VKey k; VLE64 x] =>
      if m =? "SetMetadata"
      then Some (RIf (iw_put_ok w) (RRet (VNil, [VEff "put" [VKey k; VN x]])) (RRet (VErr true, [])))
      else None
  | VStoreM ok, [_; VStr key; VCursorQ c] =>
      if m =? "SetMetadata"
      then Some (RIf ok (RRet (VNil, [VEff "put-meta" [VStr key; VCursorQ c]])) (RRet (VErr true, [])))
      else None
  | VQDB ok, [_; VKeyQ k; VEncQ b] =>
      if m =? "Put" then Some (RIf ok (RRet (VNil, [VEff "put" [VKeyQ k; VBatchQ b]])) (RRet (VErr true, []))) else None
  | VQDB ok, [_; VKeyQ k] =>
      if m =? "Delete" then Some (RRet (VNil, [VEff "delete" [VKeyQ k]])) else None
  | VAtom name cur, [VZ 0%Z; VN new] =>                        (* CompareAndSwap(0, new): the literal 0 *)
      if m =? "CompareAndSwap"
      then Some (RIf (0 =? cur)%N (RRet (VBool true, [VEff (String.append name ".store") [VN new]])) (RRet (VBool false, [])))
      else None
  | VAtom name cur, [VN old; VN new] =>
      if m =? "CompareAndSwap"
      then Some (RIf (old =? cur)%N (RRet (VBool true, [VEff (String.append name ".store") [VN new]])) (RRet (VBool false, [])))
      else None
  | VAtomicI w, [VN old; VN new] =>
      if m =? "CompareAndSwap"
      then Some (RIf (old =? iw_di w)%N (RRet (VBool true, [VEff "publish" [VN new]])) (RRet (VBool false, [])))
      else None
  | _, _ => None
  end.
(* a call to a scripted collaborator (VOrc, or an object's untranslated method through its "$orc" field): the answer
   is chosen by how many calls of this method the log already holds, and the call joins the log *)
Definition count_eff (w : string) (lg : list gval) : nat :=
  length (filter (fun e => match e with VEff x _ => x =? w | _ => false end) lg).
Definition orc_of (v : gval) : option (string * list (string * list gval)) :=
  match v with
  | VOrc n a => Some (n, a)
  | VObj _ fields => match lookup fields "$orc" with Some (VOrc n a) => Some (n, a) | _ => None end
  | _ => None
  end.
Definition orc_meth (v : gval) (m : string) (args lg : list gval) : option (gval * gval) :=
  match orc_of v with
  | Some (n, a) =>
      match lookup a m with
      | Some l => let w := String.append n (String.append "." m) in
                  match nth_error l (count_eff w lg) with
                  | Some r => Some (r, VEff w args)
                  | None => None
                  end
      | None => None
      end
  | None => None
  end.
(* binary.LittleEndian.PutUint64(b, v): the bytes of slice variable b become v *)
Definition put_le (m : string) (args : list gval) : option (nat * gval) :=
  if m =? "PutUint64" then match args with [_; VN x] => Some (0%nat, VLE64 x) | _ => None end else None.
Definition slice_place (e : gexpr) : option string := match e with EVar x => Some x | _ => None end.

Definition effect_of (v : gval) (m : string) (args : list gval) : option gval :=
  match v with
  | VHCache _ => if m =? "SetDAIncluded" then Some (VEff "header-da-included" args) else None
  | VDCache _ => if m =? "SetDAIncluded" then Some (VEff "data-da-included" args) else None
  | VMgr _ => if m =? "sendNonBlockingSignalToDAIncluderCh" then Some (VEff "signal-da-includer" []) else None
  | VAtom name _ => if m =? "Store" then Some (VEff (String.append name ".store") args) else None
  | _ => None
  end.

(* where a callee's write lands: a variable passed as the receiver, or as &x *)
Definition recv_place (e : gexpr) : option string := match e with EVar x => Some x | _ => None end.
Definition arg_place (e : gexpr) : option string := match e with EAddr (EVar x) => Some x | _ => None end.
Fixpoint apply_updates (en : env) (args : list gexpr) (ups : list (nat * gval)) : env :=
  match ups with
  | [] => en
  | (i, v) :: r => match option_map arg_place (nth_error args i) with
                   | Some (Some x) => apply_updates ((x, v) :: en) args r
                   | _ => apply_updates en args r
                   end
  end.
Definition zero_of (ty : string) : gval :=
  if ty =? "uint64" then VN 0 else if ty =? "error" then VNil else
  if (ty =? "types.SignedData") || (ty =? "SignedData") then VZero "SignedData" else
  if (ty =? "pb.SignedHeader") then VZero "pb.SignedHeader" else VZero ty.

Definition bind_result (xs : list string) (v : gval) : option env :=
  match xs, v with
  | [x], _ => Some [(x, v)]
  | _, VTuple vs => if Nat.eqb (length vs) (length xs) then Some (bind_params xs vs) else None
  | _, _ => None
  end.

Definition start_env (fn : gfun) (recv : option gval) (args : list gval) : env :=
  match f_recv fn, recv with
  | Some r, Some v => ("$recv", VStr r) :: (r, v) :: bind_params (f_params fn) args
  | _, _ => bind_params (f_params fn) args
  end.


(* ---- evaluation -------------------------------------------------------------------------------------------
   [fs] = the table of translated functions; [globals] = package-level names, "$now", "$cancelled".  One fuel
   for everything; exhaustion is a failure.  Expressions are pure; writes through a receiver / pointer argument
   and effects happen in statements ([exec] threads the effect log [lg], newest first). *)
Fixpoint eval (fuel : nat) (fs : list (string * gfun)) (globals en : env) (e : gexpr) {struct fuel} : res gval :=
  match fuel with
  | O => RFail "fuel"
  | S fuel' =>
    let ev := eval fuel' fs globals en in
    let call (fn : gfun) (recv : option gval) (vs : list gval) : res gval :=
      let en' := match f_recv fn, recv with
                 | Some r, Some v => (r, v) :: bind_params (f_params fn) vs
                 | _, _ => bind_params (f_params fn) vs
                 end in
      bind (exec fuel' fs globals en' [] (f_body fn))
           (fun out => match out with
                       | ([v], []) => RRet v
                       | (l, []) => RRet (VTuple l)
                       | (_, _ :: _) => RFail "effect inside an expression"
                       end) in
    match e with
    | EVar x =>
        match lookup en x with
        | Some v => RRet v
        | None => match lookup globals x with
                  | Some v => RRet v
                  | None => if starts_with_Err x then RRet (VErr true) else RFail ("unbound " ++ x)
                  end
        end
    | ESel a f => bind (ev a) (fun v => sel v f)
    | ECall f args =>
        bind (seq_res (map ev args)) (fun vs =>
          match lookup fs f with
          | Some fn => call fn None vs
          | None => builtin globals f vs
          end)
    | EMeth a m args =>
        bind (ev a) (fun v => bind (seq_res (map ev args)) (fun vs =>
          match lookup fs (tyname v ++ "." ++ m) with
          | Some fn => call fn (Some v) vs
          | None => meth v m vs
          end))
    | EBin OAnd a b =>
        bind (ev a) (fun va => match va with
                               | VBool ba => RIf ba (ev b) (RRet (VBool false))
                               | _ => RFail "&& on a non-boolean" end)
    | EBin OOr a b =>
        bind (ev a) (fun va => match va with
                               | VBool ba => RIf ba (RRet (VBool true)) (ev b)
                               | _ => RFail "|| on a non-boolean" end)
    | EBin o a b => bind (ev a) (fun va => bind (ev b) (fun vb => let '(x, y) := coerce va vb in arith o x y))
    | ENot a => bind (ev a) (fun v => match v with VBool b => RRet (VBool (negb b)) | _ => RFail "! on a non-boolean" end)
    | EInt n => RRet (VZ n)
    | EStr t => RRet (VStr t)
    | EIndex a i =>
        bind (ev a) (fun va => bind (ev i) (fun vi =>
          match va, vi with
          | VIds (_ :: _) h, VZ 0%Z => RRet (VId h)
          | VList (x :: _), VZ 0%Z => RRet x
          | VList [], _ => RFail "index out of range"
          | VIds [] _, _ => RFail "index out of range"
          | _, _ => match va, vi with
                    | VList (_ :: y :: _), VZ 1%Z => RRet y          (* the second element of a list of known shape *)
                    | _, _ => RFail "index"
                    end
          end))
    | ESliceFrom a lo =>
        bind (ev a) (fun va => bind (ev lo) (fun vl =>
          match va, vl with
          | VList (_ :: r), VZ 1%Z => RRet (VList r)
          | VList [], VZ 1%Z => RFail "slice bounds out of range"
          | _, _ => RFail "slice"
          end))
    | ENil => RRet VNil
    | EBool b => RRet (VBool b)
    | EId a => ev a
    | EAddr a => ev a
    | ENew ty => RRet (VZero ty)
    | ELit ty fields =>
        if ty =? "Data" then
          match fields with
          | [(fname, fe)] =>
              if fname =? "Txs" then
                bind (ev fe) (fun v => match v with
                                       | VTxs (Some l) => RRet (VData {| d_meta := None; d_txs := l |})
                                       | VTxs None => RRet (VData {| d_meta := None; d_txs := [] |})
                                       | _ => RRet (VRec [(fname, v)]) end)          (* an uninterpreted tx list: a record *)
              else bind (ev fe) (fun v => RRet (VRec [(fname, v)]))        (* &types.Data{Metadata: m}: a record *)
          | [] => RRet (VData {| d_meta := None; d_txs := [] |})          (* &types.Data{} *)
          | _ => RFail "Data literal"
          end
        else if ty =? "Batch" then
          match fields with
          | [(fname, fe)] =>
              bind (ev fe) (fun v => match v with
                                     | VTxsQ b => if fname =? "Transactions" then RRet (VBatchQ b) else RRet (VRec [(fname, v)])
                                     | _ => RRet (VRec [(fname, v)]) end)
          | _ => RFail "Batch literal"
          end
        else
          (* any other struct literal: a record of its fields *)
          (* ... or, when the world scripts the untranslated methods of this type (global "$orc:T"), an object *)
          bind (seq_res (map (fun fe => bind (ev (snd fe)) (fun v => RRet (fst fe, v))) fields))
               (fun fvs => match lookup globals (String.append "$orc:" ty) with
                           | Some o => RRet (VObj ty (("$orc", o) :: fvs))
                           | None => RRet (VRec fvs)
                           end)
    | EUnknown w => RFail ("outside the fragment: " ++ w)
    end
  end
with exec (fuel : nat) (fs : list (string * gfun)) (globals en : env) (lg : list gval) (ss : list gstmt) {struct fuel}
  : res (list gval * list gval) :=
  match fuel with
  | O => RFail "fuel"
  | S fuel' =>
    let ev := eval fuel' fs globals en in
    match ss with
    | [] => RRet ([], lg)
    | s :: rest =>
      (* the pure path of an assignment *)
      let assign_pure (xs : list string) (e : gexpr) :=
        bind (ev e) (fun v => match bind_result xs v with
                              | Some b => exec fuel' fs globals (b ++ en) lg rest
                              | None => RFail "assignment arity"
                              end) in
      match s with
      | SAssign xs (EMeth a m args) =>
          bind (ev a) (fun v => bind (seq_res (map ev args)) (fun vs =>
            match lookup fs (tyname v ++ "." ++ m) with
            | Some fn =>
                (* a translated method: its effects join the log, and the state it leaves an object receiver in is
                   written back to where the receiver came from (x or x.f) *)
                bind (exec fuel' fs globals (start_env fn (Some v) vs) lg (f_body fn)) (fun out =>
                  let '(vals, lg1) := out in
                  let result := match vals with [r] => r | l => VTuple l end in
                  let '(en1, lg2) :=
                    match lg1 with
                    | VEff w [nv] :: lg' =>
                        if w =? "receiver" then
                          (match a with
                           | EVar x => (x, nv) :: en
                           | ESel (EVar x) f =>
                               match lookup en x with
                               | Some (VObj ty fields) => (x, VObj ty ((f, nv) :: fields)) :: en
                               | _ => en
                               end
                           | _ => en
                           end, lg')
                        else (en, lg1)
                    | _ => (en, lg1)
                    end in
                  match bind_result xs result with
                  | Some b => exec fuel' fs globals (b ++ en1) lg2 rest
                  | None => RFail "assignment arity"
                  end)
            | None =>
              match mut_meth v m vs with
              | Some (result, nrecv, ups) =>
                  let en1 := match nrecv, recv_place a with
                             | Some nv, Some x => (x, nv) :: en
                             | _, _ => en
                             end in
                  let en2 := apply_updates en1 args ups in
                  match bind_result xs result with
                  | Some b => exec fuel' fs globals (b ++ en2) lg rest
                  | None => RFail "assignment arity"
                  end
              | None =>
                match eff_meth v m vs with
                | Some outcome =>
                    bind outcome (fun re =>
                      match bind_result xs (fst re) with
                      | Some b => exec fuel' fs globals (b ++ en) (rev (snd re) ++ lg) rest
                      | None => RFail "assignment arity"
                      end)
                | None =>
                  match orc_meth v m vs lg with
                  | Some (result, eff) =>
                      match bind_result xs result with
                      | Some b => exec fuel' fs globals (b ++ en) (eff :: lg) rest
                      | None => RFail "assignment arity"
                      end
                  | None => assign_pure xs (EMeth a m args)
                  end
                end
              end
            end))
      | SAssign xs (ECall f args) =>
          match lookup fs f with
          | Some _ => assign_pure xs (ECall f args)
          | None =>
            bind (seq_res (map ev args)) (fun vs =>
              match mut_call f vs with
              | Some (result, ups) =>
                  match bind_result xs result with
                  | Some b => exec fuel' fs globals (b ++ apply_updates en args ups) lg rest
                  | None => RFail "assignment arity"
                  end
              | None =>
                  (* a package-level function with an effect (os.Create, os.Rename, ...): scripted like a collaborator's
                     method, through the global "$pkg" *)
                  match lookup globals "$pkg" with
                  | Some pk =>
                      match orc_meth pk f vs lg with
                      | Some (result, eff) =>
                          match bind_result xs result with
                          | Some b => exec fuel' fs globals (b ++ en) (eff :: lg) rest
                          | None => RFail "assignment arity"
                          end
                      | None => assign_pure xs (ECall f args)
                      end
                  | None => assign_pure xs (ECall f args)
                  end
              end)
          end
      | SAssign xs e => assign_pure xs e
      | SOpAssign x o e =>
          match lookup en x with
          | Some v0 => bind (ev e) (fun v1 =>
                         let '(a, b) := coerce v0 v1 in
                         bind (arith o a b) (fun v => exec fuel' fs globals ((x, v) :: en) lg rest))
          | None => RFail ("unbound " ++ x)
          end
      | SAssignField x f e =>
          match lookup en x with
          | Some (VObj ty fields) =>
              bind (ev e) (fun v => exec fuel' fs globals ((x, VObj ty ((f, v) :: fields)) :: en) lg rest)
          | Some (VRec fields) =>
              bind (ev e) (fun v => exec fuel' fs globals ((x, VRec ((f, v) :: fields)) :: en) lg rest)
          | _ => RFail ("field assignment to " ++ x)
          end
      | SIf (i :: init) c t e => exec fuel' fs globals en lg (i :: SIf init c t e :: rest)
      | SIf [] c t e =>
          bind (ev c) (fun v =>
            match v with
            | VBool b => RIf b (exec fuel' fs globals en lg (t ++ rest)) (exec fuel' fs globals en lg (e ++ rest))
            | _ => RFail "if on a non-boolean"
            end)
      | SReturn es =>
          (* the state an object receiver is left in is part of what the function did *)
          let lg' := match lookup en "$recv" with
                     | Some (VStr r) => match lookup en r with
                                        | Some (VObj ty fields) => VEff "receiver" [VObj ty fields] :: lg
                                        | _ => lg
                                        end
                     | _ => lg
                     end in
          bind (seq_res (map ev es)) (fun vs => RRet (vs, lg'))
      | SSkip _ => exec fuel' fs globals en lg rest
      | SExpr (EMeth a m args) =>
          bind (ev a) (fun v => bind (seq_res (map ev args)) (fun vs =>
            match effect_of v m vs with
            | Some eff => exec fuel' fs globals en (eff :: lg) rest
            | None =>
              match put_le m vs with
              | Some (i, nv) =>
                  match option_map slice_place (nth_error args i) with
                  | Some (Some x) => exec fuel' fs globals ((x, nv) :: en) lg rest
                  | _ => RFail "PutUint64 into something that is not a variable"
                  end
              | None =>
                match orc_meth v m vs lg with
                | Some (_, eff) => exec fuel' fs globals en (eff :: lg) rest
                | None =>
                  match eff_meth v m vs with
                  | Some outcome => bind outcome (fun re => exec fuel' fs globals en (rev (snd re) ++ lg) rest)   (* result dropped, effects kept *)
                  | None => bind (ev (EMeth a m args)) (fun _ => exec fuel' fs globals en lg rest)   (* a pure call, result dropped *)
                  end
                end
              end
            end))
      | SExpr (ECall f args) =>
          match lookup fs f, lookup globals "$pkg" with
          | None, Some pk =>
              bind (seq_res (map ev args)) (fun vs =>
                match orc_meth pk f vs lg with
                | Some (_, eff) => exec fuel' fs globals en (eff :: lg) rest
                | None => bind (ev (ECall f args)) (fun _ => exec fuel' fs globals en lg rest)
                end)
          | _, _ => bind (ev (ECall f args)) (fun _ => exec fuel' fs globals en lg rest)
          end
      | SExpr e => bind (ev e) (fun _ => exec fuel' fs globals en lg rest)
      | SSendOrDone ch v oncancel =>
          match lookup globals "$cancelled" with
          | Some (VBool true) => exec fuel' fs globals en lg (oncancel ++ rest)
          | _ => bind (ev ch) (fun vc => bind (ev v) (fun vv =>
                   exec fuel' fs globals en (VEff "send" [vc; vv] :: lg) rest))
          end
      | SVarZero vars => exec fuel' fs globals (map (fun v => (fst v, zero_of (snd v))) vars ++ en) lg rest
      | SUnknown w => RFail ("outside the fragment: " ++ w)
      end
    end
  end.

(* run a translated function by name: returned values and the effects, oldest first *)
Definition run_eff (fs : list (string * gfun)) (globals : env) (name : string) (recv : option gval) (args : list gval)
  : option (list gval * list gval) :=
  match lookup fs name with
  | None => None
  | Some fn => interp (bind (exec 400 fs globals (start_env fn recv args) [] (f_body fn)) (fun r => RRet (fst r, rev (snd r))))
  end.
(* ... of a function without effects *)
Definition run_fun (fs : list (string * gfun)) (globals : env) (name : string) (recv : option gval) (args : list gval)
  : option (list gval) :=
  match lookup fs name with
  | None => None
  | Some fn => interp (bind (exec 400 fs globals (start_env fn recv args) [] (f_body fn)) (fun r => RRet (fst r)))
  end.

(* package-level names of core/da as the helpers of types/da.go use them; the sentinel texts come from the table
   the harness reads from the linked package on every run (Model/Proxy.v) *)
Definition da_globals (T : Proxy.table) : env :=
  [("coreda.ErrBlobNotFound", VSent Proxy.SNotFound (Proxy.txt T Proxy.SNotFound));
   ("coreda.ErrBlobSizeOverLimit", VSent Proxy.STooBig (Proxy.txt T Proxy.STooBig));
   ("coreda.ErrTxTimedOut", VSent Proxy.STimedOut (Proxy.txt T Proxy.STimedOut));
   ("coreda.ErrTxAlreadyInMempool", VSent Proxy.SMempool (Proxy.txt T Proxy.SMempool));
   ("coreda.ErrTxIncorrectAccountSequence", VSent Proxy.SSeq (Proxy.txt T Proxy.SSeq));
   ("coreda.ErrContextDeadline", VSent Proxy.SDeadline (Proxy.txt T Proxy.SDeadline));
   ("coreda.ErrHeightFromFuture", VSent Proxy.SFuture (Proxy.txt T Proxy.SFuture));
   ("coreda.ErrContextCanceled", VSent Proxy.SCanceled (Proxy.txt T Proxy.SCanceled));
   ("context.Canceled", VCtxCanceled);
   ("coreda.StatusUnknown", VStatus Proxy.StUnknown); ("coreda.StatusSuccess", VStatus Proxy.StSuccess);
   ("coreda.StatusNotFound", VStatus Proxy.StNotFound); ("coreda.StatusNotIncludedInBlock", VStatus Proxy.StNotIncluded);
   ("coreda.StatusAlreadyInMempool", VStatus Proxy.StMempool); ("coreda.StatusTooBig", VStatus Proxy.StTooBig);
   ("coreda.StatusContextDeadline", VStatus Proxy.StDeadline); ("coreda.StatusError", VStatus Proxy.StError);
   ("coreda.StatusIncorrectAccountSequence", VStatus Proxy.StSeq); ("coreda.StatusContextCanceled", VStatus Proxy.StCanceled);
   ("coreda.StatusHeightFromFuture", VStatus Proxy.StFuture);
   ("placeholder", VUnit)].

(* package-level names the DA-inclusion functions use *)
Definition incl_globals : env :=
  [("DAIncludedHeightKey", VKey Includer.KD); ("RollkitHeightToDAHeightKey", VKeyPrefix);
   ("dataHashForEmptyTxs", VIdD 0); ("binary.LittleEndian", VUnit)].

(* what the node reads of a ResultSubmit / ResultRetrieve: BaseResult.{Code, IDs, SubmittedCount, Height};
   a field the literal does not mention has its zero value *)
Definition rec_field (v : gval) (f : string) : option gval :=
  match v with VRec fs => match lookup fs "BaseResult" with
                          | Some (VRec bs) => lookup bs f
                          | _ => None end
             | _ => None end.
Definition res_code (v : gval) : option Proxy.status :=
  match rec_field v "Code" with Some (VStatus st) => Some st | _ => None end.
Definition res_ids (v : gval) : list N :=
  match rec_field v "IDs" with Some (VIds l _) => l | _ => [] end.
Definition res_count (v : gval) : N :=
  match rec_field v "SubmittedCount" with Some (VN n) => n | _ => 0%N end.
Definition res_height (v : gval) : N :=
  match rec_field v "Height" with Some (VN n) => n | Some (VZ z) => Z.to_N z | _ => 0%N end.

(* the error result of a validation function: nil or an error *)
Definition errv (ok : bool) : gval := if ok then VNil else VErr true.
Definition is_ok (v : gval) : option bool := is_nil v.
