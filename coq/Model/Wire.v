(* Model/Wire.v — the byte-level model of the wire codecs (property C12).  Definitions ONLY.

   What is modelled (and from where):
   - protobuf wire format as implemented by google.golang.org/protobuf v1.36.6
       encoding/protowire/wire.go   (ConsumeVarint, ConsumeTag, ConsumeBytes, ConsumeFieldValue, groups)
       internal/impl/decode.go      (unmarshalPointerEager: the per-message loop)
       internal/impl/codec_gen.go   (consumeUint64, consumeBytesNoZero, consumeStringValidateUTF8,
                                     consumeBytesSlice, consumeInt64, consumeInt32) and codec_field.go
                                     (consumeMessageInfo: a repeated sub-message record MERGES)
   - the seven messages of proto/evnode/v1/{evnode,state,batch}.proto (+ Version, Signer, Timestamp)
   - the ToProto/FromProto glue of /repo/types/serialization.go
   - hash preimages of /repo/types/hashing.go
   - the batch-cursor list codec of /repo/block/manager.go:926-992
   A byte is an [N] (< 256 on every real input); a byte string is [list N].  Go's nil and empty
   slices are identified (both are [[]]): protobuf cannot tell them apart and bytes.Equal does not.
   Public keys are opaque byte strings: [pk_canon raw] is what
   crypto.MarshalPublicKey(crypto.UnmarshalPublicKey raw) returns, [None] when unmarshalling fails
   (harness-supplied table; a Section variable here, never an axiom). *)
From Coq Require Import NArith ZArith List Bool.
Import ListNotations.
Open Scope N_scope.

Definition bytes := list N.
Definition len (b : bytes) : N := N.of_nat (length b).
Definition two64 : N := 18446744073709551616.
Definition two32 : N := 4294967296.

(* ---------------------------------------------------------------------------------------------- *)
(* varint: protowire.AppendVarint / ConsumeVarint (wire.go:180-366)                                 *)

Fixpoint enc_varint_fuel (f : nat) (n : N) : bytes :=
  match f with
  | O => []
  | S f' => if n <? 128 then [n] else (n mod 128 + 128) :: enc_varint_fuel f' (n / 128)
  end.
(* a uint64 takes at most 10 bytes *)
Definition enc_varint (n : N) : bytes := enc_varint_fuel 10 n.

(* ConsumeVarint: at most 10 bytes; the tenth must be 0 or 1 (errCodeOverflow otherwise); running
   out of input is errCodeTruncated.  Over-long (non-minimal) encodings ARE accepted. *)
Fixpoint dec_varint_fuel (f : nat) (mul acc : N) (bs : bytes) : option (N * bytes) :=
  match f with
  | O => None
  | S f' =>
    match bs with
    | [] => None
    | b :: r =>
      if b <? 128
      then match f' with
           | O => if 2 <=? b then None else Some (acc + b * mul, r)
           | _ => Some (acc + b * mul, r)
           end
      else dec_varint_fuel f' (mul * 128) (acc + (b mod 128) * mul) r
    end
  end.
Definition dec_varint (bs : bytes) : option (N * bytes) := dec_varint_fuel 10 1 0 bs.

(* ---------------------------------------------------------------------------------------------- *)
(* the four field combinators of the encoders (proto3, no presence): impl/codec_gen.go appendUint64NoZero,
   appendBytesNoZero / appendStringNoZero, appendMessageInfo, appendBytesSlice                       *)

Definition enc_tag (num wt : N) : bytes := enc_varint (num * 8 + wt).
(* one length-delimited record, always emitted *)
Definition f_rec (num : N) (body : bytes) : bytes := enc_tag num 2 ++ enc_varint (len body) ++ body.
(* scalar varint field: elided at 0 *)
Definition f_varint (num n : N) : bytes := if n =? 0 then [] else enc_tag num 0 ++ enc_varint n.
(* bytes / string field: elided when empty *)
Definition f_bytes (num : N) (b : bytes) : bytes := match b with [] => [] | _ => f_rec num b end.
(* optional sub-message: emitted when present, even if its body is empty *)
Definition f_optmsg (num : N) (o : option bytes) : bytes := match o with None => [] | Some b => f_rec num b end.
(* repeated bytes: one record per element, empty elements included *)
Definition f_rep (num : N) (l : list bytes) : bytes := flat_map (f_rec num) l.

(* ---------------------------------------------------------------------------------------------- *)
(* generic parsing                                                                                 *)

Inductive payload := PVar (n : N) | PI64 | PBytes (b : bytes) | PI32 | PGroup.
Definition field := (N * payload)%type.

(* protowire.ConsumeBytes: the length must not exceed what is left *)
Definition take (n : N) (bs : bytes) : option (bytes * bytes) :=
  if n <=? len bs then Some (firstn (N.to_nat n) bs, skipn (N.to_nat n) bs) else None.

Definition max_field : N := 536870911.       (* protowire.MaxValidNumber = 2^29-1 *)
Definition max_int32 : N := 2147483647.
Definition group_depth : N := 10000.         (* protowire.DefaultRecursionLimit *)

(* tag of the message loop, decode.go:139-160: field number in 1 .. 2^29-1 *)
Definition read_tag (bs : bytes) : option (N * N * bytes) :=
  match dec_varint bs with
  | None => None
  | Some (t, r) => let num := t / 8 in
                   if (1 <=? num) && (num <=? max_field) then Some (num, t mod 8, r) else None
  end.
(* protowire.ConsumeTag (used inside skipped groups): field number in 1 .. MaxInt32 *)
Definition read_tag_group (bs : bytes) : option (N * N * bytes) :=
  match dec_varint bs with
  | None => None
  | Some (t, r) => let num := t / 8 in
                   if (1 <=? num) && (num <=? max_int32) then Some (num, t mod 8, r) else None
  end.

(* protowire.consumeFieldValueD, StartGroupType case (wire.go:128-160), with the Go recursion turned
   into a loop over an explicit stack of open group numbers; [lvl] = length of the stack.
   A group at nesting level k is entered with depth 10001-k and refused when that is negative.
   Every iteration consumes at least the tag byte, so [length bs + 1] iterations always suffice. *)
Fixpoint skip_group (f : nat) (stack : list N) (lvl : N) (bs : bytes) : option bytes :=
  match f with
  | O => None
  | S f' =>
    match read_tag_group bs with
    | None => None
    | Some (num, wt, r) =>
      if wt =? 0 then match dec_varint r with Some (_, r') => skip_group f' stack lvl r' | None => None end
      else if wt =? 1 then match take 8 r with Some (_, r') => skip_group f' stack lvl r' | None => None end
      else if wt =? 2 then match dec_varint r with
                           | Some (l, r1) => match take l r1 with Some (_, r') => skip_group f' stack lvl r' | None => None end
                           | None => None end
      else if wt =? 3 then if lvl <=? group_depth then skip_group f' (num :: stack) (lvl + 1) r else None
      else if wt =? 4 then match stack with
                           | top :: st' => if num =? top
                                           then match st' with [] => Some r | _ => skip_group f' st' (lvl - 1) r end
                                           else None
                           | [] => None end
      else if wt =? 5 then match take 4 r with Some (_, r') => skip_group f' stack lvl r' | None => None end
      else None
    end
  end.

(* one field of a message: tag + protowire.ConsumeFieldValue (the typed consumers of codec_gen.go
   consume exactly the same bytes when the wire type matches, and defer to it when it does not) *)
Definition parse_one (bs : bytes) : option (field * bytes) :=
  match read_tag bs with
  | None => None
  | Some (num, wt, r) =>
    if wt =? 0 then match dec_varint r with Some (v, r') => Some ((num, PVar v), r') | None => None end
    else if wt =? 1 then match take 8 r with Some (_, r') => Some ((num, PI64), r') | None => None end
    else if wt =? 2 then match dec_varint r with
                         | Some (l, r1) => match take l r1 with Some (p, r') => Some ((num, PBytes p), r') | None => None end
                         | None => None end
    else if wt =? 3 then match skip_group (S (length r)) [num] 1 r with Some r' => Some ((num, PGroup), r') | None => None end
    else if wt =? 5 then match take 4 r with Some (_, r') => Some ((num, PI32), r') | None => None end
    else None      (* 4 = EndGroup outside a group, 6 and 7 = reserved *)
  end.

(* the message loop; every iteration consumes at least one byte, fuel = input length *)
Fixpoint parse_fuel (f : nat) (bs : bytes) : option (list field) :=
  match bs with
  | [] => Some []
  | _ :: _ =>
    match f with
    | O => None
    | S f' =>
      match parse_one bs with
      | None => None
      | Some (fld, r) => match parse_fuel f' r with None => None | Some l => Some (fld :: l) end
      end
    end
  end.
Definition parse (bs : bytes) : option (list field) := parse_fuel (length bs) bs.

Fixpoint fold_opt {A : Type} (step : A -> field -> option A) (fl : list field) (a : A) : option A :=
  match fl with
  | [] => Some a
  | f :: r => match step a f with Some a' => fold_opt step r a' | None => None end
  end.
(* unmarshal INTO an existing message value (merge) *)
Definition dec_msg {A : Type} (step : A -> field -> option A) (init : A) (bs : bytes) : option A :=
  match parse bs with Some fl => fold_opt step fl init | None => None end.

(* ---------------------------------------------------------------------------------------------- *)
(* unicode/utf8.Valid (proto3 string fields are validated on marshal and on unmarshal)              *)

Definition cont (c : N) : bool := (128 <=? c) && (c <=? 191).
Definition rng (lo hi c : N) : bool := (lo <=? c) && (c <=? hi).
Fixpoint utf8_valid (bs : bytes) : bool :=
  match bs with
  | [] => true
  | b :: r =>
    if b <? 128 then utf8_valid r
    else if rng 194 223 b then match r with c1 :: r' => cont c1 && utf8_valid r' | _ => false end
    else if b =? 224 then match r with c1 :: c2 :: r' => rng 160 191 c1 && cont c2 && utf8_valid r' | _ => false end
    else if rng 225 236 b || rng 238 239 b then match r with c1 :: c2 :: r' => cont c1 && cont c2 && utf8_valid r' | _ => false end
    else if b =? 237 then match r with c1 :: c2 :: r' => rng 128 159 c1 && cont c2 && utf8_valid r' | _ => false end
    else if b =? 240 then match r with c1 :: c2 :: c3 :: r' => rng 144 191 c1 && cont c2 && cont c3 && utf8_valid r' | _ => false end
    else if rng 241 243 b then match r with c1 :: c2 :: c3 :: r' => cont c1 && cont c2 && cont c3 && utf8_valid r' | _ => false end
    else if b =? 244 then match r with c1 :: c2 :: c3 :: r' => rng 128 143 c1 && cont c2 && cont c3 && utf8_valid r' | _ => false end
    else false
  end.

(* ---------------------------------------------------------------------------------------------- *)
(* Version  (evnode.proto: block=1 app=2, both uint64)                                             *)

Record wversion := { v_block : N; v_app : N }.
Definition version0 := {| v_block := 0; v_app := 0 |}.
Definition enc_version (v : wversion) : bytes := f_varint 1 (v_block v) ++ f_varint 2 (v_app v).
Definition version_step (a : wversion) (f : field) : option wversion :=
  match f with
  | (num, PVar n) => if num =? 1 then Some {| v_block := n; v_app := v_app a |}
                     else if num =? 2 then Some {| v_block := v_block a; v_app := n |}
                     else Some a
  | _ => Some a
  end.

(* ---------------------------------------------------------------------------------------------- *)
(* Header (types/header.go, serialization.go:141-217).  ToProto always emits Version; FromProto maps
   an absent Version to the zero Version, so the pb-level presence bit is not observable.            *)

Record wheader := {
  h_version : wversion; h_height : N; h_time : N;
  h_last_header : bytes; h_last_commit : bytes; h_data_hash : bytes; h_consensus : bytes;
  h_app_hash : bytes; h_last_results : bytes; h_proposer : bytes; h_validator : bytes;
  h_chain : bytes }.
Definition header0 := {| h_version := version0; h_height := 0; h_time := 0; h_last_header := [];
  h_last_commit := []; h_data_hash := []; h_consensus := []; h_app_hash := []; h_last_results := [];
  h_proposer := []; h_validator := []; h_chain := [] |}.

Definition enc_header (h : wheader) : bytes :=
  f_rec 1 (enc_version (h_version h)) ++ f_varint 2 (h_height h) ++ f_varint 3 (h_time h) ++
  f_bytes 4 (h_last_header h) ++ f_bytes 5 (h_last_commit h) ++ f_bytes 6 (h_data_hash h) ++
  f_bytes 7 (h_consensus h) ++ f_bytes 8 (h_app_hash h) ++ f_bytes 9 (h_last_results h) ++
  f_bytes 10 (h_proposer h) ++ f_bytes 11 (h_validator h) ++ f_bytes 12 (h_chain h).
(* proto.Marshal refuses a string field that is not valid UTF-8 *)
Definition marshal_header (h : wheader) : option bytes :=
  if utf8_valid (h_chain h) then Some (enc_header h) else None.

Definition set_h_version (a : wheader) v := {| h_version := v; h_height := h_height a; h_time := h_time a; h_last_header := h_last_header a; h_last_commit := h_last_commit a; h_data_hash := h_data_hash a; h_consensus := h_consensus a; h_app_hash := h_app_hash a; h_last_results := h_last_results a; h_proposer := h_proposer a; h_validator := h_validator a; h_chain := h_chain a |}.
Definition set_h_height (a : wheader) v := {| h_version := h_version a; h_height := v; h_time := h_time a; h_last_header := h_last_header a; h_last_commit := h_last_commit a; h_data_hash := h_data_hash a; h_consensus := h_consensus a; h_app_hash := h_app_hash a; h_last_results := h_last_results a; h_proposer := h_proposer a; h_validator := h_validator a; h_chain := h_chain a |}.
Definition set_h_time (a : wheader) v := {| h_version := h_version a; h_height := h_height a; h_time := v; h_last_header := h_last_header a; h_last_commit := h_last_commit a; h_data_hash := h_data_hash a; h_consensus := h_consensus a; h_app_hash := h_app_hash a; h_last_results := h_last_results a; h_proposer := h_proposer a; h_validator := h_validator a; h_chain := h_chain a |}.
Definition set_h_last_header (a : wheader) v := {| h_version := h_version a; h_height := h_height a; h_time := h_time a; h_last_header := v; h_last_commit := h_last_commit a; h_data_hash := h_data_hash a; h_consensus := h_consensus a; h_app_hash := h_app_hash a; h_last_results := h_last_results a; h_proposer := h_proposer a; h_validator := h_validator a; h_chain := h_chain a |}.
Definition set_h_last_commit (a : wheader) v := {| h_version := h_version a; h_height := h_height a; h_time := h_time a; h_last_header := h_last_header a; h_last_commit := v; h_data_hash := h_data_hash a; h_consensus := h_consensus a; h_app_hash := h_app_hash a; h_last_results := h_last_results a; h_proposer := h_proposer a; h_validator := h_validator a; h_chain := h_chain a |}.
Definition set_h_data_hash (a : wheader) v := {| h_version := h_version a; h_height := h_height a; h_time := h_time a; h_last_header := h_last_header a; h_last_commit := h_last_commit a; h_data_hash := v; h_consensus := h_consensus a; h_app_hash := h_app_hash a; h_last_results := h_last_results a; h_proposer := h_proposer a; h_validator := h_validator a; h_chain := h_chain a |}.
Definition set_h_consensus (a : wheader) v := {| h_version := h_version a; h_height := h_height a; h_time := h_time a; h_last_header := h_last_header a; h_last_commit := h_last_commit a; h_data_hash := h_data_hash a; h_consensus := v; h_app_hash := h_app_hash a; h_last_results := h_last_results a; h_proposer := h_proposer a; h_validator := h_validator a; h_chain := h_chain a |}.
Definition set_h_app_hash (a : wheader) v := {| h_version := h_version a; h_height := h_height a; h_time := h_time a; h_last_header := h_last_header a; h_last_commit := h_last_commit a; h_data_hash := h_data_hash a; h_consensus := h_consensus a; h_app_hash := v; h_last_results := h_last_results a; h_proposer := h_proposer a; h_validator := h_validator a; h_chain := h_chain a |}.
Definition set_h_last_results (a : wheader) v := {| h_version := h_version a; h_height := h_height a; h_time := h_time a; h_last_header := h_last_header a; h_last_commit := h_last_commit a; h_data_hash := h_data_hash a; h_consensus := h_consensus a; h_app_hash := h_app_hash a; h_last_results := v; h_proposer := h_proposer a; h_validator := h_validator a; h_chain := h_chain a |}.
Definition set_h_proposer (a : wheader) v := {| h_version := h_version a; h_height := h_height a; h_time := h_time a; h_last_header := h_last_header a; h_last_commit := h_last_commit a; h_data_hash := h_data_hash a; h_consensus := h_consensus a; h_app_hash := h_app_hash a; h_last_results := h_last_results a; h_proposer := v; h_validator := h_validator a; h_chain := h_chain a |}.
Definition set_h_validator (a : wheader) v := {| h_version := h_version a; h_height := h_height a; h_time := h_time a; h_last_header := h_last_header a; h_last_commit := h_last_commit a; h_data_hash := h_data_hash a; h_consensus := h_consensus a; h_app_hash := h_app_hash a; h_last_results := h_last_results a; h_proposer := h_proposer a; h_validator := v; h_chain := h_chain a |}.
Definition set_h_chain (a : wheader) v := {| h_version := h_version a; h_height := h_height a; h_time := h_time a; h_last_header := h_last_header a; h_last_commit := h_last_commit a; h_data_hash := h_data_hash a; h_consensus := h_consensus a; h_app_hash := h_app_hash a; h_last_results := h_last_results a; h_proposer := h_proposer a; h_validator := h_validator a; h_chain := v |}.

Definition header_step (a : wheader) (f : field) : option wheader :=
  match f with
  | (num, PVar n) => if num =? 2 then Some (set_h_height a n)
                     else if num =? 3 then Some (set_h_time a n)
                     else Some a
  | (num, PBytes b) =>
      if num =? 1 then match dec_msg version_step (h_version a) b with
                       | Some v => Some (set_h_version a v) | None => None end
      else if num =? 4 then Some (set_h_last_header a b)
      else if num =? 5 then Some (set_h_last_commit a b)
      else if num =? 6 then Some (set_h_data_hash a b)
      else if num =? 7 then Some (set_h_consensus a b)
      else if num =? 8 then Some (set_h_app_hash a b)
      else if num =? 9 then Some (set_h_last_results a b)
      else if num =? 10 then Some (set_h_proposer a b)
      else if num =? 11 then Some (set_h_validator a b)
      else if num =? 12 then if utf8_valid b then Some (set_h_chain a b) else None
      else Some a
  | _ => Some a
  end.
(* Header.UnmarshalBinary on a fresh receiver *)
Definition dec_header (bs : bytes) : option wheader := dec_msg header_step header0 bs.

(* ---------------------------------------------------------------------------------------------- *)
(* Metadata (serialization.go:219-243): chain_id=1 (string) height=2 time=3 last_data_hash=4        *)

Record wmetadata := { m_chain : bytes; m_height : N; m_time : N; m_last : bytes }.
Definition metadata0 := {| m_chain := []; m_height := 0; m_time := 0; m_last := [] |}.
Definition enc_metadata (m : wmetadata) : bytes :=
  f_bytes 1 (m_chain m) ++ f_varint 2 (m_height m) ++ f_varint 3 (m_time m) ++ f_bytes 4 (m_last m).
Definition marshal_metadata (m : wmetadata) : option bytes :=
  if utf8_valid (m_chain m) then Some (enc_metadata m) else None.
Definition metadata_step (a : wmetadata) (f : field) : option wmetadata :=
  match f with
  | (num, PVar n) => if num =? 2 then Some {| m_chain := m_chain a; m_height := n; m_time := m_time a; m_last := m_last a |}
                     else if num =? 3 then Some {| m_chain := m_chain a; m_height := m_height a; m_time := n; m_last := m_last a |}
                     else Some a
  | (num, PBytes b) => if num =? 1 then if utf8_valid b then Some {| m_chain := b; m_height := m_height a; m_time := m_time a; m_last := m_last a |} else None
                       else if num =? 4 then Some {| m_chain := m_chain a; m_height := m_height a; m_time := m_time a; m_last := b |}
                       else Some a
  | _ => Some a
  end.
Definition dec_metadata (bs : bytes) : option wmetadata := dec_msg metadata_step metadata0 bs.

(* ---------------------------------------------------------------------------------------------- *)
(* Data (serialization.go:245-274): metadata=1 (optional message) txs=2 (repeated bytes)            *)

Record wdata := { d_meta : option wmetadata; d_txs : list bytes }.
Definition data0 := {| d_meta := None; d_txs := [] |}.
Definition enc_data (d : wdata) : bytes :=
  f_optmsg 1 (option_map enc_metadata (d_meta d)) ++ f_rep 2 (d_txs d).
Definition meta_ok (o : option wmetadata) : bool :=
  match o with Some m => utf8_valid (m_chain m) | None => true end.
Definition marshal_data (d : wdata) : option bytes :=
  if meta_ok (d_meta d) then Some (enc_data d) else None.
Definition data_step (a : wdata) (f : field) : option wdata :=
  match f with
  | (num, PBytes b) =>
      if num =? 1 then match dec_msg metadata_step (match d_meta a with Some m => m | None => metadata0 end) b with
                       | Some m => Some {| d_meta := Some m; d_txs := d_txs a |} | None => None end
      else if num =? 2 then Some {| d_meta := d_meta a; d_txs := d_txs a ++ [b] |}
      else Some a
  | _ => Some a
  end.
Definition dec_data (bs : bytes) : option wdata := dec_msg data_step data0 bs.

(* pb.Batch (batch.proto): txs=1 repeated bytes *)
Definition enc_batch (l : list bytes) : bytes := f_rep 1 l.
Definition batch_step (a : list bytes) (f : field) : option (list bytes) :=
  match f with
  | (num, PBytes b) => if num =? 1 then Some (a ++ [b]) else Some a
  | _ => Some a
  end.
Definition dec_batch (bs : bytes) : option (list bytes) := dec_msg batch_step [] bs.

(* ---------------------------------------------------------------------------------------------- *)
(* Signer (pb): address=1 pub_key=2;  types.Signer: Address + PubKey                                *)

Record wsigner := { sg_addr : bytes; sg_pk : bytes }.     (* Go level: sg_pk = marshalled key, [] = nil key *)
Definition signer0 := {| sg_addr := []; sg_pk := [] |}.
Definition enc_signer (s : wsigner) : bytes := f_bytes 1 (sg_addr s) ++ f_bytes 2 (sg_pk s).
Definition signer_step (a : wsigner) (f : field) : option wsigner :=
  match f with
  | (num, PBytes b) => if num =? 1 then Some {| sg_addr := b; sg_pk := sg_pk a |}
                       else if num =? 2 then Some {| sg_addr := sg_addr a; sg_pk := b |}
                       else Some a
  | _ => Some a
  end.
Definition is_nil (b : bytes) : bool := match b with [] => true | _ => false end.
(* ToProto (serialization.go:62-83, 354-376, after the repair fc1d21b): without a public key the signer
   is written with its address only *)
Definition signer_to_pb (s : wsigner) : wsigner :=
  if is_nil (sg_pk s) then {| sg_addr := sg_addr s; sg_pk := [] |} else s.

Section WithPubKeys.
Variable pk_canon : bytes -> option bytes.

(* FromProto (serialization.go:103-116, 394-407, after the repair fc1d21b): an address without a key is kept *)
Definition signer_from_pb (o : option wsigner) : option wsigner :=
  match o with
  | None => Some signer0
  | Some s => if is_nil (sg_pk s)
              then (if is_nil (sg_addr s) then Some signer0 else Some {| sg_addr := sg_addr s; sg_pk := [] |})
              else match pk_canon (sg_pk s) with
                   | Some c => Some {| sg_addr := sg_addr s; sg_pk := c |}
                   | None => None end
  end.

(* ---- SignedHeader: header=1 signature=2 signer=3 -------------------------------------------- *)
Record wsigned_header := { sh_header : wheader; sh_sig : bytes; sh_signer : wsigner }.
Record pb_signed_header := { psh_header : option wheader; psh_sig : bytes; psh_signer : option wsigner }.
Definition psh0 := {| psh_header := None; psh_sig := []; psh_signer := None |}.
Definition enc_signed_header (s : wsigned_header) : bytes :=
  f_rec 1 (enc_header (sh_header s)) ++ f_bytes 2 (sh_sig s) ++ f_rec 3 (enc_signer (signer_to_pb (sh_signer s))).
Definition marshal_signed_header (s : wsigned_header) : option bytes :=
  if utf8_valid (h_chain (sh_header s)) then Some (enc_signed_header s) else None.
Definition psh_step (a : pb_signed_header) (f : field) : option pb_signed_header :=
  match f with
  | (num, PBytes b) =>
      if num =? 1 then match dec_msg header_step (match psh_header a with Some h => h | None => header0 end) b with
                       | Some h => Some {| psh_header := Some h; psh_sig := psh_sig a; psh_signer := psh_signer a |}
                       | None => None end
      else if num =? 2 then Some {| psh_header := psh_header a; psh_sig := b; psh_signer := psh_signer a |}
      else if num =? 3 then match dec_msg signer_step (match psh_signer a with Some s => s | None => signer0 end) b with
                            | Some s => Some {| psh_header := psh_header a; psh_sig := psh_sig a; psh_signer := Some s |}
                            | None => None end
      else Some a
  | _ => Some a
  end.
(* SignedHeader.UnmarshalBinary: a missing Header is an error (serialization.go:91-93) *)
Definition dec_signed_header (bs : bytes) : option wsigned_header :=
  match dec_msg psh_step psh0 bs with
  | None => None
  | Some p => match psh_header p with
              | None => None
              | Some h => match signer_from_pb (psh_signer p) with
                          | Some sg => Some {| sh_header := h; sh_sig := psh_sig p; sh_signer := sg |}
                          | None => None end
              end
  end.

(* ---- SignedData: data=1 signature=2 signer=3 ------------------------------------------------- *)
Record wsigned_data := { sd_data : wdata; sd_sig : bytes; sd_signer : wsigner }.
Record pb_signed_data := { psd_data : option wdata; psd_sig : bytes; psd_signer : option wsigner }.
Definition psd0 := {| psd_data := None; psd_sig := []; psd_signer := None |}.
Definition enc_signed_data (s : wsigned_data) : bytes :=
  f_rec 1 (enc_data (sd_data s)) ++ f_bytes 2 (sd_sig s) ++ f_rec 3 (enc_signer (signer_to_pb (sd_signer s))).
Definition marshal_signed_data (s : wsigned_data) : option bytes :=
  if meta_ok (d_meta (sd_data s)) then Some (enc_signed_data s) else None.
Definition psd_step (a : pb_signed_data) (f : field) : option pb_signed_data :=
  match f with
  | (num, PBytes b) =>
      if num =? 1 then match dec_msg data_step (match psd_data a with Some d => d | None => data0 end) b with
                       | Some d => Some {| psd_data := Some d; psd_sig := psd_sig a; psd_signer := psd_signer a |}
                       | None => None end
      else if num =? 2 then Some {| psd_data := psd_data a; psd_sig := b; psd_signer := psd_signer a |}
      else if num =? 3 then match dec_msg signer_step (match psd_signer a with Some s => s | None => signer0 end) b with
                            | Some s => Some {| psd_data := psd_data a; psd_sig := psd_sig a; psd_signer := Some s |}
                            | None => None end
      else Some a
  | _ => Some a
  end.
(* SignedData.UnmarshalBinary on a fresh receiver: an absent Data leaves the zero Data *)
Definition dec_signed_data (bs : bytes) : option wsigned_data :=
  match dec_msg psd_step psd0 bs with
  | None => None
  | Some p => match signer_from_pb (psd_signer p) with
              | Some sg => Some {| sd_data := match psd_data p with Some d => d | None => data0 end;
                                   sd_sig := psd_sig p; sd_signer := sg |}
              | None => None end
  end.
End WithPubKeys.

(* ---------------------------------------------------------------------------------------------- *)
(* State (state.proto; serialization.go:276-327): version=1 chain_id=2 initial_height=3
   last_block_height=4 last_block_time=5 (google.protobuf.Timestamp: seconds=1 int64, nanos=2 int32)
   da_height=6 last_results_hash=7 app_hash=8.
   The time is the pair (t.Unix(), t.Nanosecond()) of the Go time.Time.                             *)

Definition two63z : Z := 9223372036854775808%Z.
Definition two64z : Z := 18446744073709551616%Z.
Definition wrap64 (z : Z) : Z := ((z + two63z) mod two64z - two63z)%Z.       (* int64 arithmetic *)
Definition u64_of_z (z : Z) : N := Z.to_N (z mod two64z).                    (* uint64(int64) *)
Definition z_of_u64 (n : N) : Z := wrap64 (Z.of_N n).                        (* int64(uint64) *)
Definition z_of_u32 (n : N) : Z :=                                           (* int32(uint64) *)
  ((Z.of_N n + 2147483648) mod 4294967296 - 2147483648)%Z.
(* time.Unix(sec, nsec) (time.go: Unix), seconds wrapping as int64 *)
Definition unix_norm (s n : Z) : Z * Z := (wrap64 (s + n / 1000000000), n mod 1000000000)%Z.
Definition zero_time : Z * Z := ((-62135596800)%Z, 0%Z).                     (* time.Time{} *)

Record wstate := {
  s_version : wversion; s_chain : bytes; s_initial : N; s_last_height : N;
  s_time : Z * Z; s_da : N; s_last_results : bytes; s_app : bytes }.
(* pb level: the timestamp is optional *)
Record pb_state := {
  ps_version : wversion; ps_chain : bytes; ps_initial : N; ps_last_height : N;
  ps_time : option (Z * Z); ps_da : N; ps_last_results : bytes; ps_app : bytes }.
Definition pstate0 := {| ps_version := version0; ps_chain := []; ps_initial := 0; ps_last_height := 0;
  ps_time := None; ps_da := 0; ps_last_results := []; ps_app := [] |}.
Definition enc_timestamp (t : Z * Z) : bytes :=
  f_varint 1 (u64_of_z (fst t)) ++ f_varint 2 (u64_of_z (snd t)).
Definition timestamp_step (a : Z * Z) (f : field) : option (Z * Z) :=
  match f with
  | (num, PVar n) => if num =? 1 then Some (z_of_u64 n, snd a)
                     else if num =? 2 then Some (fst a, z_of_u32 n)
                     else Some a
  | _ => Some a
  end.
Definition enc_state (s : wstate) : bytes :=
  f_rec 1 (enc_version (s_version s)) ++ f_bytes 2 (s_chain s) ++ f_varint 3 (s_initial s) ++
  f_varint 4 (s_last_height s) ++ f_rec 5 (enc_timestamp (s_time s)) ++ f_varint 6 (s_da s) ++
  f_bytes 7 (s_last_results s) ++ f_bytes 8 (s_app s).
Definition marshal_state (s : wstate) : option bytes :=
  if utf8_valid (s_chain s) then Some (enc_state s) else None.
Definition pstate_step (a : pb_state) (f : field) : option pb_state :=
  match f with
  | (num, PVar n) =>
      if num =? 3 then Some {| ps_version := ps_version a; ps_chain := ps_chain a; ps_initial := n; ps_last_height := ps_last_height a; ps_time := ps_time a; ps_da := ps_da a; ps_last_results := ps_last_results a; ps_app := ps_app a |}
      else if num =? 4 then Some {| ps_version := ps_version a; ps_chain := ps_chain a; ps_initial := ps_initial a; ps_last_height := n; ps_time := ps_time a; ps_da := ps_da a; ps_last_results := ps_last_results a; ps_app := ps_app a |}
      else if num =? 6 then Some {| ps_version := ps_version a; ps_chain := ps_chain a; ps_initial := ps_initial a; ps_last_height := ps_last_height a; ps_time := ps_time a; ps_da := n; ps_last_results := ps_last_results a; ps_app := ps_app a |}
      else Some a
  | (num, PBytes b) =>
      if num =? 1 then match dec_msg version_step (ps_version a) b with
                       | Some v => Some {| ps_version := v; ps_chain := ps_chain a; ps_initial := ps_initial a; ps_last_height := ps_last_height a; ps_time := ps_time a; ps_da := ps_da a; ps_last_results := ps_last_results a; ps_app := ps_app a |}
                       | None => None end
      else if num =? 2 then if utf8_valid b then Some {| ps_version := ps_version a; ps_chain := b; ps_initial := ps_initial a; ps_last_height := ps_last_height a; ps_time := ps_time a; ps_da := ps_da a; ps_last_results := ps_last_results a; ps_app := ps_app a |} else None
      else if num =? 5 then match dec_msg timestamp_step (match ps_time a with Some t => t | None => (0%Z, 0%Z) end) b with
                            | Some t => Some {| ps_version := ps_version a; ps_chain := ps_chain a; ps_initial := ps_initial a; ps_last_height := ps_last_height a; ps_time := Some t; ps_da := ps_da a; ps_last_results := ps_last_results a; ps_app := ps_app a |}
                            | None => None end
      else if num =? 7 then Some {| ps_version := ps_version a; ps_chain := ps_chain a; ps_initial := ps_initial a; ps_last_height := ps_last_height a; ps_time := ps_time a; ps_da := ps_da a; ps_last_results := b; ps_app := ps_app a |}
      else if num =? 8 then Some {| ps_version := ps_version a; ps_chain := ps_chain a; ps_initial := ps_initial a; ps_last_height := ps_last_height a; ps_time := ps_time a; ps_da := ps_da a; ps_last_results := ps_last_results a; ps_app := b |}
      else Some a
  | _ => Some a
  end.
(* FromProto: LastBlockTime.AsTime() = time.Unix(seconds, nanos); absent = time.Time{} *)
Definition state_from_pb (p : pb_state) : wstate :=
  {| s_version := ps_version p; s_chain := ps_chain p; s_initial := ps_initial p;
     s_last_height := ps_last_height p;
     s_time := match ps_time p with Some (s, n) => unix_norm s n | None => zero_time end;
     s_da := ps_da p; s_last_results := ps_last_results p; s_app := ps_app p |}.
Definition dec_state (bs : bytes) : option wstate :=
  match dec_msg pstate_step pstate0 bs with Some p => Some (state_from_pb p) | None => None end.

(* ---------------------------------------------------------------------------------------------- *)
(* hash preimages (types/hashing.go).  The hash function itself is a parameter of the theorems.    *)

Definition header_hash_preimage (h : wheader) : bytes := enc_header h.                (* Header.Hash *)
Definition data_hash_preimage (d : wdata) : bytes := 0 :: enc_data d.                 (* Data.Hash: leafPrefix = 0 *)
Definition commitment_preimage (d : wdata) : bytes :=                                 (* Data.DACommitment *)
  0 :: enc_data {| d_meta := None; d_txs := d_txs d |}.
(* payload signed for a header (types.DefaultSignaturePayloadProvider = header.MarshalBinary) and for
   a SignedData (Data.MarshalBinary) *)
Definition header_sig_payload (h : wheader) : bytes := enc_header h.
Definition data_sig_payload (d : wdata) : bytes := enc_data d.

(* ---------------------------------------------------------------------------------------------- *)
(* batch-cursor list codec (block/manager.go:926-992): 4-byte little-endian length prefixes          *)

Definition le32 (n : N) : bytes :=            (* binary.LittleEndian.PutUint32(uint32(len)) truncates *)
  [n mod 256; (n / 256) mod 256; (n / 65536) mod 256; (n / 16777216) mod 256].
Definition enc_cursor (l : list bytes) : bytes := flat_map (fun e => le32 (len e) ++ e) l.
Fixpoint dec_cursor_fuel (f : nat) (bs : bytes) : option (list bytes) :=
  match bs with
  | [] => Some []
  | _ :: _ =>
    match f with
    | O => None
    | S f' =>
      match bs with
      | b0 :: b1 :: b2 :: b3 :: r =>
          match take (b0 + 256 * b1 + 65536 * b2 + 16777216 * b3) r with
          | Some (e, r') => match dec_cursor_fuel f' r' with Some l => Some (e :: l) | None => None end
          | None => None
          end
      | _ => None
      end
    end
  end.
Definition dec_cursor (bs : bytes) : option (list bytes) := dec_cursor_fuel (length bs) bs.

(* ---------------------------------------------------------------------------------------------- *)
(* field tables (number, wire kind, proto name): compared on every run with the tables regenerated
   from the compiled pb package by protoreflect.  kind: 0 uint64, 1 bytes, 2 string, 3 message,
   4 repeated bytes, 5 int64, 6 int32                                                              *)
Definition tbl := list (N * N).
Definition tbl_version : tbl := [(1,0); (2,0)].
Definition tbl_header : tbl := [(1,3); (2,0); (3,0); (4,1); (5,1); (6,1); (7,1); (8,1); (9,1); (10,1); (11,1); (12,2)].
Definition tbl_signed_header : tbl := [(1,3); (2,1); (3,3)].
Definition tbl_signer : tbl := [(1,1); (2,1)].
Definition tbl_metadata : tbl := [(1,2); (2,0); (3,0); (4,1)].
Definition tbl_data : tbl := [(1,3); (2,4)].
Definition tbl_signed_data : tbl := [(1,3); (2,1); (3,3)].
Definition tbl_state : tbl := [(1,3); (2,2); (3,0); (4,0); (5,3); (6,0); (7,1); (8,1)].
Definition tbl_timestamp : tbl := [(1,5); (2,6)].
Definition tbl_batch : tbl := [(1,4)].
