(* Model/Retriever.v — block/retriever.go (RetrieveLoop, processNextDAHeaderAndData, handlePotentialHeader,
   handlePotentialData, fetchBlobs) and types/da.go (RetrieveWithHelpers).
   The DA layer is an INPUT: for every height from the start height on, the blobs stored there (as
   abstract classes; the harness labels every real byte string it offers with its class) and the
   sequence of outcomes the DA gives to successive fetch attempts of that height.  Beyond the described
   heights, and once a height's outcome script is used up, the DA answers "height from the future".
   Definitions only; proofs are in Proofs/RetrieverProofs.v. *)
From Coq Require Import NArith List Bool.
Import ListNotations.
Open Scope N_scope.

(* ---- what the substring tests see of a DA error (types/da.go:113,123; retriever.go:94) ------------- *)
Record daerr := { e_nf : bool;     (* text contains coreda.ErrBlobNotFound  "blob: not found" *)
                  e_fut : bool }.  (* text contains coreda.ErrHeightFromFuture "given height is from the future" *)
Definition err_future : daerr := {| e_nf := false; e_fut := true |}.

(* ---- blob classes (decided by handlePotentialHeader / handlePotentialData) ------------------------- *)
Inductive blob :=
| BHeader (id : N)      (* proposer-signed header: unmarshals, ValidateBasic = nil, proposer = genesis proposer (retriever.go:112-146) *)
| BData (id : N)        (* proposer-signed SignedData, at least one tx, Metadata present (retriever.go:160-186) *)
| BEmptyData            (* SignedData that decodes to no txs at all: ignored (retriever.go:167) *)
| BDataNoMeta (id : N)  (* proposer-signed SignedData, at least one tx, Metadata ABSENT: ignored (retriever.go:171-175,
                           since "fix: retriever: signed data without metadata no longer panics the DA scan";
                           before it: nil dereference in signedData.Height(), see known_findings.json) *)
| BJunk (k : N).        (* every other byte string, k = the generator's junk kind (empty, truncated, absurd
                           length, wrong message, foreign signer, bad signature, random, forgeries that only
                           claim the proposer's address ...) *)

(* ---- outcome of one fetch attempt as the DA double scripts it ------------------------------------- *)
Inductive outcome :=
| OListErr (e : daerr)            (* GetIDs returns an error with text class e *)
| OListNil                        (* GetIDs returns (nil, nil) *)
| OChunkErr (i : nat) (e : daerr) (* GetIDs lists the ids; the Get call number i (0-based) fails with text class e *)
| OOk.                            (* GetIDs lists the ids; every Get succeeds *)

Record hinfo := { h_blobs : list blob; h_outs : list outcome }.

(* ---- calls seen by the DA double ------------------------------------------------------------------- *)
Inductive call :=
| CGetIDs (h : N)
| CGet (h : N) (off len : nat).   (* ids off .. off+len-1 of height h *)

(* ---- RetrieveWithHelpers + fetchBlobs: types/da.go:101-186, retriever.go:218-238 ------------------ *)
Inductive status :=
| SSuccess (bl : list blob)       (* StatusSuccess, Data = bl *)
| SNotFound                       (* StatusNotFound *)
| SFuture                         (* StatusHeightFromFuture: fetchErr wraps ErrHeightFromFuture *)
| SError (futmsg : bool).         (* StatusError; futmsg = the message contains the from-the-future text *)

Definition batch_size : nat := 100.                    (* types/da.go:156 *)

(* types/da.go:158-174: the id list is cut into consecutive chunks of batch_size (fuel = length). *)
Fixpoint chunks_from (fuel off : nat) (l : list blob) : list (nat * list blob) :=
  match fuel with
  | O => []
  | S f => match l with
           | [] => []
           | _ => (off, firstn batch_size l) :: chunks_from f (off + batch_size)%nat (skipn batch_size l)
           end
  end.
Definition chunks (l : list blob) : list (nat * list blob) := chunks_from (length l) 0 l.

(* the Get loop: chunk number k fails iff fail = Some (k, e) *)
Fixpoint get_chunks (h : N) (k : nat) (fail : option (nat * daerr)) (cs : list (nat * list blob))
  : option (list blob) * bool * list call :=      (* (blobs | error), futmsg, calls *)
  match cs with
  | [] => (Some [], false, [])
  | (off, c) :: r =>
      let this := CGet h off (length c) in
      match fail with
      | Some (i, e) =>
          if Nat.eqb i k then (None, e_fut e, [this])
          else let '(res, fm, calls) := get_chunks h (S k) fail r in
               (match res with Some bl => Some (c ++ bl) | None => None end, fm, this :: calls)
      | None =>
          let '(res, fm, calls) := get_chunks h (S k) fail r in
          (match res with Some bl => Some (c ++ bl) | None => None end, fm, this :: calls)
      end
  end.

Definition fetch_listed (h : N) (bl : list blob) (fail : option (nat * daerr)) : status * list call :=
  match bl with
  | [] => (SNotFound, [CGetIDs h])                                  (* types/da.go:145 *)
  | _ => let '(res, fm, calls) := get_chunks h 0 fail (chunks bl) in
         (match res with Some got => SSuccess got | None => SError fm end, CGetIDs h :: calls)
  end.

Definition retrieve (h : N) (bl : list blob) (o : outcome) : status * list call :=
  match o with
  | OListErr e => ((if e_nf e then SNotFound                         (* types/da.go:113 *)
                    else if e_fut e then SFuture                     (* types/da.go:123 *)
                    else SError false), [CGetIDs h])                 (* types/da.go:134 *)
  | OListNil => (SNotFound, [CGetIDs h])                             (* types/da.go:145 *)
  | OChunkErr i e => fetch_listed h bl (Some (i, e))
  | OOk => fetch_listed h bl None
  end.

(* ---- node-side configuration --------------------------------------------------------------------- *)
Record cfg := { c_stored : N;           (* DAHeight of the stored state (0 on a fresh node) *)
                c_start : N;            (* config.DA.StartHeight *)
                c_seen_h : list N;      (* header ids sync has already marked seen (headerCache.IsSeen) *)
                c_seen_d : list N }.    (* data ids sync has already marked seen (dataCache.IsSeen) *)

Definition boot (c : cfg) : N := N.max (c_stored c) (c_start c).     (* manager.go:320-322,365-366 *)

Definition mem (x : N) (l : list N) : bool := existsb (N.eqb x) l.

Inductive event := EHeader (id daH : N) | EData (id daH : N).        (* NewHeaderEvent / NewDataEvent *)
Inductive mark := MHeader (id daH : N) | MData (id daH : N).         (* cache.SetDAIncluded *)

(* retriever.go:83-92 with 112-157 and 160-196: events and DA-included marks; every class returns normally *)
Fixpoint handle (c : cfg) (daH : N) (bl : list blob) : list event * list mark :=
  match bl with
  | [] => ([], [])
  | b :: r =>
      let '(ev, mk) := handle c daH r in
      match b with
      | BHeader id => ((if mem id (c_seen_h c) then ev else EHeader id daH :: ev), MHeader id daH :: mk)
      | BData id => ((if mem id (c_seen_d c) then ev else EData id daH :: ev), MData id daH :: mk)
      | BEmptyData | BDataNoMeta _ | BJunk _ => (ev, mk)
      end
  end.

(* ---- processNextDAHeaderAndData: retriever.go:56-109 --------------------------------------------- *)
Inductive presult := PNil | PFuture | PErr.    (* nil | from-the-future error | other error *)
Inductive aclass := ASuccess | ANotFound | AFuture | AErrFut | AError.   (* class of one attempt *)

Definition retries : nat := 10.                          (* dAFetcherRetries *)

Record pout := { p_res : presult; p_outs : list outcome; p_calls : list call;
                 p_events : list event; p_marks : list mark; p_classes : list aclass }.

Fixpoint attempts (c : cfg) (h : N) (bl : list blob) (n : nat) (outs : list outcome) : pout :=
  match n with
  | O => {| p_res := PErr; p_outs := outs; p_calls := []; p_events := []; p_marks := []; p_classes := [] |}
  | S n' =>
      let o := match outs with [] => OListErr err_future | o :: _ => o end in
      let outs' := tl outs in
      let '(st, calls) := retrieve h bl o in
      match st with
      | SNotFound => {| p_res := PNil; p_outs := outs'; p_calls := calls; p_events := []; p_marks := [];
                        p_classes := [ANotFound] |}                                  (* retriever.go:78-81 *)
      | SSuccess got =>
          let '(ev, mk) := handle c h got in
          {| p_res := PNil; p_outs := outs'; p_calls := calls; p_events := ev;
             p_marks := mk; p_classes := [ASuccess] |}                               (* retriever.go:82-93 *)
      | SFuture => {| p_res := PFuture; p_outs := outs'; p_calls := calls; p_events := []; p_marks := [];
                      p_classes := [AFuture] |}                                      (* retriever.go:94-96 *)
      | SError true => {| p_res := PFuture; p_outs := outs'; p_calls := calls; p_events := []; p_marks := [];
                          p_classes := [AErrFut] |}                                  (* retriever.go:94-96 *)
      | SError false =>                                                              (* retriever.go:99-106 *)
          let r := attempts c h bl n' outs' in
          {| p_res := p_res r; p_outs := p_outs r; p_calls := calls ++ p_calls r; p_events := p_events r;
             p_marks := p_marks r; p_classes := AError :: p_classes r |}
      end
  end.

Definition process (c : cfg) (h : N) (hi : hinfo) : pout := attempts c h (h_blobs hi) retries (h_outs hi).

(* ---- one iteration record (for the theorems and the comparison) ----------------------------------- *)
Record iter_rec := { i_height : N;             (* m.daHeight when the iteration began *)
                     i_loop : bool;            (* RetrieveLoop iteration (true) or a direct call of processNext… *)
                     i_blobs : list blob;      (* the DA content offered at that height *)
                     i_classes : list aclass;
                     i_result : presult;
                     i_calls : list call;
                     i_events : list event;
                     i_marks : list mark;
                     i_next : N }.             (* m.daHeight after the iteration *)

Definition mk_rec (h : N) (loop : bool) (bl : list blob) (p : pout) (next : N) : iter_rec :=
  {| i_height := h; i_loop := loop; i_blobs := bl; i_classes := p_classes p; i_result := p_res p;
     i_calls := p_calls p; i_events := p_events p; i_marks := p_marks p; i_next := next |}.

Definition no_height : hinfo := {| h_blobs := []; h_outs := [] |}.   (* a height the DA has not produced *)

Record state := { s_cursor : N;               (* m.daHeight *)
                  s_rest : list hinfo }.      (* DA from the cursor's height on, outcome scripts as far as unused *)

(* RetrieveLoop after one wake-up: retriever.go:29-51.  A successful iteration re-arms blobsFoundCh and
   the loop goes on with the next height; a failed one goes back to waiting.  Structural on the DA. *)
Fixpoint scan (c : cfg) (cur : N) (rest : list hinfo) : state * list iter_rec :=
  match rest with
  | [] => let p := process c cur no_height in
          ({| s_cursor := cur; s_rest := [] |}, [mk_rec cur true [] p cur])
  | hi :: rest' =>
      let p := process c cur hi in
      let stay := {| h_blobs := h_blobs hi; h_outs := p_outs p |} :: rest' in
      match p_res p with
      | PNil => let '(st, recs) := scan c (cur + 1) rest' in
                (st, mk_rec cur true (h_blobs hi) p (cur + 1) :: recs)        (* retriever.go:46-50 *)
      | _ => ({| s_cursor := cur; s_rest := stay |}, [mk_rec cur true (h_blobs hi) p cur])  (* :38-44 *)
      end
  end.

Inductive item :=
| ISignal      (* a value on retrieveCh while the loop waits *)
| IProc.       (* a direct call of processNextDAHeaderAndData (the loop waits meanwhile); the cursor stays *)

Definition step (c : cfg) (st : state) (it : item) : state * list iter_rec :=
  match it with
  | ISignal => scan c (s_cursor st) (s_rest st)
  | IProc =>
      let hi := hd no_height (s_rest st) in
      let p := process c (s_cursor st) hi in
      ({| s_cursor := s_cursor st;
          s_rest := match s_rest st with [] => [] | _ :: r => {| h_blobs := h_blobs hi; h_outs := p_outs p |} :: r end |},
       [mk_rec (s_cursor st) false (h_blobs hi) p (s_cursor st)])
  end.

Definition init (c : cfg) (da : list hinfo) : state := {| s_cursor := boot c; s_rest := da |}.

(* per history item: the records it produced *)
Fixpoint run_from (c : cfg) (st : state) (h : list item) : state * list (list iter_rec) :=
  match h with
  | [] => (st, [])
  | it :: r => let '(st1, recs) := step c st it in
               let '(st2, rr) := run_from c st1 r in (st2, recs :: rr)
  end.

Definition run (c : cfg) (da : list hinfo) (h : list item) := run_from c (init c da) h.
Definition final (c : cfg) (da : list hinfo) (h : list item) : state := fst (run c da h).
Definition iterations (c : cfg) (da : list hinfo) (h : list item) : list iter_rec := concat (snd (run c da h)).

(* the blobs the DA holds at absolute height n, for a DA description that starts at [boot c] *)
Definition content (c : cfg) (da : list hinfo) (n : N) : list blob :=
  if n <? boot c then [] else nth (N.to_nat (n - boot c)) (map h_blobs da) [].

(* what sync must be handed from a blob list found at DA height daH: the genuine, not yet seen ones *)
Definition genuine_events (c : cfg) (daH : N) (bl : list blob) : list event :=
  flat_map (fun b => match b with
                     | BHeader id => if mem id (c_seen_h c) then [] else [EHeader id daH]
                     | BData id => if mem id (c_seen_d c) then [] else [EData id daH]
                     | _ => []
                     end) bl.

(* ---- vocabulary of the property statements (Props/C09.v) ------------------------------------------ *)
Definition call_at (h : N) (cl : call) : Prop :=
  match cl with CGetIDs h' => h' = h | CGet h' _ _ => h' = h end.

(* the result processNextDAHeaderAndData must give when the deciding attempt has class a *)
Definition result_of (a : aclass) : presult :=
  match a with
  | ASuccess | ANotFound => PNil      (* whatever the blobs were *)
  | _ => PFuture
  end.

Definition deciding (a : aclass) : Prop := a <> AError.

(* One iteration is in order when
   - every DA call it makes is for the height the cursor pointed at, beginning with GetIDs of that height;
   - its attempts are k transient errors (each followed by another attempt) and then either a deciding
     attempt, or nothing more when all [retries] attempts were transient errors (result: error);
   - the cursor moves, by exactly one, iff it is a loop iteration whose call returned nil, and a nil
     return happens only on a deciding attempt of class success or not-found. *)
Definition rec_ok (r : iter_rec) : Prop :=
  (exists rest, i_calls r = CGetIDs (i_height r) :: rest) /\
  Forall (call_at (i_height r)) (i_calls r) /\
  (exists k : nat,
      (k = retries /\ i_classes r = repeat AError k /\ i_result r = PErr) \/
      ((k < retries)%nat /\ exists a, deciding a /\ i_classes r = repeat AError k ++ [a] /\
                                      i_result r = result_of a)) /\
  i_next r = (match i_result r with PNil => if i_loop r then i_height r + 1 else i_height r | _ => i_height r end).

Fixpoint linked (cur : N) (its : list iter_rec) : Prop :=
  match its with [] => True | r :: rs => i_height r = cur /\ linked (i_next r) rs end.

Definition last_next (cur : N) (its : list iter_rec) : N := fold_left (fun _ r => i_next r) its cur.

Definition succeeded (cl : list aclass) : bool :=
  match last cl AError with ASuccess => true | _ => false end.

(* the events of an iteration: on a successful fetch the genuine unseen blobs in DA order, otherwise none *)
Definition emits_ok (c : cfg) (r : iter_rec) : Prop :=
  i_events r = if succeeded (i_classes r) then genuine_events c (i_height r) (i_blobs r) else [].

Definition get_call (h : N) (oc : nat * list blob) : call := CGet h (fst oc) (length (snd oc)).

(* ==== RetrieveLoop with its two wake-up channels ==================================================
   retriever.go:24-51.  The loop waits in `select` on m.retrieveCh (capacity 1, manager.go:396; filled by
   the non-blocking send of SyncLoop's DA-block ticker, sync.go:233, at ANY time) and on its private
   blobsFoundCh (capacity 1; the loop itself is the only sender and the only reader).  [scan] above merges
   the two sources (one wake-up = iterate until a failure); here they are separate, a tick may arrive
   while an iteration runs, and when both channels hold a value `select` takes either one. *)

(* One loop iteration at the cursor: retriever.go:36-50.  The boolean says whether the height was passed
   (processNextDAHeaderAndData returned nil): only then the loop re-arms blobsFoundCh and moves the cursor. *)
Definition iterate (c : cfg) (st : state) : state * iter_rec * bool :=
  let cur := s_cursor st in
  match s_rest st with
  | [] => let p := process c cur no_height in
          ({| s_cursor := cur; s_rest := [] |}, mk_rec cur true [] p cur, false)
  | hi :: rest' =>
      let p := process c cur hi in
      match p_res p with
      | PNil => ({| s_cursor := cur + 1; s_rest := rest' |}, mk_rec cur true (h_blobs hi) p (cur + 1), true)
      | _ => ({| s_cursor := cur; s_rest := {| h_blobs := h_blobs hi; h_outs := p_outs p |} :: rest' |},
              mk_rec cur true (h_blobs hi) p cur, false)
      end
  end.

(* How the loop puts the continuation token into blobsFoundCh. *)
Inductive rearm :=
| RNonBlocking   (* `select { case blobsFoundCh <- struct{}{}: default: }` — the code, retriever.go:46-49 *)
| RBlocking.     (* a send that waits for room — NOT the code; the variant the theorems rule out *)

(* A send on a 1-slot channel nobody else reads: Some full' = the statement completes, None = it never does. *)
Definition send_token (m : rearm) (full : bool) : option bool :=
  match m, full with
  | _, false => Some true            (* room: the value is buffered *)
  | RNonBlocking, true => Some true  (* full: the default branch is taken, the signal is dropped *)
  | RBlocking, true => None          (* full: waits for a reader; the only reader is the sender *)
  end.

Record lstate := { l_scan : state;     (* cursor and DA as far as unused *)
                   l_tick : bool;      (* len(m.retrieveCh) = 1 *)
                   l_tok : bool;       (* len(blobsFoundCh) = 1 *)
                   l_stuck : bool }.   (* the loop goroutine is blocked for ever in the re-arm send *)

(* What the environment decides in one turn of the loop. *)
Record turn := { t_pick_tick : bool;   (* both channels ready: select takes retrieveCh (true) or blobsFoundCh (false) *)
                 t_tick : bool }.      (* a DA-block tick (non-blocking send on retrieveCh) arrives during this turn *)

(* One turn: the top select (retriever.go:30-35), and if a channel was ready, the iteration and the re-arm.
   With nothing ready the loop stays in the select and only the tick, if any, is buffered. *)
Definition lturn (m : rearm) (c : cfg) (ls : lstate) (t : turn) : lstate * list iter_rec :=
  if l_stuck ls then
    ({| l_scan := l_scan ls; l_tick := l_tick ls || t_tick t; l_tok := l_tok ls; l_stuck := true |}, [])
  else if negb (l_tick ls || l_tok ls) then
    ({| l_scan := l_scan ls; l_tick := t_tick t; l_tok := false; l_stuck := false |}, [])
  else
    let pick_tick := if l_tick ls && l_tok ls then t_pick_tick t else l_tick ls in
    let tick1 := if pick_tick then false else l_tick ls in
    let tok1 := if pick_tick then l_tok ls else false in
    let '(st1, r, adv) := iterate c (l_scan ls) in
    let tick2 := tick1 || t_tick t in
    if adv then
      match send_token m tok1 with
      | Some tok2 => ({| l_scan := st1; l_tick := tick2; l_tok := tok2; l_stuck := false |}, [r])
      | None => ({| l_scan := st1; l_tick := tick2; l_tok := tok1; l_stuck := true |}, [r])
      end
    else ({| l_scan := st1; l_tick := tick2; l_tok := tok1; l_stuck := false |}, [r]).

Fixpoint lrun (m : rearm) (c : cfg) (ls : lstate) (ts : list turn) : lstate * list (list iter_rec) :=
  match ts with
  | [] => (ls, [])
  | t :: r => let '(ls1, recs) := lturn m c ls t in
              let '(ls2, rr) := lrun m c ls1 r in (ls2, recs :: rr)
  end.

(* the loop right after start: waiting, both channels empty unless a tick is already buffered *)
Definition linit (c : cfg) (da : list hinfo) (tick : bool) : lstate :=
  {| l_scan := init c da; l_tick := tick; l_tok := false; l_stuck := false |}.

Definition literations (m : rearm) (c : cfg) (ls : lstate) (ts : list turn) : list iter_rec :=
  concat (snd (lrun m c ls ts)).

(* every height of [hs], examined in turn from [cur] on, is passed at its first loop iteration *)
Fixpoint all_pass (c : cfg) (cur : N) (hs : list hinfo) : Prop :=
  match hs with
  | [] => True
  | hi :: r => p_res (process c cur hi) = PNil /\ all_pass c (cur + 1) r
  end.

(* the iterations of a loop run are those of wake-ups served one after the other *)
Definition is_prefix {A} (a b : list A) : Prop := exists s, b = a ++ s.

(* ==== the PAYLOAD of signed data: what is handed to sync vs what was posted =========================
   Above, a data blob is a class with an id.  Here a SignedData blob is described the way it was POSTED —
   its transaction list as it stands in the repeated bytes field, whether Metadata is present, who signed
   what — and the path  SignedData.UnmarshalBinary -> Data.FromProto -> byteSlicesToTxs  (types/serialization.go)
   -> handlePotentialData -> isValidSignedData (re-marshal the DECODED data, verify the signature over these
   bytes; block/manager.go:1101-1119) decides its class AND the transaction list carried by the NewDataEvent.
   A transaction is opaque: a number names a byte string (the harness numbers the byte strings of a case);
   all the codec can see of a transaction is whether it is the zero-length byte string, which is number 0. *)
Definition tx := N.
Definition tx_nonempty (t : tx) : bool := negb (t =? 0).

Fixpoint txs_eqb (a b : list tx) : bool :=
  match a, b with
  | [], [] => true
  | x :: a', y :: b' => (x =? y) && txs_eqb a' b'
  | _, _ => false
  end.

(* types/serialization.go:330-340 txsToByteSlices (Data.ToProto): one entry per transaction, in order,
   zero-length ones included *)
Definition txs_to_slices (l : list tx) : list tx := map (fun t => t) l.

(* How the decoder turns the repeated bytes field into Txs. *)
Inductive txdecode :=
| DCopyAll      (* byteSlicesToTxs, types/serialization.go:342-351: EVERY entry becomes a transaction — the code *)
| DSkipEmpty.   (* entries of length zero are left out — NOT the code; the variant the theorems rule out *)

Definition slices_to_txs (m : txdecode) (l : list tx) : list tx :=
  match m with
  | DCopyAll => map (fun t => t) l
  | DSkipEmpty => filter tx_nonempty l
  end.

(* a blob that unmarshals as pb.SignedData, as posted *)
Record sdpost := { sp_id : N;                       (* the harness's name of the Data (its DACommitment: a function of the tx list) *)
                   sp_wire : list tx;               (* Data.Txs on the wire: the repeated bytes field, entry by entry *)
                   sp_meta : bool;                  (* Data.Metadata present *)
                   sp_signer : bool;                (* Signer.Address = genesis proposer = KeyAddress(Signer.PubKey), manager.go:1105-1111 *)
                   sp_sigfor : option (list tx) }.  (* the tx list of the Data (same Metadata) over whose MarshalBinary
                                                       Signature verifies under Signer.PubKey; None = over none *)

Definition decode_sd (m : txdecode) (sp : sdpost) : list tx := slices_to_txs m (sp_wire sp).

(* isValidSignedData, manager.go:1101-1119, on the DECODED transactions: the signature is checked against
   the bytes of the re-marshalled data *)
Definition sig_valid (sp : sdpost) (txs : list tx) : bool :=
  sp_signer sp && match sp_sigfor sp with Some l => txs_eqb (txs_to_slices txs) l | None => false end.

Definition junk_bad_signed_data : N := 200.

(* handlePotentialData, retriever.go:160-196: the class of a SignedData blob *)
Definition classify_sd (m : txdecode) (sp : sdpost) : blob :=
  let txs := decode_sd m sp in
  match txs with
  | [] => BEmptyData                                                     (* :167 len(signedData.Txs) == 0 *)
  | _ => if negb (sp_meta sp) then BDataNoMeta (sp_id sp)                (* :171 *)
         else if sig_valid sp txs then BData (sp_id sp)                  (* :178 *)
         else BJunk junk_bad_signed_data
  end.

Inductive post :=
| PHeader (id : N)        (* as BHeader *)
| PSigned (sp : sdpost)
| PJunk (k : N).          (* as BJunk: everything that is neither *)

Definition classify (m : txdecode) (p : post) : blob :=
  match p with PHeader id => BHeader id | PSigned sp => classify_sd m sp | PJunk k => BJunk k end.

Record hpost := { hp_posts : list post; hp_outs : list outcome }.

(* the DA as the class-level model above sees it *)
Definition da_of (m : txdecode) (pda : list hpost) : list hinfo :=
  map (fun h => {| h_blobs := map (classify m) (hp_posts h); h_outs := hp_outs h |}) pda.

(* events with their payload: NewDataEvent{&signedData.Data, daHeight} carries the DECODED transactions *)
Inductive pevent := PEHeader (id daH : N) | PEData (id daH : N) (txs : list tx).
Definition erase (e : pevent) : event :=
  match e with PEHeader id d => EHeader id d | PEData id d _ => EData id d end.

(* retriever.go:83-92 over the posted blobs, events with payload *)
Fixpoint phandle (m : txdecode) (c : cfg) (daH : N) (posts : list post) : list pevent :=
  match posts with
  | [] => []
  | p :: r =>
      let ev := phandle m c daH r in
      match p with
      | PHeader id => if mem id (c_seen_h c) then ev else PEHeader id daH :: ev
      | PJunk _ => ev
      | PSigned sp =>
          let txs := decode_sd m sp in                                   (* retriever.go:162 UnmarshalBinary *)
          match txs with
          | [] => ev                                                     (* :167 *)
          | _ => if negb (sp_meta sp) then ev                            (* :171 *)
                 else if negb (sig_valid sp txs) then ev                 (* :178 *)
                 else if mem (sp_id sp) (c_seen_d c) then ev             (* :187 *)
                 else PEData (sp_id sp) daH txs :: ev                    (* :191 *)
          end
      end
  end.

(* ---- the specification side: in terms of what was POSTED only ---------------------------------------- *)
(* a genuine data blob: signed by the proposer over exactly the transactions it carries, at least one
   transaction (of ANY length, zero included), Metadata present *)
Definition genuineb (sp : sdpost) : bool :=
  sp_signer sp && sp_meta sp && (match sp_wire sp with [] => false | _ => true end) &&
  match sp_sigfor sp with Some l => txs_eqb (sp_wire sp) l | None => false end.

(* what sync must be handed from the posts found at DA height daH: every genuine, not yet seen header, and
   every genuine, not yet seen data blob WITH THE TRANSACTION LIST AS POSTED, in DA order *)
Definition posted_events (c : cfg) (daH : N) (posts : list post) : list pevent :=
  flat_map (fun p => match p with
                     | PHeader id => if mem id (c_seen_h c) then [] else [PEHeader id daH]
                     | PSigned sp => if genuineb sp && negb (mem (sp_id sp) (c_seen_d c))
                                     then [PEData (sp_id sp) daH (sp_wire sp)] else []
                     | PJunk _ => []
                     end) posts.

(* the posts the DA holds at absolute height n *)
Definition pcontent (c : cfg) (pda : list hpost) (n : N) : list post :=
  if n <? boot c then [] else nth (N.to_nat (n - boot c)) (map hp_posts pda) [].

(* what an iteration hands over, with payload: on a successful fetch, handlePotentialHeader/Data over the posts *)
Definition handed (m : txdecode) (c : cfg) (pda : list hpost) (r : iter_rec) : list pevent :=
  if succeeded (i_classes r) then phandle m c (i_height r) (pcontent c pda (i_height r)) else [].

(* One iteration hands over what was posted when: the blobs it was offered are the classes of the posts the DA
   holds at its height; what it hands over (with payload) is, payload erased, exactly its events; and it is,
   on a successful fetch, exactly the genuine unseen headers and the genuine unseen data blobs of that height
   in DA order, each data event carrying the transaction list AS POSTED (zero-length entries included). *)
Definition handed_ok (c : cfg) (pda : list hpost) (r : iter_rec) : Prop :=
  i_blobs r = map (classify DCopyAll) (pcontent c pda (i_height r)) /\
  map erase (handed DCopyAll c pda r) = i_events r /\
  handed DCopyAll c pda r =
  (if succeeded (i_classes r) then posted_events c (i_height r) (pcontent c pda (i_height r)) else []).

(* ==== the SIGNATURE PAYLOAD of headers: which bytes the proposer's signature is checked against ========
   Above, a header blob is PHeader id: "proposer-signed, ValidateBasic = nil".  Here a SignedHeader blob is
   described the way it was POSTED — who signed it and over WHICH PAYLOAD — and the node by the
   SignaturePayloadProvider it is configured with (ManagerOptions.SignaturePayloadProvider, manager.go:267,409:
   the chain's rule for what a header signature covers; the sequencer signs m.signaturePayloadProvider(&header),
   manager.go:1015).  handlePotentialHeader decodes the blob (retriever.go:116-125), installs the node's
   provider on the DECODED header (:128 header.SetCustomVerifier(m.signaturePayloadProvider)) and only then
   runs ValidateBasic (:131; again in isUsingExpectedSingleSequencer :137, manager.go:595, on the same object);
   SignedHeader.ValidateBasic (types/signed_header.go:125-148) verifies Signature over
   sh.signatureProvider(&sh.Header), and over DefaultSignaturePayloadProvider(&sh.Header) when no provider is set.
   A provider is opaque: a number names it, 0 = types.DefaultSignaturePayloadProvider; the signature scheme is
   abstract: a signature verifies for exactly the payload it was made over. *)
Definition scheme := N.
Definition default_scheme : scheme := 0.

(* a blob that unmarshals as pb.SignedHeader and passes Header.ValidateBasic, as posted *)
Record hdpost := { hd_id : N;                        (* the harness's name of the header (its hash) *)
                   hd_signer : bool;                 (* ProposerAddress = Signer.Address = genesis proposer = KeyAddress(Signer.PubKey)
                                                        (signed_header.go:112-120, manager.go:595) *)
                   hd_sigfor : option scheme }.      (* the provider over whose payload of THIS header Signature verifies
                                                        under Signer.PubKey; None = over none *)

(* Which provider ValidateBasic finds on the header object. *)
Inductive verifier :=
| VConfigured   (* the node's: set on the decoded header before validation — the code, retriever.go:128 *)
| VFallback.    (* none (e.g. installed before a decode that overwrites the receiver): ValidateBasic falls back to
                   the default provider, signed_header.go:130-131 — NOT the code; the variant the theorems rule out *)

Definition payload_used (v : verifier) (conf : scheme) : scheme :=
  match v with VConfigured => conf | VFallback => default_scheme end.

(* signed_header.go:112-148 for a header of the genesis proposer's chain *)
Definition hd_sig_valid (v : verifier) (conf : scheme) (hp : hdpost) : bool :=
  hd_signer hp && match hd_sigfor hp with Some s => s =? payload_used v conf | None => false end.

Definition junk_bad_header : N := 201.

(* handlePotentialHeader retriever.go:112-146: a SignedHeader blob is a header for this node, or (ValidateBasic
   failed: "not a header", then not signed data either; or unexpected sequencer: skipped) nothing *)
Definition view_hd (v : verifier) (conf : scheme) (hp : hdpost) : post :=
  if hd_sig_valid v conf hp then PHeader (hd_id hp) else PJunk junk_bad_header.

(* the posts of a DA that several chains' nodes may read: header blobs as posted, everything else as above *)
Inductive xpost :=
| XHeader (hp : hdpost)
| XPost (p : post).

Definition view (v : verifier) (conf : scheme) (x : xpost) : post :=
  match x with XHeader hp => view_hd v conf hp | XPost p => p end.

Record xhpost := { xp_posts : list xpost; xp_outs : list outcome }.

(* the DA as a node configured with provider [conf] sees it *)
Definition pda_of (v : verifier) (conf : scheme) (xda : list xhpost) : list hpost :=
  map (fun h => {| hp_posts := map (view v conf) (xp_posts h); hp_outs := xp_outs h |}) xda.

(* ---- the specification side: in terms of what was POSTED and the chain's rule only -------------------- *)
(* a genuine header of a chain whose signatures cover the payload of provider [conf]: signed by the proposer
   over that payload *)
Definition hd_genuineb (conf : scheme) (hp : hdpost) : bool :=
  hd_signer hp && match hd_sigfor hp with Some s => s =? conf | None => false end.

(* what sync must be handed from the posts found at DA height daH on a chain with provider [conf] *)
Definition xposted_events (conf : scheme) (c : cfg) (daH : N) (xs : list xpost) : list pevent :=
  flat_map (fun x => match x with
                     | XHeader hp => if hd_genuineb conf hp && negb (mem (hd_id hp) (c_seen_h c))
                                     then [PEHeader (hd_id hp) daH] else []
                     | XPost p => posted_events c daH [p]
                     end) xs.

Definition xcontent (c : cfg) (xda : list xhpost) (n : N) : list xpost :=
  if n <? boot c then [] else nth (N.to_nat (n - boot c)) (map xp_posts xda) [].

(* One iteration of a node configured with [conf] hands over what was posted when what it hands over (with
   payload) is, payload erased, exactly its events, and is — on a successful fetch — exactly the genuine unseen
   headers OF THIS CHAIN (signed by the proposer over the chain's payload) and the genuine unseen data blobs of
   that height in DA order; nothing otherwise. *)
Definition xhanded_ok (v : verifier) (conf : scheme) (c : cfg) (xda : list xhpost) (r : iter_rec) : Prop :=
  map erase (handed DCopyAll c (pda_of v conf xda) r) = i_events r /\
  handed DCopyAll c (pda_of v conf xda) r =
  (if succeeded (i_classes r) then xposted_events conf c (i_height r) (xcontent c xda (i_height r)) else []).
