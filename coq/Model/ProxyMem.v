(* Model/ProxyMem.v — C16: da/jsonrpc/client.go SubmitWithOptions over Go's slice memory, and SEQUENCES of
   submissions that re-use the caller's slice (block/submitter.go submitToDA marshals a batch once and hands
   the same slice — or, after a partial success, a tail `marshaled[count:]` of it — to every attempt).

   Definitions only (proofs: Proofs/ProxyMemProofs.v).  Model/Proxy.v sees a call as a function of the blob
   SIZES; that is only the code's behaviour if the client does not write to the memory its caller still
   holds.  Here the blobs live in arrays of a heap, slices are (array, offset, length, capacity) windows as in
   Go, `make` allocates a new array, `append` writes IN PLACE while the capacity lasts, and the client's
   filter loop is written with exactly these operations.  What the caller's arrays hold after a call, and
   what a second call with the same slice is answered, are then consequences, not assumptions. *)
From Coq Require Import NArith List Bool Arith.
From Verif Require Import Model.Proxy.
Import ListNotations.
Open Scope list_scope.

(* a blob ([]byte): who it is (the position it was created at in the caller's batch) and its length *)
Definition blob := (N * N)%type.
Definition bid (b : blob) : N := fst b.
Definition bsize (b : blob) : N := snd b.
Definition nil_blob : blob := (0, 0)%N.                (* the zero value of []byte *)

(* the heap: arrays of blobs ([][]byte backing arrays), by address *)
Definition heap := list (list blob).
Record slice := mk_slice { s_addr : nat; s_off : nat; s_len : nat; s_cap : nat }.

Definition arr (h : heap) (a : nat) : list blob := nth a h [].
Definition read (h : heap) (s : slice) : list blob := firstn (s_len s) (skipn (s_off s) (arr h (s_addr s))).
Definition index (h : heap) (s : slice) (i : nat) : blob := nth (s_off s + i) (arr h (s_addr s)) nil_blob.   (* s[i] *)

Fixpoint set_nth {A} (i : nat) (x : A) (l : list A) : list A :=
  match l, i with
  | [], _ => []
  | _ :: r, O => x :: r
  | y :: r, S i' => y :: set_nth i' x r
  end.

Definition store (h : heap) (a i : nat) (b : blob) : heap := set_nth a (set_nth i b (arr h a)) h.

(* make([][]byte, 0, n): a new array *)
Definition make0 (h : heap) (n : nat) : heap * slice := (h ++ [repeat nil_blob n], mk_slice (length h) 0 0 n).

(* s[k:] (k <= len(s)) and s[:0] *)
Definition slice_from (s : slice) (k : nat) : slice :=
  let k := Nat.min k (s_len s) in mk_slice (s_addr s) (s_off s + k) (s_len s - k) (s_cap s - k).
Definition slice_empty (s : slice) : slice := mk_slice (s_addr s) (s_off s) 0 (s_cap s).

(* append(s, b): in place while len < cap — the write lands in the array s is a window of, whoever else holds
   it —, else into a new, larger array (the growth factor is the runtime's business; unreachable below) *)
Definition append1 (h : heap) (s : slice) (b : blob) : heap * slice :=
  if s_len s <? s_cap s
  then (store h (s_addr s) (s_off s + s_len s) b, mk_slice (s_addr s) (s_off s) (S (s_len s)) (s_cap s))
  else (h ++ [read h s ++ b :: repeat nil_blob (s_len s)], mk_slice (length h) 0 (S (s_len s)) (S (2 * s_len s))).

(* client.go SubmitWithOptions lines 153-166: `for i, blob := range inputBlobs` — element i is read from the
   array when iteration i starts —; [dst] = blobsToSubmit, [over] = oversizeBlobs > 0, k = iterations left *)
Fixpoint mem_loop (max cur : N) (h : heap) (inp dst : slice) (i k : nat) (over : bool) : heap * slice * bool :=
  match k with
  | O => (h, dst, over)
  | S k' =>
      let b := index h inp i in
      if (max <? bsize b)%N then mem_loop max cur h inp dst (S i) k' true          (* oversizeBlobs++; continue *)
      else if (max <? cur + bsize b)%N then (h, dst, over)                           (* break *)
      else let hd := append1 h dst b in                                             (* blobsToSubmit = append(blobsToSubmit, blob) *)
           mem_loop max (cur + bsize b)%N (fst hd) inp (snd hd) (S i) k' over
  end.

(* lines 148-166 with line 149 as it is: blobsToSubmit = make([][]byte, 0, len(inputBlobs)) *)
Definition mem_filter (max : N) (h : heap) (inp : slice) : heap * slice * bool :=
  let hd := make0 h (s_len inp) in mem_loop max 0 (fst hd) inp (snd hd) 0 (s_len inp) false.

(* client.go SubmitWithOptions (lines 144-194) under SubmitWithHelpers: what the helper reports, the blobs that
   reached the backing DA (the request is serialised: the server side never sees the client's memory), the heap
   afterwards *)
Definition proxied_submit_mem (T : table) (max : N) (b : backend) (cancelled : bool) (h : heap) (inp : slice)
  : sobs * list (list blob) * heap :=
  let n := s_len inp in
  let '(h1, dst, over) := mem_filter max h inp in
  if over then (submit_helper n (SFail (sent_err T STooBig)), [], h1)
  else match read h1 dst with
       | [] => match n with
               | O => (submit_helper n (SRes [] 0), [], h1)
               | S _ => (submit_helper n (SFail (sent_err T STooBig)), [], h1)
               end
       | taken => let q := rpc_submit T b cancelled (map bsize taken) in
                  (submit_helper n (client_sresult T (fst q)), if cancelled then [] else [taken], h1)
       end.

(* the same DA in-process: it is handed the caller's slice itself (a backing DA is a function of what it
   receives: one that writes to its argument is outside the model) *)
Definition direct_submit_mem (T : table) (b : backend) (cancelled : bool) (h : heap) (inp : slice)
  : sobs * list (list blob) * heap :=
  (fst (direct_submit T b cancelled (map bsize (read h inp))), if cancelled then [] else [read h inp], h).

(* ---- sequences of attempts on one slice --------------------------------------------------------------------
   an attempt: the caller first drops [a_skip] leading blobs from the slice it used last (submitToDA line 133:
   `marshaled = currMarshaled[res.SubmittedCount:]`; 0 = a plain retry with the very same slice), then calls
   with whatever the backing DA does this time.  Reported per attempt: the helper's result, the blobs that
   reached the DA, and the content of the array the caller's slice is a window of, after the call. *)
Record attempt := mk_attempt { a_skip : nat; a_back : backend; a_cancel : bool }.

Definition step_out := (sobs * list (list blob) * list blob)%type.

Fixpoint proxied_attempts (T : table) (max : N) (h : heap) (s : slice) (l : list attempt) : list step_out :=
  match l with
  | [] => []
  | a :: r =>
      let s' := slice_from s (a_skip a) in
      let '(o, lg, h') := proxied_submit_mem T max (a_back a) (a_cancel a) h s' in
      (o, lg, arr h' (s_addr s)) :: proxied_attempts T max h' s' r
  end.

Fixpoint direct_attempts (T : table) (h : heap) (s : slice) (l : list attempt) : list step_out :=
  match l with
  | [] => []
  | a :: r =>
      let s' := slice_from s (a_skip a) in
      let '(o, lg, h') := direct_submit_mem T (a_back a) (a_cancel a) h s' in
      (o, lg, arr h' (s_addr s)) :: direct_attempts T h' s' r
  end.

(* the same sequence if every call were a function of the blobs it is handed and of nothing else
   (Model/Proxy.v's view: no memory) *)
Fixpoint spec_attempts (T : table) (max : N) (blobs : list blob) (l : list attempt) : list (sobs * list (list N)) :=
  match l with
  | [] => []
  | a :: r => let bl := skipn (a_skip a) blobs in
              proxied_submit T max (a_back a) (a_cancel a) (map bsize bl) :: spec_attempts T max bl r
  end.

Fixpoint spec_direct_attempts (T : table) (blobs : list blob) (l : list attempt) : list (sobs * list (list N)) :=
  match l with
  | [] => []
  | a :: r => let bl := skipn (a_skip a) blobs in
              direct_submit T (a_back a) (a_cancel a) (map bsize bl) :: spec_direct_attempts T bl r
  end.

(* the caller's batch: blob i of the given sizes, in array 0 of a heap of its own; the caller's slice *)
Fixpoint batch_from (i : N) (sizes : list N) : list blob :=
  match sizes with [] => [] | x :: r => (i, x) :: batch_from (i + 1)%N r end.
Definition batch (sizes : list N) : list blob := batch_from 0 sizes.
Definition caller_heap (sizes : list N) : heap := [batch sizes].
Definition caller_slice (sizes : list N) : slice := mk_slice 0 0 (length sizes) (length sizes).

(* a slice is a window of an array that exists *)
Definition wf_slice (h : heap) (s : slice) : Prop :=
  (s_addr s < length h)%nat /\ (s_off s + s_cap s <= length (arr h (s_addr s)))%nat /\ (s_len s <= s_cap s)%nat.

(* ---- what "collecting in place" would do (NOT the code: line 149 allocates) — for the Examples of
   Props/C16.v that show the statements above are not vacuous ------------------------------------------------ *)
Definition mem_filter_inplace (max : N) (h : heap) (inp : slice) : heap * slice * bool :=
  mem_loop max 0 h inp (slice_empty inp) 0 (s_len inp) false.
