(* Model/StopProto.v — the stop protocol of the background loops (C13, part B).
   The table of blocking operations is REGENERATED from /repo/block/*.go on every run by
   harness/translators/blockpoints (coq/gen/BlockPoints.v : block_points, loop_reach).
   An activity is abstracted to: it moves from one blocking point to another (control flow is chosen
   by the environment, i.e. every order is covered); at each visit the environment decides whether some
   ordinary case of the operation is ready.  After cancellation a cancellable point (a select with a
   <-ctx.Done() case) always has a ready case; Go's select may still pick another ready case. *)
From Coq Require Import String List Bool Arith.
Import ListNotations.
Open Scope string_scope.

Record bpoint := { bp_func : string; bp_kind : string; bp_what : string; bp_cancellable : bool }.

Definition non_cancellable (t : list bpoint) : list bpoint := filter (fun p => negb (bp_cancellable p)) t.

(* the blocking points an activity (loop root) can reach *)
Definition in_list (s : string) (l : list string) : bool := existsb (String.eqb s) l.
Definition activity_points (t : list bpoint) (reach : list string) : list bpoint :=
  filter (fun p => in_list (bp_func p) reach) t.
Definition all_cancellable (t : list bpoint) (reach : list string) : bool :=
  forallb bp_cancellable (activity_points t reach).

(* one environment move per visit of a blocking point *)
Record move := {
  mv_ready : bool;        (* an ordinary (non-Done) case of the operation is ready / the operation completes *)
  mv_pick_other : bool;   (* when Done and an ordinary case are both ready, select picks the ordinary one *)
  mv_next : nat           (* which blocking point the control flow reaches next (index into the activity's points) *)
}.

Inductive astate := Running (p : bpoint) | Returned.

Definition goto (pts : list bpoint) (cur : bpoint) (i : nat) : astate :=
  match nth_error pts i with Some q => Running q | None => Running cur end.

(* a step AFTER the node was asked to stop (ctx cancelled) *)
Definition step_cancelled (pts : list bpoint) (s : astate) (m : move) : astate :=
  match s with
  | Returned => Returned
  | Running p =>
      if bp_cancellable p then
        (* Done is ready: the activity returns unless select picks another ready case *)
        if mv_ready m && mv_pick_other m then goto pts p (mv_next m) else Returned
      else
        (* not cancellable: proceeds only if the environment lets the operation complete *)
        if mv_ready m then goto pts p (mv_next m) else Running p
  end.

Definition run_cancelled (pts : list bpoint) (s : astate) (ms : list move) : astate :=
  fold_left (step_cancelled pts) ms s.

(* how often the environment makes select prefer another case over Done *)
Definition others (ms : list move) : nat :=
  length (filter (fun m => mv_ready m && mv_pick_other m) ms).

Definition block_forever : move := {| mv_ready := false; mv_pick_other := false; mv_next := 0 |}.
