(* Model/Admission.v — what a node admits from the DA layer and from P2P gossip, and what an
   admitted item does to a syncing full node (property C03).  Symbolic crypto of Model/Types.v:
   a signature is the term [Sig k payload]; an item "built without the proposer's key pk" is any
   term whose signature is not [Sig pk <its own header>].
   Mirrors the pinned tree AS IT IS (including F3, F4 and the nil-Metadata panic):
     types/signed_header.go, types/header.go, types/signer.go, types/data.go, types/serialization.go,
     block/manager.go (isUsingExpectedSingleSequencer, isValidSignedData, execValidate),
     block/retriever.go (handlePotentialHeader/Data, processNextDAHeaderAndData's blob loop),
     types/da.go (RetrieveWithHelpers, success path: the batched read of one DA height), block/store.go (the two store loops),
     block/sync.go (SyncLoop, trySyncNextBlock, handleEmptyDataHash), block/da_includer.go,
     go-header v0.6.6 verify.go / p2p/subscriber.go:214 / sync/sync_head.go:158 / sync/sync_store.go:48.
   Definitions only. *)
From Coq Require Import NArith ZArith List Bool.
From Verif Require Import Model.Types.
Import ListNotations.

(* pkg/genesis/genesis.go Genesis *)
Record genesis := { g_chain : chainid; g_initial : N; g_proposer : addr }.

(* ---- signed data (types/data.go:38 SignedData) ------------------------------------------------ *)
Definition meta_eqb (a b : meta) : bool :=
  (m_chain a =? m_chain b)%N && (m_height a =? m_height b)%N && (m_time a =? m_time b)%Z.
Definition data_eqb (a b : data) : bool :=
  match d_meta a, d_meta b with
  | Some x, Some y => meta_eqb x y
  | None, None => true
  | _, _ => false
  end && commitment_eqb (d_txs a) (d_txs b).

(* signature over Data.MarshalBinary(): the term names the key and the whole Data *)
Inductive dsig := DSig (k : key) (d : data) | DSigJunk | DSigEmpty.
Record sdata := { sd_data : data; sd_sig : dsig; sd_signer : signer }.

Definition verify_data (p : pubkey) (d : data) (s : dsig) : bool :=
  match s, p with
  | DSig k d', Pub k' => (k =? k')%N && data_eqb d d'
  | _, _ => false
  end.

(* ---- block/manager.go:583 isUsingExpectedSingleSequencer ------------------------------------- *)
Definition is_expected_sequencer (g : genesis) (sh : sheader) : bool :=
  addr_eqb (h_proposer (sh_hdr sh)) (g_proposer g) && validate_basic sh.

(* ---- block/manager.go isValidSignedData (after the fix "bind the signer's address to the signer's
   public key": PubKey != nil and Signer.Address == KeyAddress(PubKey)).  [Txs == nil] is subsumed by the
   caller's [len(Txs) == 0] test (retriever.go:167). *)
Definition is_valid_signed_data (g : genesis) (sd : sdata) : bool :=
  addr_eqb (sg_addr (sd_signer sd)) (g_proposer g) &&
  match sg_pub (sd_signer sd) with
  | Some p => addr_eqb (sg_addr (sd_signer sd)) (key_address p) && verify_data p (sd_data sd) (sd_sig sd)
  | None => false
  end.

(* ---- DA blobs as the retriever classifies them (block/retriever.go:83-92) -------------------- *)
Inductive blob :=
| BEmpty                    (* len(bz) == 0: skipped, retriever.go:84 *)
| BJunk                     (* bytes for which neither path finds anything (failed unmarshal / empty decode) *)
| BHdrUndecodable           (* unmarshals as pb.SignedHeader but FromProto fails: "handled", retriever.go:121-125 *)
| BHdr (sh : sheader)       (* a decodable SignedHeader *)
| BData (sd : sdata).       (* a decodable SignedData (on which the header path returns false) *)

Record da_out := {
  o_handled : bool;                (* handlePotentialHeader's result *)
  o_hmark : option header;         (* headerCache.SetDAIncluded(hash) *)
  o_hevent : option sheader;       (* sent on headerInCh *)
  o_dmark : option commitment;     (* dataCache.SetDAIncluded(DACommitment) *)
  o_devent : option data;          (* sent on dataInCh *)
  o_panic : bool                   (* a panic in the retrieve goroutine: never, since the nil-Metadata fix (kept as an observable) *)
}.
Definition da_nothing (handled : bool) : da_out :=
  {| o_handled := handled; o_hmark := None; o_hevent := None; o_dmark := None; o_devent := None; o_panic := false |}.

Definition mem_header (h : header) (l : list header) : bool := existsb (header_eqb h) l.
Definition mem_commitment (c : commitment) (l : list commitment) : bool := existsb (commitment_eqb c) l.

(* handlePotentialHeader (retriever.go:112-157) then, if it returned false, handlePotentialData
   (retriever.go:160-191).  [hseen]/[dseen] = the caches' seen sets. *)
Definition da_admit (g : genesis) (hseen : list header) (dseen : list commitment) (b : blob) : da_out :=
  match b with
  | BEmpty | BJunk => da_nothing false
  | BHdrUndecodable => da_nothing true
  | BHdr sh =>
      if negb (validate_basic sh) then da_nothing false          (* :131-134, then the data path finds no txs *)
      else if negb (is_expected_sequencer g sh) then da_nothing true   (* :137-142 *)
      else {| o_handled := true; o_hmark := Some (sh_hdr sh);     (* :144 *)
              o_hevent := if mem_header (sh_hdr sh) hseen then None else Some sh;   (* :147-155 *)
              o_dmark := None; o_devent := None; o_panic := false |}
  | BData sd =>
      match d_txs (sd_data sd), d_meta (sd_data sd) with
      | [], _ => da_nothing false                                 (* :167-170 *)
      | _, None => da_nothing false                               (* :171-175, since the fix: no Metadata -> ignored *)
      | _, Some _ =>
        if negb (is_valid_signed_data g sd) then da_nothing false (* :178-181 *)
        else {| o_handled := false; o_hmark := None; o_hevent := None;
                o_dmark := Some (d_txs (sd_data sd));             (* :184 *)
                o_devent := if mem_commitment (d_txs (sd_data sd)) dseen then None else Some (sd_data sd);  (* :187-195 *)
                o_panic := false |}
      end
  end.

Definition admit_da_header (g : genesis) (sh : sheader) : bool :=
  match o_hmark (da_admit g [] [] (BHdr sh)) with Some _ => true | None => false end.
Definition admit_da_data (g : genesis) (sd : sdata) : bool :=
  match o_dmark (da_admit g [] [] (BData sd)) with Some _ => true | None => false end.

(* ---- P2P gossip: what go-header checks before a header enters the header store ---------------- *)
(* hdr.Validate() at p2p/subscriber.go:214 and p2p/session.go:340.  For *types.SignedHeader this is the
   method promoted from the embedded Header (types/header.go:125-136): only "proposer address non-empty".
   SignedHeader.ValidateBasic (signature!) is never called on this path. *)
Definition p2p_validate (sh : sheader) : bool := negb (addr_eqb (h_proposer (sh_hdr sh)) AddrEmpty).

Inductive verdict := VAccept | VSoft | VReject.
Definition verdict_eqb (a b : verdict) : bool :=
  match a, b with VAccept, VAccept | VSoft, VSoft | VReject, VReject => true | _, _ => false end.

Definition clock_drift : Z := 10000000000%Z.     (* go-header verify.go:158, 10 s in ns *)

Definition links_to (u t : header) : bool :=
  match h_last u with Some l => header_eqb l t | None => false end.

(* header.Verify(trusted, untrusted) (go-header verify.go:52-122) with SignedHeader.Verify
   (types/signed_header.go:50-65) and Header.Verify (types/header.go:111-122) as the user check. *)
Definition p2p_verify (now : Z) (t u : sheader) : verdict :=
  let th := sh_hdr t in let uh := sh_hdr u in
  if negb (h_chain uh =? h_chain th)%N then VReject
  else if (h_height uh <=? h_height th)%N then VReject
  else if (h_time uh <? h_time th)%Z then VReject
  else if (now + clock_drift <? h_time uh)%Z then VReject
  else
    let adj := (h_height uh =? h_height th + 1)%N in
    if negb (addr_eqb (h_proposer uh) (h_proposer th)) then (if adj then VReject else VSoft)
    else if adj then (if links_to uh th then VAccept else VReject)
    else VAccept.

(* the header store of a header-only (light) node or of a full node: gossip is appended iff it
   validates, verifies against the head and is adjacent (sync/sync_head.go:112 + sync_store.go:48-63).
   Non-adjacent accepted heads become sync targets fetched from peers; that exchange is not modelled. *)
Definition hstore_accepts (now : Z) (st : list sheader) (u : sheader) : bool :=
  match st with
  | [] => false
  | t :: _ => p2p_validate u && verdict_eqb (p2p_verify now t u) VAccept &&
              (h_height (sh_hdr u) =? h_height (sh_hdr t) + 1)%N
  end.
Definition light_step (now : Z) (st : list sheader) (u : sheader) : list sheader :=
  if hstore_accepts now st u then u :: st else st.
Definition light_run (now : Z) (st : list sheader) (l : list sheader) : list sheader :=
  fold_left (light_step now) l st.

(* data gossip: Data.Validate() = nil (types/data.go:120); header.Verify's generic checks; Data.Verify
   (types/data.go:106) compares trusted.Hash() with untrusted.LastDataHash whatever the heights are —
   that comparison is the boolean [linked], computed by the harness with the code's own hash. *)
Definition p2p_verify_data (now : Z) (t u : data) (linked : bool) : verdict :=
  match d_meta t, d_meta u with
  | Some tm, Some um =>
      if negb (m_chain um =? m_chain tm)%N then VReject
      else if (m_height um <=? m_height tm)%N then VReject
      else if (m_time um <? m_time tm)%Z then VReject
      else if (now + clock_drift <? m_time um)%Z then VReject
      else if linked then VAccept
      else if (m_height um =? m_height tm + 1)%N then VReject else VSoft
  | _, _ => VReject            (* nil Metadata: ChainID() panics, recovered by the subscriber: reject *)
  end.
Definition dstore_accepts (now : Z) (st : list data) (u : data) (linked : bool) : bool :=
  match st with
  | [] => false
  | t :: _ => verdict_eqb (p2p_verify_data now t u linked) VAccept &&
              match d_meta t, d_meta u with
              | Some tm, Some um => (m_height um =? m_height tm + 1)%N
              | _, _ => false
              end
  end.

(* ---- the syncing full node ------------------------------------------------------------------- *)
(* the execution layer is an input: a table (previous root, txs) -> new root, as observed *)
Definition exec_tbl := list (root * list tx * root).
Fixpoint exec_lookup (tb : exec_tbl) (r : root) (txs : list tx) : root :=
  match tb with
  | [] => 0%N
  | (r', txs', out) :: rest => if (r =? r')%N && commitment_eqb txs txs' then out else exec_lookup rest r txs
  end.

Record nstate := {
  n_height : N;                       (* store height *)
  n_state : cstate;                   (* lastState *)
  n_hcache : list (N * sheader);      (* headerCache items by height (first match wins) *)
  n_dcache : list (N * data);
  n_hseen : list header;              (* headerCache seen hashes *)
  n_dseen : list commitment;
  n_hda : list header;                (* DA-included marks *)
  n_dda : list commitment;
  n_applied : list (sheader * data);  (* blocks saved by trySyncNextBlock, newest first *)
  n_hstore : list sheader;            (* go-header header store, head first *)
  n_dstore : list data;
  n_halted : bool;                    (* SyncLoop returned with an error *)
  n_crashed : bool                    (* a goroutine panicked: the process is gone *)
}.

Definition node_init (g : genesis) (app0 : root) (t0 : Z) : nstate :=
  {| n_height := g_initial g - 1;
     n_state := {| s_chain := g_chain g; s_initial := g_initial g; s_height := g_initial g - 1;
                   s_time := t0; s_app := app0; s_da := 0 |};
     n_hcache := []; n_dcache := []; n_hseen := []; n_dseen := []; n_hda := []; n_dda := [];
     n_applied := []; n_hstore := []; n_dstore := []; n_halted := false; n_crashed := false |}.

Fixpoint cache_get {A} (l : list (N * A)) (h : N) : option A :=
  match l with
  | [] => None
  | (k, v) :: r => if (k =? h)%N then Some v else cache_get r h
  end.
Definition cache_del {A} (l : list (N * A)) (h : N) : list (N * A) :=
  filter (fun e => negb (fst e =? h)%N) l.

Definition set_sync (s : nstate) height st hc dc hs dsn ap halted : nstate :=
  {| n_height := height; n_state := st; n_hcache := hc; n_dcache := dc; n_hseen := hs; n_dseen := dsn;
     n_hda := n_hda s; n_dda := n_dda s; n_applied := ap; n_hstore := n_hstore s; n_dstore := n_dstore s;
     n_halted := halted; n_crashed := n_crashed s |}.

(* trySyncNextBlock (block/sync.go:124-189); fuel = number of cached headers + 1 *)
Fixpoint try_sync (tb : exec_tbl) (fuel : nat) (s : nstate) : nstate :=
  match fuel with
  | O => s
  | S f =>
    match cache_get (n_hcache s) (n_height s + 1), cache_get (n_dcache s) (n_height s + 1) with
    | Some h, Some d =>
        if validate (n_state s) h d then                                        (* :153 *)
          let r := exec_lookup tb (s_app (n_state s)) (d_txs d) in              (* :157 applyBlock *)
          let st' := next_state (n_state s) (sh_hdr h) r in
          let nh := (n_height s + 1)%N in
          try_sync tb f
            (set_sync s (h_height (sh_hdr h)) st'
               (cache_del (n_hcache s) nh) (cache_del (n_dcache s) nh)           (* :182-183 *)
               (sh_hdr h :: n_hseen s)                                          (* :187 *)
               (match h_data (sh_hdr h) with [] => n_dseen s | c => c :: n_dseen s end)   (* :184-186 *)
               ((h, d) :: n_applied s) false)
        else set_sync s (n_height s) (n_state s) (n_hcache s) (n_dcache s) (n_hseen s) (n_dseen s)
                      (n_applied s) true                                        (* :154 error -> SyncLoop returns *)
    | _, _ => s
    end
  end.

Definition sync_fuel (s : nstate) : nat := S (List.length (n_hcache s)).

(* SyncLoop, case headerEvent (block/sync.go:32-67) *)
Definition sync_header (tb : exec_tbl) (s : nstate) (sh : sheader) : nstate :=
  if n_halted s then s
  else
  let hh := h_height (sh_hdr sh) in
  if (hh <=? n_height s)%N || mem_header (sh_hdr sh) (n_hseen s) then s        (* :48 *)
  else
    let hc := (hh, sh) :: n_hcache s in                                         (* :52 *)
    let dc := match h_data (sh_hdr sh) with                                     (* :60 handleEmptyDataHash *)
              | [] => (hh, {| d_meta := Some {| m_chain := h_chain (sh_hdr sh); m_height := hh;
                                               m_time := h_time (sh_hdr sh) |}; d_txs := [] |}) :: n_dcache s
              | _ => n_dcache s
              end in
    let s1 := set_sync s (n_height s) (n_state s) hc dc (n_hseen s) (n_dseen s) (n_applied s) false in
    let s2 := try_sync tb (sync_fuel s1) s1 in
    if n_halted s2 then s2                                                      (* :62-65 *)
    else set_sync s2 (n_height s2) (n_state s2) (n_hcache s2) (n_dcache s2)
                  (sh_hdr sh :: n_hseen s2) (n_dseen s2) (n_applied s2) false.  (* :67 *)

(* SyncLoop, case dataEvent (block/sync.go:68-107) *)
Definition sync_data (tb : exec_tbl) (s : nstate) (d : data) : nstate :=
  if n_halted s then s
  else
  match d_txs d, d_meta d with
  | [], _ | _, None => s                                                        (* :70-72 *)
  | _, Some m =>
    if mem_commitment (d_txs d) (n_dseen s) then s                              (* :84 *)
    else if (m_height m <=? n_height s)%N then s                                (* :93 *)
    else
      let s1 := set_sync s (n_height s) (n_state s) (n_hcache s) ((m_height m, d) :: n_dcache s)
                         (n_hseen s) (n_dseen s) (n_applied s) false in         (* :97 *)
      let s2 := try_sync tb (sync_fuel s1) s1 in
      if n_halted s2 then s2
      else set_sync s2 (n_height s2) (n_state s2) (n_hcache s2) (n_dcache s2)
                    (n_hseen s2) (d_txs d :: n_dseen s2) (n_applied s2) false   (* :107 *)
  end.

Definition set_ingress (s : nstate) hda dda hst dst crashed : nstate :=
  {| n_height := n_height s; n_state := n_state s; n_hcache := n_hcache s; n_dcache := n_dcache s;
     n_hseen := n_hseen s; n_dseen := n_dseen s; n_hda := hda; n_dda := dda; n_applied := n_applied s;
     n_hstore := hst; n_dstore := dst; n_halted := n_halted s; n_crashed := crashed |}.

(* ---- the read of one DA height: types/da.go RetrieveWithHelpers (:101-186), success path ---------- *)
(* GetIDs lists the ids of the height (:110); they are requested in consecutive batches of batchSize ids
   (:156-159, one da.Get per batch) and the answers are appended in order (:174); the result carries the
   appended blobs (:184).  No ids at all = StatusNotFound (:145): nothing to process.  The error paths of
   GetIDs/Get are property C09's subject (Model/Retriever.v: the same chunking, over blob classes). *)
Definition batch_size : nat := 100.                                  (* types/da.go:156 *)
Fixpoint chunks_from {A} (fuel : nat) (l : list A) : list (list A) :=   (* :158-159; fuel = length *)
  match fuel with
  | O => []
  | S f => match l with
           | [] => []
           | _ => firstn batch_size l :: chunks_from f (skipn batch_size l)
           end
  end.
Definition chunks {A} (l : list A) : list (list A) := chunks_from (length l) l.
Definition fetched {A} (l : list A) : list A := concat (chunks l).   (* :174 blobs = append(blobs, batchBlobs...) *)
(* the da.Get calls of one height as the DA layer sees them: (index of the first id, number of ids) *)
Fixpoint get_calls_from {A} (off : N) (cs : list (list A)) : list (N * N) :=
  match cs with
  | [] => []
  | c :: r => (off, N.of_nat (length c)) :: get_calls_from (off + N.of_nat (length c)) r
  end.
Definition get_calls {A} (l : list A) : list (N * N) := get_calls_from 0 (chunks l).

(* traffic *)
Inductive item :=
| IInitH (sh : sheader)            (* header store initialised with the trusted first header (sync_service.go:121-129) *)
| IInitD (d : data)
| IDA (b : blob)                   (* one blob read by the RetrieveLoop *)
| IDAHeight (bl : list blob)       (* a whole DA height: every blob the DA layer holds there, in id order, read by one
                                      processNextDAHeaderAndData call through RetrieveWithHelpers *)
| IGossipH (sh : sheader)          (* header gossip / header served by a peer *)
| IGossipD (d : data) (linked : bool)
| IStoreRange (l : list sheader).  (* the header store advanced by SEVERAL headers (oldest first) between two passes of
                                      HeaderStoreRetrieveLoop (catch-up, range sync, start-up backlog, a slow tick): one pass
                                      reads the whole range.  The headers are whatever the store holds — block.Manager does
                                      not rely on how they got there (go-header's own checks are [hstore_accepts]) *)

(* HeaderStoreRetrieveLoop's body for one new header (block/store.go:46-54) *)
Definition forward_header (g : genesis) (tb : exec_tbl) (s : nstate) (sh : sheader) : nstate :=
  if is_expected_sequencer g sh then sync_header tb s sh else s.

(* HeaderStoreRetrieveLoop, one pass over a range (block/store.go:24-58): getHeadersFromHeaderStore(last+1, height), then
   EVERY header of the range goes through the test of :47 on its own, in height order *)
Definition forward_range (g : genesis) (tb : exec_tbl) (s : nstate) (l : list sheader) : nstate :=
  fold_left (forward_header g tb) l s.
(* the headers of a range that reach the sync loop *)
Definition forwarded (g : genesis) (l : list sheader) : list sheader := filter (is_expected_sequencer g) l.
(* a go-header store only grows by the next height (store/heightsub.go Pub): the range continues the store *)
Fixpoint consecutive (h : N) (l : list sheader) : bool :=
  match l with
  | [] => true
  | x :: r => (h_height (sh_hdr x) =? h)%N && consecutive (h + 1) r
  end.
Definition range_ok (st l : list sheader) : bool :=
  match st, l with
  | t :: _, _ :: _ => consecutive (h_height (sh_hdr t) + 1) l
  | _, _ => false
  end.
(* what can be seen of a pass from outside: how many headers of the range the sync loop took (headerCache.IsSeen) *)
Definition newly_seen (before after : list header) (l : list sheader) : N :=
  N.of_nat (length (filter (fun x => mem_header (sh_hdr x) after && negb (mem_header (sh_hdr x) before)) l)).

(* the body of processNextDAHeaderAndData's loop for one blob (block/retriever.go:83-92), followed by the
   syncer's handling of the events it sent.  Outcome code: 0 nothing, 1 handled-and-skipped (DA header),
   2 admitted (a DA-included mark was set), 3 panic *)
Definition da_blob_step (g : genesis) (tb : exec_tbl) (s : nstate) (b : blob) : nstate * N :=
  let o := da_admit g (n_hseen s) (n_dseen s) b in
  let s1 := set_ingress s (match o_hmark o with Some h => h :: n_hda s | None => n_hda s end)
                          (match o_dmark o with Some c => c :: n_dda s | None => n_dda s end)
                          (n_hstore s) (n_dstore s) (o_panic o) in
  let s2 := match o_hevent o with Some sh => sync_header tb s1 sh | None => s1 end in
  let s3 := match o_devent o with Some d => sync_data tb s2 d | None => s2 end in
  (s3, if o_panic o then 3%N
       else match o_hmark o, o_dmark o with
            | None, None => if o_handled o then 1%N else 0%N
            | _, _ => 2%N
            end).

(* retriever.go:83-92 over the blobs RetrieveWithHelpers returned.  A panic ends the goroutine. *)
Fixpoint da_blobs_run (g : genesis) (tb : exec_tbl) (s : nstate) (bl : list blob) : nstate :=
  match bl with
  | [] => s
  | b :: r => if n_crashed s then s else da_blobs_run g tb (fst (da_blob_step g tb s b)) r
  end.

(* what can be seen of a DA height from outside once it has been read: which of the blobs the DA layer holds
   there have their header hash / data commitment marked DA-included by this read (the caches record the DA
   height with the mark; a third-party copy of an admitted content shares its hash, hence its mark) *)
Definition blob_marked (hm : list header) (dm : list commitment) (b : blob) : bool :=
  match b with
  | BHdr sh => mem_header (sh_hdr sh) hm
  | BData sd => mem_commitment (d_txs (sd_data sd)) dm
  | _ => false
  end.
Definition new_marks {A} (before after : list A) : list A := firstn (length after - length before) after.
Definition marked_count (s s1 : nstate) (bl : list blob) : N :=
  N.of_nat (length (filter (blob_marked (new_marks (n_hda s) (n_hda s1)) (new_marks (n_dda s) (n_dda s1))) bl)).

(* one traffic item, followed by the ticks of the store loops.  Outcome code (what the harness observes):
   0 nothing, 1 handled-and-skipped (DA header), 2 admitted, 3 panic; for a whole DA height: 10 + the number
   of its blobs whose hash got a DA-included mark from this read; for a range of the header store: 20 + the number
   of its headers the sync loop took *)
Definition node_step (g : genesis) (now : Z) (tb : exec_tbl) (s : nstate) (i : item) : nstate * N :=
  if n_crashed s then (s, 0%N)
  else
  match i with
  | IInitH sh =>
      match n_hstore s with
      | [] => (forward_header g tb (set_ingress s (n_hda s) (n_dda s) [sh] (n_dstore s) false) sh, 2%N)
      | _ => (s, 0%N)
      end
  | IInitD d =>
      match n_dstore s with
      | [] => (sync_data tb (set_ingress s (n_hda s) (n_dda s) (n_hstore s) [d] false) d, 2%N)   (* store.go:84-99: no filter *)
      | _ => (s, 0%N)
      end
  | IDA b => da_blob_step g tb s b
  | IDAHeight bl =>                                                   (* retriever.go:73-93 *)
      let s1 := da_blobs_run g tb s (fetched bl) in (s1, (10 + marked_count s s1 bl)%N)
  | IGossipH u =>
      if hstore_accepts now (n_hstore s) u
      then (forward_header g tb (set_ingress s (n_hda s) (n_dda s) (u :: n_hstore s) (n_dstore s) false) u, 2%N)
      else (s, 0%N)
  | IGossipD u linked =>
      if dstore_accepts now (n_dstore s) u linked
      then (sync_data tb (set_ingress s (n_hda s) (n_dda s) (n_hstore s) (u :: n_dstore s) false) u, 2%N)
      else (s, 0%N)
  | IStoreRange l =>
      if range_ok (n_hstore s) l
      then let s1 := set_ingress s (n_hda s) (n_dda s) (rev l ++ n_hstore s) (n_dstore s) false in
           let s2 := forward_range g tb s1 l in
           (s2, (20 + newly_seen (n_hseen s) (n_hseen s2) l)%N)
      else (s, 0%N)
  end.

Fixpoint node_run (g : genesis) (now : Z) (tb : exec_tbl) (s : nstate) (l : list item) : nstate * list N :=
  match l with
  | [] => (s, [])
  | i :: r => let '(s1, o) := node_step g now tb s i in
              let '(s2, os) := node_run g now tb s1 r in (s2, o :: os)
  end.
Definition node_final g now tb s l : nstate := fst (node_run g now tb s l).

(* DAIncluderLoop (block/da_includer.go:14-50, manager.go:481-495): the DA-included height reached once
   the loop has been signalled after the last item = the longest prefix of applied blocks whose header
   (and data, unless empty) carry a DA-included mark. *)
Fixpoint applied_at (l : list (sheader * data)) (h : N) : option (sheader * data) :=
  match l with
  | [] => None
  | (sh, d) :: r => if (h_height (sh_hdr sh) =? h)%N then Some (sh, d) else applied_at r h
  end.
Definition block_da_included (s : nstate) (h : N) : bool :=
  match applied_at (n_applied s) h with
  | Some (sh, d) => mem_header (sh_hdr sh) (n_hda s) &&
                    (match d_txs d with [] => true | c => mem_commitment c (n_dda s) end)
  | None => false
  end.
Fixpoint da_included_from (s : nstate) (fuel : nat) (cur : N) : N :=
  match fuel with
  | O => cur
  | S f => if block_da_included s (cur + 1) then da_included_from s f (cur + 1) else cur
  end.
Definition da_included_height (g : genesis) (s : nstate) : N :=
  da_included_from s (List.length (n_applied s)) (g_initial g - 1).

(* ---- the vocabulary of the theorems ---------------------------------------------------------- *)
(* the item carries the proposer's signature over its own content *)
Definition signed_by (pk : key) (sh : sheader) : bool :=
  match sh_sig sh with Sig k p => (k =? pk)%N && header_eqb (sh_hdr sh) p | _ => false end.
Definition data_signed_by (pk : key) (sd : sdata) : bool :=
  match sd_sig sd with DSig k d => (k =? pk)%N && data_eqb (sd_data sd) d | _ => false end.

Definition signer_consistent (sg : signer) : bool :=      (* what ValidateBasic / isValidSignedData enforce since the fix *)
  match sg_pub sg with Some p => addr_eqb (sg_addr sg) (key_address p) | None => false end.
Definition names_proposer (pk : key) (a : addr) : bool := addr_eqb a (Addr pk).

(* an item built without the proposer's private key: it does not carry [Sig pk <its own content>].
   P2P data carries no signature at all, so every P2P data item qualifies. *)
Definition blob_adversarial (pk : key) (b : blob) : bool :=
  match b with
  | BHdr sh => negb (signed_by pk sh)
  | BData sd => negb (data_signed_by pk sd)
  | _ => true
  end.
Definition adversarial (pk : key) (i : item) : bool :=
  match i with
  | IInitH _ | IInitD _ => false
  | IDA b => blob_adversarial pk b
  | IDAHeight bl => forallb (blob_adversarial pk) bl      (* a DA height holding third-party material only *)
  | IGossipH u => negb (signed_by pk u)
  | IGossipD _ _ => true
  | IStoreRange l => negb (forallb (signed_by pk) l)
  end.

(* adversarial traffic on the DA layer: any blobs whatsoever that are not signed by the proposer *)
Definition da_adversarial (pk : key) (i : item) : bool :=
  match i with IDA _ | IDAHeight _ => adversarial pk i | _ => false end.

(* adversarial traffic that today's checks do stop: everything on the DA layer; header gossip that does not
   name the proposer; data gossip that does not hash-link to the data head *)
Definition harmless (pk : key) (i : item) : bool :=
  match i with
  | IInitH _ | IInitD _ => false
  | IDA _ | IDAHeight _ => adversarial pk i
  | IGossipH u => negb (names_proposer pk (h_proposer (sh_hdr u)))
  | IGossipD _ linked => negb linked
  | IStoreRange _ => false
  end.

(* genuine traffic initialises the header store with a header naming the proposer, and a range that honest peers
   serve holds headers naming the proposer *)
Definition init_ok (pk : key) (i : item) : bool :=
  match i with
  | IInitH sh => names_proposer pk (h_proposer (sh_hdr sh))
  | IStoreRange l => forallb (fun x => names_proposer pk (h_proposer (sh_hdr x))) l
  | _ => true
  end.

Definition hstore_inv (pk : key) (s : nstate) : Prop :=
  match n_hstore s with [] => True | t :: _ => names_proposer pk (h_proposer (sh_hdr t)) = true end.

Inductive interleave {A : Type} : list A -> list A -> list A -> Prop :=
| il_nil : interleave [] [] []
| il_l : forall x g a m, interleave g a m -> interleave (x :: g) a (x :: m)
| il_r : forall x g a m, interleave g a m -> interleave g (x :: a) (x :: m).

(* a DA height seen as the sequence of its blobs *)
Fixpoint expand (l : list item) : list item :=
  match l with
  | [] => []
  | IDAHeight bl :: r => map IDA bl ++ expand r
  | i :: r => i :: expand r
  end.
