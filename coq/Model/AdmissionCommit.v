(* Model/AdmissionCommit.v — the data commitment at the level of BYTES (property C03).
   Model/Types.v takes the commitment of a transaction list to be the list itself (of symbolic
   transaction ids): that is right only if the bytes the code hashes DETERMINE the list of
   transactions.  header.DataHash is the one thing that ties the unsigned block data of the P2P
   data topic to the proposer-signed header (types.Validate, types/data.go:57-74, called by
   execValidate, block/manager.go:820), so this is where "only what the proposer signed is
   accepted" rests for transaction data.  This file models what the method DACommitment of types.Data feeds to
   SHA-256 (types/hashing.go:30-45): leafPrefix ++ proto.Marshal(pb.Data{Txs}) — every transaction
   framed by its field tag and its length.  SHA-256 itself stays symbolic (the hash IS its
   preimage, DESIGN 2.4): two commitments are equal iff their preimages are.
   Definitions only. *)
From Coq Require Import NArith List Bool.
From Verif Require Import Model.Types.
Import ListNotations.
Local Open Scope N_scope.

Definition byte := N.
Definition btx := list byte.                       (* types.Tx: the bytes of one transaction *)

Fixpoint bytes_eqb (a b : list byte) : bool :=
  match a, b with
  | [], [] => true
  | x :: a', y :: b' => (x =? y) && bytes_eqb a' b'
  | _, _ => false
  end.
Fixpoint btxs_eqb (a b : list btx) : bool :=
  match a, b with
  | [], [] => true
  | x :: a', y :: b' => bytes_eqb x y && btxs_eqb a' b'
  | _, _ => false
  end.

(* protobuf base-128 varint, least significant group first, continuation bit 0x80
   (google.golang.org/protobuf/encoding/protowire AppendVarint).  [fuel] = groups still allowed after this one *)
Fixpoint varint_from (fuel : nat) (n : N) : list byte :=
  match fuel with
  | O => [n]
  | S f => if n <? 128 then [n] else (128 + n mod 128) :: varint_from f (n / 128)
  end.
Definition varint (n : N) : list byte := varint_from 9 n.     (* a uint64 takes at most 10 groups *)

(* one element of `repeated bytes txs = 2` (proto/evnode/v1/evnode.proto:95): tag (2<<3 | 2 = 0x12), length, bytes.
   An empty transaction is still an element: 0x12 0x00. *)
Definition tx_frame (t : btx) : list byte := 18 :: varint (N.of_nat (length t)) ++ t.

(* (&Data{Txs: txs}).MarshalBinary() (types/serialization.go:46, ToProto :248): Metadata nil = field 1 absent *)
Definition txs_encoding (l : list btx) : list byte := concat (map tx_frame l).

(* what DACommitment hashes: leafHashOpt writes leafPrefix = {0} and then the encoding (types/hashing.go:40-45) *)
Definition commit_preimage (l : list btx) : list byte := 0 :: txs_encoding l.

(* the commitment of the empty list: sha256({0}) = dataHashForEmptyTxs (block/manager.go) *)
Definition empty_preimage : list byte := [0].

(* two byte-level transaction lists have the same DACommitment *)
Definition same_commitment (a b : list btx) : bool := bytes_eqb (commit_preimage a) (commit_preimage b).

(* what a commitment over the bare concatenation of the transactions would hash (NOT what the code does; kept to
   state, in Props/C03.v, why the framing is what the property rests on) *)
Definition unframed_preimage (l : list btx) : list byte := 0 :: concat l.

(* symbolic transaction ids as bytes: the harness's pool of transactions *)
Definition pool := list (tx * btx).
Fixpoint pool_get (p : pool) (x : tx) : btx :=
  match p with
  | [] => []
  | (k, v) :: r => if (k =? x) then v else pool_get r x
  end.
Definition interp (p : pool) (l : list tx) : list btx := map (pool_get p) l.
