(* Model/Conc.v — C13 part A: the aggregator's activities that share the block store, as programs over ATOMIC
   actions (one durable write / one read of shared state / one call to a double), interleaved by an arbitrary
   schedule.  Self-contained (own small state).  Activities: block producer (publishBlockInternal, as repaired:
   final SaveBlockData, then updateState, then SetHeight), header submitter and data submitter
   (HeaderSubmissionLoop / DataSubmissionLoop -> submitToDA -> postSubmit -> pendingBase.setLastSubmittedHeight),
   DA-includer (DAIncluderLoop -> IsDAIncluded / SetRollkitHeightToDAHeight / incrementDAIncludedHeight).
   Everything between two actions of one activity is local computation.  Answers of the doubles (sequencer,
   execution layer, DA layer) are part of the schedule.
   The DATA watermark has TWO writers: the data submission loop (postSubmit) and block production
   (publishBlockInternal's pending-limit test -> PendingData.numWaitingData steps over data without
   transactions right above the watermark with setLastSubmittedDataHeight).  Both go through
   pendingBase.setLastSubmittedHeight, which since the repair d1559c9 holds pendingBase.setMu around
   load / compare-and-swap / SetMetadata: the mutex is part of the shared state ([mu]) and Lock / Unlock are
   actions.  The write discipline BEFORE that repair (no mutex) is kept below as [step_old] / [run_old]; it does
   not keep the invariant (Props/C13.v, C13_two_writers_unlocked_refuted).
   Not modelled: reaper, retriever, P2P pollers, sync loop; datastore errors; the VALUE of the pending limit
   (whether the limit test calls numWaitingData, and whether it then refuses to build a block, is the
   environment's choice: every limit and every outcome of the read-only comparisons is covered); block contents
   beyond (id, predecessor id, has-transactions). *)
From Coq Require Import NArith List Bool.
Import ListNotations.
Open Scope N_scope.

(* a block, symbolically: its hash is its id (chosen by the environment), it names its predecessor's hash *)
Record block := { b_id : N; b_prev : N; b_txs : bool; b_final : bool }.
Definition finalize (b : block) : block := {| b_id := b_id b; b_prev := b_prev b; b_txs := b_txs b; b_final := true |}.

Inductive kind := Hdr | Dat.
Definition kind_eqb (a b : kind) : bool := match a, b with Hdr, Hdr | Dat, Dat => true | _, _ => false end.
(* what a submitter of this kind sends for a block: every header; data only of blocks with transactions
   (submitter.go createSignedDataToSubmit skips empty data) *)
Definition wants (k : kind) (b : block) : bool := match k with Hdr => true | Dat => b_txs b end.

Record shared := {
  blk : N -> option block;
  ht : N;
  sth : N;
  wmv : kind -> N;
  wmp : kind -> N;
  mu : kind -> N;
  da : kind -> list (N * N);
  mk : kind -> list (N * N);
  di : N;
  pdi : N;
  fin : N
}.
(* blk: pkg/store blocks by height (/h, /d, /c, /i in one batch);  ht: store height (/t);  sth: height of the
   state record (/s);  wmv / wmp: volatile (pendingBase.lastHeight) and persisted (/m/last-submitted-*-height)
   submission watermarks;  mu: pendingBase.setMu of that watermark (pending_base.go, since d1559c9): 0 = free,
   1 = held by the submission loop of that kind, 2 = held by block production (numWaitingData; data only);
   da: what the DA layer has accepted, as (height, block id);  mk: the caches'
   DA-included marks (cache.SetDAIncluded), as (height, block id);  di: Manager.daIncludedHeight;
   pdi: /m/d;  fin: the height the execution layer was last told is final (SetFinal). *)


Definition set_blk (s : shared) (v : N -> option block) : shared :=
  {| blk := v; ht := ht s; sth := sth s; wmv := wmv s; wmp := wmp s; mu := mu s; da := da s; mk := mk s; di := di s; pdi := pdi s; fin := fin s |}.
Definition set_ht (s : shared) (v : N) : shared :=
  {| blk := blk s; ht := v; sth := sth s; wmv := wmv s; wmp := wmp s; mu := mu s; da := da s; mk := mk s; di := di s; pdi := pdi s; fin := fin s |}.
Definition set_sth (s : shared) (v : N) : shared :=
  {| blk := blk s; ht := ht s; sth := v; wmv := wmv s; wmp := wmp s; mu := mu s; da := da s; mk := mk s; di := di s; pdi := pdi s; fin := fin s |}.
Definition set_wmv (s : shared) (v : kind -> N) : shared :=
  {| blk := blk s; ht := ht s; sth := sth s; wmv := v; wmp := wmp s; mu := mu s; da := da s; mk := mk s; di := di s; pdi := pdi s; fin := fin s |}.
Definition set_wmp (s : shared) (v : kind -> N) : shared :=
  {| blk := blk s; ht := ht s; sth := sth s; wmv := wmv s; wmp := v; mu := mu s; da := da s; mk := mk s; di := di s; pdi := pdi s; fin := fin s |}.
Definition set_mu (s : shared) (v : kind -> N) : shared :=
  {| blk := blk s; ht := ht s; sth := sth s; wmv := wmv s; wmp := wmp s; mu := v; da := da s; mk := mk s; di := di s; pdi := pdi s; fin := fin s |}.
Definition set_da (s : shared) (v : kind -> list (N * N)) : shared :=
  {| blk := blk s; ht := ht s; sth := sth s; wmv := wmv s; wmp := wmp s; mu := mu s; da := v; mk := mk s; di := di s; pdi := pdi s; fin := fin s |}.
Definition set_mk (s : shared) (v : kind -> list (N * N)) : shared :=
  {| blk := blk s; ht := ht s; sth := sth s; wmv := wmv s; wmp := wmp s; mu := mu s; da := da s; mk := v; di := di s; pdi := pdi s; fin := fin s |}.
Definition set_di (s : shared) (v : N) : shared :=
  {| blk := blk s; ht := ht s; sth := sth s; wmv := wmv s; wmp := wmp s; mu := mu s; da := da s; mk := mk s; di := v; pdi := pdi s; fin := fin s |}.
Definition set_pdi (s : shared) (v : N) : shared :=
  {| blk := blk s; ht := ht s; sth := sth s; wmv := wmv s; wmp := wmp s; mu := mu s; da := da s; mk := mk s; di := di s; pdi := v; fin := fin s |}.
Definition set_fin (s : shared) (v : N) : shared :=
  {| blk := blk s; ht := ht s; sth := sth s; wmv := wmv s; wmp := wmp s; mu := mu s; da := da s; mk := mk s; di := di s; pdi := pdi s; fin := v |}.

Definition upd (f : N -> option block) (h : N) (v : option block) : N -> option block :=
  fun x => if N.eqb x h then v else f x.
Definition updk {A} (f : kind -> A) (k : kind) (v : A) : kind -> A :=
  fun x => if kind_eqb x k then v else f x.
Definition id_at (f : N -> option block) (h : N) : N := match f h with Some b => b_id b | None => 0 end.

(* heights w+1 .. n *)
Definition rangeN (w n : N) : list N := map (fun i => w + 1 + N.of_nat i) (seq 0 (N.to_nat (n - w))).
(* the blobs of kind k for the heights (w, n], taken from a snapshot of the store *)
Definition posted (k : kind) (snap : N -> option block) (w n : N) : list (N * N) :=
  flat_map (fun h => match snap h with
                     | Some b => if wants k b then [(h, b_id b)] else []
                     | None => [] end) (rangeN w n).
Definition pair_eqb (a b : N * N) : bool := N.eqb (fst a) (fst b) && N.eqb (snd a) (snd b).
Definition mem (x : N * N) (l : list (N * N)) : bool := existsb (pair_eqb x) l.

(* ---- program counters (local state of each activity) --------------------------------------------------- *)
(* producer: manager.go publishBlockInternal.  PL*: the pending-limit test at its head
   (`MaxPendingHeadersAndData != 0 && (numPendingHeaders() >= limit || (numPendingData() >= limit &&
   numWaitingData(ctx) >= limit))`) and pending_data.go numWaitingData / pending_base.go getPending,
   setLastSubmittedHeight: the SECOND writer of the data watermark *)
Inductive ppc :=
| PL0                                  (* before the limit test (read-only comparisons; their outcome is the environment's) *)
| PL1                                  (* numWaitingData called; next: read watermark and /t (getPending: lastHeight.Load, store.Height) *)
| PL2 (w t : N)                        (* next: read blocks w+1..t (fetchData) *)
| PL3 (w t : N) (snap : N -> option block) (i : N)
                                       (* loop of numWaitingData: waiting = 0 and data i has no transactions; next: setMu.Lock *)
| PL4 (w t : N) (snap : N -> option block) (i : N)   (* mutex held; next: lastHeight.Load + CompareAndSwap *)
| PL5 (w t : N) (snap : N -> option block) (i : N)   (* swapped; next: put /m/last-submitted-data-height *)
| PL6 (w t : N) (snap : N -> option block) (i : N)   (* next: setMu.Unlock (deferred) *)
| PL7                                  (* numWaitingData returned; next: the comparison with the limit (refuse / go on) *)
| P0                                   (* before `height, err := m.store.Height(ctx)` *)
| P1 (h : N)                           (* height read; next: read last block (GetSignature / GetBlockData(height)) *)
| P2 (h prev : N)                      (* next: read pending block GetBlockData(height+1) *)
| P3 (h prev : N)                      (* no pending block; next: (seq.next) retrieveBatch *)
| P3b (h prev : N) (txs : bool)        (* next: put /m/l (LastBatchDataKey) *)
| P4 (h prev : N) (txs : bool)         (* next: batch early (SaveBlockData with empty signature) *)
| P5 (h : N) (b : block)               (* next: (exec) applyBlock *)
| P6 (h : N) (b : block)               (* next: batch final (SaveBlockData with the signature) *)
| P7 (h : N)                           (* next: put /s (updateState) *)
| P8 (h : N)                           (* next: put /t (SetHeight) *)
| P9.                                  (* next: bcast (WriteToStoreAndBroadcast x2, g.Wait) *)

(* submitter of kind k: submitter.go *SubmissionLoop / submitToDA / postSubmit, pending_base.go *)
Inductive spc :=
| S0                                                        (* next: read watermark and /t (isEmpty / getPending) *)
| S1 (w t : N)                                              (* next: read blocks w+1..t *)
| S2 (w t : N) (snap : N -> option block)                   (* next: (da.submit) *)
| S3 (w t : N) (snap : N -> option block) (n : N)           (* accepted up to height n; next: set marks *)
| SL (w t : N) (snap : N -> option block) (n : N)           (* setLastSubmittedHeight(n); next: setMu.Lock *)
| S4 (w t : N) (snap : N -> option block) (n : N)           (* mutex held; next: lastHeight.Load + CompareAndSwap *)
| S5 (w t : N) (snap : N -> option block) (n : N)           (* swapped; next: put /m/last-submitted-*-height *)
| S6 (w t : N) (snap : N -> option block) (n : N).          (* next: setMu.Unlock (deferred) *)

(* includer: da_includer.go *)
Inductive ipc :=
| I0                                   (* next: read d (GetDAIncludedHeight) *)
| I1 (c : N)                           (* next: read /t (IsDAIncluded: store.Height) *)
| I2 (c : N)                           (* next: read block c+1 *)
| I3 (c : N) (b : block)               (* next: read marks (headerCache / dataCache IsDAIncluded) *)
| I4 (c : N) (b : block)               (* next: put rhb/<c+1>/h *)
| I5 (c : N) (b : block)               (* next: put rhb/<c+1>/d *)
| I6 (c : N) (b : block)               (* next: read d again, (exec.final) SetFinal(d+1) *)
| I7 (c : N) (b : block) (cur : N)     (* next: put /m/d *)
| I8 (c : N) (b : block) (cur : N).    (* next: cas d *)

Record state := { sh : shared; pp : ppc; ps : kind -> spc; pi : ipc }.

(* the environment's part of an action: the double's answer when the action is a call to a double *)
Record env := { e_ok : bool; e_txs : bool; e_n : N }.

Inductive act := AProd | ASub (k : kind) | AIncl.

(* ---- one atomic action of each activity ---------------------------------------------------------------- *)
(* numWaitingData's loop arriving at height i with waiting = 0: data without transactions is stepped over
   (setLastSubmittedDataHeight(i)); the first data with transactions makes waiting > 0 and nothing is written any
   more; a height that cannot be fetched ends the list (getPending returns what it has) *)
Definition l_next (w t : N) (snap : N -> option block) (i : N) : ppc :=
  if i <=? t then
    match snap i with
    | Some b => if b_txs b then PL7 else PL3 w t snap i
    | None => PL7
    end
  else PL7.

Definition step_p (s : shared) (p : ppc) (e : env) : shared * ppc :=
  match p with
  | PL0 => if e_ok e then (s, PL1) else (s, P0)      (* limit configured and both raw counts at the limit / not *)
  | PL1 => if wmv s Dat <? ht s then (s, PL2 (wmv s Dat) (ht s)) else (s, PL7)
  | PL2 w t => (s, l_next w t (blk s) (w + 1))
  | PL3 w t snap i => if mu s Dat =? 0 then (set_mu s (updk (mu s) Dat 2), PL4 w t snap i) else (s, PL3 w t snap i)
  | PL4 w t snap i => if wmv s Dat <? i then (set_wmv s (updk (wmv s) Dat i), PL5 w t snap i) else (s, PL6 w t snap i)
  | PL5 w t snap i => (set_wmp s (updk (wmp s) Dat i), PL6 w t snap i)
  | PL6 w t snap i => (set_mu s (updk (mu s) Dat 0), l_next w t snap (i + 1))
  | PL7 => if e_ok e then (s, P0) else (s, PL0)      (* waiting < limit: go on / refuse to create a block *)
  | P0 => (s, P1 (ht s))
  | P1 h => (s, P2 h (id_at (blk s) h))
  | P2 h prev => match blk s (h + 1) with Some b => (s, P5 h b) | None => (s, P3 h prev) end
  | P3 h prev => if e_ok e then (s, P3b h prev (e_txs e)) else (s, PL0)
  | P3b h prev txs => (s, P4 h prev txs)
  | P4 h prev txs =>
      let b := {| b_id := e_n e; b_prev := prev; b_txs := txs; b_final := false |} in
      (set_blk s (upd (blk s) (h + 1) (Some b)), P5 h b)
  | P5 h b => if e_ok e then (s, P6 h b) else (s, PL0)
  | P6 h b => (set_blk s (upd (blk s) (h + 1) (Some (finalize b))), P7 h)
  | P7 h => (set_sth s (h + 1), P8 h)
  | P8 h => (set_ht s (h + 1), P9)
  | P9 => (s, PL0)
  end.

Definition s_next (t : N) (snap : N -> option block) (n : N) : spc := if n <? t then S2 n t snap else S0.

Definition step_s (k : kind) (s : shared) (p : spc) (e : env) : shared * spc :=
  match p with
  | S0 => if wmv s k <? ht s then (s, S1 (wmv s k) (ht s)) else (s, S0)
  | S1 w t => (s, S2 w t (blk s))
  | S2 w t snap =>
      if e_ok e then
        if (w <? e_n e) && (e_n e <=? t)
        then (set_da s (updk (da s) k (posted k snap w (e_n e) ++ da s k)), S3 w t snap (e_n e))
        else (s, S2 w t snap)                 (* nothing accepted: retry after the back-off *)
      else (s, S0)                            (* attempts exhausted / context done *)
  | S3 w t snap n => (set_mk s (updk (mk s) k (posted k snap w n ++ mk s k)), SL w t snap n)
  | SL w t snap n => if mu s k =? 0 then (set_mu s (updk (mu s) k 1), S4 w t snap n) else (s, SL w t snap n)
  | S4 w t snap n => if wmv s k <? n then (set_wmv s (updk (wmv s) k n), S5 w t snap n) else (s, S6 w t snap n)
  | S5 w t snap n => (set_wmp s (updk (wmp s) k n), S6 w t snap n)
  | S6 w t snap n => (set_mu s (updk (mu s) k 0), s_next t snap n)
  end.

Definition step_i (s : shared) (p : ipc) (e : env) : shared * ipc :=
  match p with
  | I0 => (s, I1 (di s))
  | I1 c => if c + 1 <=? ht s then (s, I2 c) else (s, I0)
  | I2 c => match blk s (c + 1) with Some b => (s, I3 c b) | None => (s, I0) end
  | I3 c b => if mem (c + 1, b_id b) (mk s Hdr) && (negb (b_txs b) || mem (c + 1, b_id b) (mk s Dat))
              then (s, I4 c b) else (s, I0)
  | I4 c b => (s, I5 c b)
  | I5 c b => (s, I6 c b)
  | I6 c b => if e_ok e then (set_fin s (di s + 1), I7 c b (di s)) else (s, I0)
  | I7 c b cur => (set_pdi s (cur + 1), I8 c b cur)
  | I8 c b cur => if di s =? cur then (set_di s (cur + 1), I1 (c + 1)) else (s, I0)
  end.

Definition step (st : state) (ae : act * env) : state :=
  let (a, e) := ae in
  match a with
  | AProd => let (s', p') := step_p (sh st) (pp st) e in {| sh := s'; pp := p'; ps := ps st; pi := pi st |}
  | ASub k => let (s', p') := step_s k (sh st) (ps st k) e in {| sh := s'; pp := pp st; ps := updk (ps st) k p'; pi := pi st |}
  | AIncl => let (s', p') := step_i (sh st) (pi st) e in {| sh := s'; pp := pp st; ps := ps st; pi := p' |}
  end.

Definition run (st : state) (sched : list (act * env)) : state := fold_left step sched st.

(* a fresh aggregator (initial height 1): nothing stored, every counter 0 *)
Definition init_shared : shared :=
  {| blk := fun _ => None; ht := 0; sth := 0; wmv := fun _ => 0; wmp := fun _ => 0; mu := fun _ => 0;
     da := fun _ => []; mk := fun _ => []; di := 0; pdi := 0; fin := 0 |}.
Definition init : state := {| sh := init_shared; pp := PL0; ps := fun _ => S0; pi := I0 |}.

(* ---- the joint invariant, as a decidable check on a bounded prefix (used by Examples and by Check) ------- *)
Definition on_da (s : shared) (k : kind) (h : N) : bool :=
  match blk s h with Some b => negb (wants k b) || mem (h, b_id b) (da s k) | None => false end.

(* ---- the joint invariant ------------------------------------------------------------------------------- *)
Record G (s : shared) : Prop := {
  (* C01: the committed chain 1..ht is present, final (signed) and hash-linked *)
  g_chain : forall h, 1 <= h <= ht s -> exists b, blk s h = Some b /\ b_final b = true /\ b_prev b = id_at (blk s) (h - 1);
  (* an early-saved block above the height already names the top block; nothing is stored further up or at 0 *)
  g_early : forall b, blk s (ht s + 1) = Some b -> b_prev b = id_at (blk s) (ht s);
  g_above : forall h, ht s + 1 < h -> blk s h = None;
  g_zero  : blk s 0 = None;
  (* C06: watermarks never exceed the height, the durable one never exceeds the volatile one, and everything
     at or below a watermark that its submitter sends is on the DA layer *)
  g_wm_le : forall k, wmv s k <= ht s /\ wmp s k <= wmv s k;
  (* ... and while nobody is inside setLastSubmittedHeight (mutex free) the durable one IS the volatile one *)
  g_wm_eq : forall k, mu s k = 0 -> wmp s k = wmv s k;
  g_wm_da : forall k h b, 1 <= h <= wmv s k -> blk s h = Some b -> wants k b = true -> In (h, b_id b) (da s k);
  (* C07: a DA-included mark is backed by the DA layer; the DA-included height never exceeds the height and
     every block at or below it is entirely on the DA layer; durable value and finalized height bracket it *)
  g_mk_da : forall k x, In x (mk s k) -> In x (da s k);
  g_di_le : di s <= ht s;
  g_di_da : forall h b, 1 <= h <= di s -> blk s h = Some b ->
            In (h, b_id b) (da s Hdr) /\ (b_txs b = true -> In (h, b_id b) (da s Dat));
  g_di_dur : di s <= pdi s /\ pdi s <= fin s /\ fin s <= di s + 1
}.

(* what each activity knows at each of its program points *)
Definition snap_ok (s : shared) (snap : N -> option block) (t : N) : Prop := forall h, h <= t -> snap h = blk s h.

(* numWaitingData between its reads and its return: it read the watermark as w (the watermark can only have grown
   since: the submitter is the other writer), the height as t, the blocks w+1..t as snap, and every data item in
   (w, i] has no transactions *)
Definition lim_ok (s : shared) (w t : N) (snap : N -> option block) (i : N) : Prop :=
  w <= wmv s Dat /\ w < i /\ i <= t /\ t <= ht s /\ snap_ok s snap t /\
  (forall h b, w < h <= i -> snap h = Some b -> b_txs b = false).

Definition Pcl (s : shared) (p : ppc) : Prop :=
  match p with
  | PL0 | PL1 | PL7 | P0 | P9 => sth s = ht s
  | PL2 w t => sth s = ht s /\ w <= wmv s Dat /\ w < t /\ t <= ht s
  | PL3 w t snap i => sth s = ht s /\ lim_ok s w t snap i
  | PL4 w t snap i | PL6 w t snap i => sth s = ht s /\ mu s Dat = 2 /\ wmp s Dat = wmv s Dat /\ lim_ok s w t snap i
  | PL5 w t snap i => sth s = ht s /\ mu s Dat = 2 /\ i = wmv s Dat /\ lim_ok s w t snap i
  | P1 h => sth s = ht s /\ h = ht s
  | P2 h prev => sth s = ht s /\ h = ht s /\ prev = id_at (blk s) h
  | P3 h prev | P3b h prev _ | P4 h prev _ => sth s = ht s /\ h = ht s /\ prev = id_at (blk s) h /\ blk s (h + 1) = None
  | P5 h b | P6 h b => sth s = ht s /\ h = ht s /\ blk s (h + 1) = Some b
  | P7 h => sth s = ht s /\ h = ht s /\ exists b, blk s (h + 1) = Some b /\ b_final b = true
  | P8 h => sth s = ht s + 1 /\ h = ht s /\ exists b, blk s (h + 1) = Some b /\ b_final b = true
  end.

(* the submitter read the watermark as w; for the data watermark block production may have raised it since *)
Definition Scl (k : kind) (s : shared) (p : spc) : Prop :=
  match p with
  | S0 => True
  | S1 w t => w <= wmv s k /\ w < t /\ t <= ht s
  | S2 w t snap => w <= wmv s k /\ w < t /\ t <= ht s /\ snap_ok s snap t
  | S3 w t snap n | SL w t snap n =>
      w <= wmv s k /\ w < n /\ n <= t /\ t <= ht s /\ snap_ok s snap t /\ (forall x, In x (posted k snap w n) -> In x (da s k))
  | S4 w t snap n =>
      mu s k = 1 /\ wmp s k = wmv s k /\
      w <= wmv s k /\ w < n /\ n <= t /\ t <= ht s /\ snap_ok s snap t /\ (forall x, In x (posted k snap w n) -> In x (da s k))
  | S5 w t snap n => mu s k = 1 /\ n = wmv s k /\ n <= t /\ t <= ht s /\ snap_ok s snap t
  | S6 w t snap n => mu s k = 1 /\ wmp s k = wmv s k /\ n <= wmv s k /\ n <= t /\ t <= ht s /\ snap_ok s snap t
  end.

Definition marked (s : shared) (c : N) (b : block) : Prop :=
  In (c + 1, b_id b) (mk s Hdr) /\ (b_txs b = true -> In (c + 1, b_id b) (mk s Dat)).

Definition Icl (s : shared) (p : ipc) : Prop :=
  match p with
  | I0 => pdi s = di s
  | I1 c => pdi s = di s /\ c = di s
  | I2 c => pdi s = di s /\ c = di s /\ c + 1 <= ht s
  | I3 c b => pdi s = di s /\ c = di s /\ c + 1 <= ht s /\ blk s (c + 1) = Some b
  | I4 c b | I5 c b | I6 c b => pdi s = di s /\ c = di s /\ c + 1 <= ht s /\ blk s (c + 1) = Some b /\ marked s c b
  | I7 c b cur => pdi s = di s /\ fin s = di s + 1 /\ cur = di s /\ c = di s /\ c + 1 <= ht s /\ blk s (c + 1) = Some b /\ marked s c b
  | I8 c b cur => pdi s = di s + 1 /\ fin s = di s + 1 /\ cur = di s /\ c = di s /\ c + 1 <= ht s /\ blk s (c + 1) = Some b /\ marked s c b
  end.

Definition J (st : state) : Prop :=
  G (sh st) /\ Pcl (sh st) (pp st) /\ (forall k, Scl k (sh st) (ps st k)) /\ Icl (sh st) (pi st).

(* what never goes back, and what is never rewritten, across one action *)
Definition mono (a b : shared) : Prop :=
  ht a <= ht b /\ (forall k, wmv a k <= wmv b k) /\ (forall k, wmp a k <= wmp b k) /\ di a <= di b /\
  (forall h, 1 <= h <= ht a -> blk b h = blk a h) /\
  (forall k x, In x (da a k) -> In x (da b k)).

(* ---- the observable part of G as a boolean check (evaluated on model states in the Examples and, by
   Check/ConcCheck.v, on the state of the real halted aggregator) ------------------------------------------ *)
(* durable watermark against the volatile one: equal while the mutex is free, never above it otherwise *)
Definition wm_dur (s : shared) (k : kind) : bool :=
  if mu s k =? 0 then wmp s k =? wmv s k else wmp s k <=? wmv s k.

Definition gcheck (s : shared) : list N :=
  (if sth s =? ht s then [] else [1]) ++
  (if (wmv s Hdr <=? ht s) && wm_dur s Hdr then [] else [2]) ++
  (if (wmv s Dat <=? ht s) && wm_dur s Dat then [] else [3]) ++
  (if di s <=? ht s then [] else [4]) ++
  (if (di s <=? pdi s) && (pdi s <=? fin s) && (fin s <=? di s + 1) then [] else [5]) ++
  (if forallb (on_da s Hdr) (rangeN 0 (wmv s Hdr)) then [] else [6]) ++
  (if forallb (on_da s Dat) (rangeN 0 (wmv s Dat)) then [] else [7]) ++
  (if forallb (fun h => on_da s Hdr h && on_da s Dat h) (rangeN 0 (di s)) then [] else [8]) ++
  (if forallb (fun h => match blk s h with
                        | Some b => b_final b && (b_prev b =? id_at (blk s) (h - 1))
                        | None => false end) (rangeN 0 (ht s)) then [] else [9]).

(* ---- the write discipline BEFORE the repair d1559c9: setLastSubmittedHeight without setMu -----------------
   Same programs, same actions, except that Lock and Unlock do nothing (PL3 / PL6 of block production, SL / S6 of
   the submitters): compare-and-swap in memory, THEN the store write, unordered between the two writers of the
   data watermark.  (Load and CompareAndSwap stay one action: an interleaving of this model is an interleaving of
   the old code in which nothing intervenes between the two.)  Kept only to show what the mutex is needed for:
   Props/C13.v C13_two_writers_unlocked_refuted. *)
Definition step_p_old (s : shared) (p : ppc) (e : env) : shared * ppc :=
  match p with
  | PL3 w t snap i => (s, PL4 w t snap i)
  | PL6 w t snap i => (s, l_next w t snap (i + 1))
  | _ => step_p s p e
  end.
Definition step_s_old (k : kind) (s : shared) (p : spc) (e : env) : shared * spc :=
  match p with
  | SL w t snap n => (s, S4 w t snap n)
  | S6 w t snap n => (s, s_next t snap n)
  | _ => step_s k s p e
  end.
Definition step_old (st : state) (ae : act * env) : state :=
  let (a, e) := ae in
  match a with
  | AProd => let (s', p') := step_p_old (sh st) (pp st) e in {| sh := s'; pp := p'; ps := ps st; pi := pi st |}
  | ASub k => let (s', p') := step_s_old k (sh st) (ps st k) e in {| sh := s'; pp := pp st; ps := updk (ps st) k p'; pi := pi st |}
  | AIncl => step st ae
  end.
Definition run_old (st : state) (sched : list (act * env)) : state := fold_left step_old sched st.

(* between Lock and Unlock of the data watermark's mutex *)
Definition holds_p (p : ppc) : bool := match p with PL4 _ _ _ _ | PL5 _ _ _ _ | PL6 _ _ _ _ => true | _ => false end.
Definition holds_s (p : spc) : bool := match p with S4 _ _ _ _ | S5 _ _ _ _ | S6 _ _ _ _ => true | _ => false end.
