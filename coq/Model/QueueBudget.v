(* Model/QueueBudget.v — the byte budget of a hand-out request (C10).
   coresequencer.GetNextBatchRequest carries MaxBytes ("the maximum number of bytes the caller can take"); the based
   sequencer honours it, the single sequencer's GetNextBatch (sequencers/single/sequencer.go:114-128) reads req.Id and
   nothing else: the oldest pending batch is handed out WHOLE whatever budget the caller states, and the queue (memory
   and records) changes exactly as without a budget.  This layer puts the budget into the histories, so that the
   statement "for all histories" of Props/C10.v ranges over it and the harness's runs with budgets are compared
   against the model.  Definitions only; proofs in Proofs/QueueBudgetProofs.v. *)
From Coq Require Import NArith List Bool.
From Verif Require Import Model.Queue.
Import ListNotations.
Open Scope N_scope.

(* operations as a caller issues them: a hand-out request names its byte budget (0 = none) *)
Inductive bop := BSubmit (ok : bool) (s : usub) | BNext (ok : bool) (max_bytes : N).

(* GetNextBatch, sequencer.go:114-128: MaxBytes is not read *)
Definition b_uop (o : bop) : uop :=
  match o with BSubmit ok s => USubmit ok s | BNext ok _ => UNext ok end.

Inductive bitem :=
| BOp (o : bop)                            (* the operation runs to completion, under the current process's bound *)
| BStart (max : N)                         (* restart: a new process with queue bound [max] *)
| BCrash (o : bop) (n : nat) (max : N).    (* the process dies inside o after n of its writes; a new one with bound [max] *)

Definition b_vitem (it : bitem) : vitem :=
  match it with
  | BOp o => VOp (b_uop o)
  | BStart m => VStart m
  | BCrash o n m => VCrash (b_uop o) n m
  end.

Definition b_run (st : vstate) (h : list bitem) : vstate * list (option out) := v_run st (map b_vitem h).
Definition b_final (max0 : N) (h : list bitem) : vstate := fst (b_run (v_st0 max0) h).
Definition b_outputs (max0 : N) (h : list bitem) : list (option out) := snd (b_run (v_st0 max0) h).
Definition b_wlog (max0 : N) (h : list bitem) : list wr := v_wlog (v_st0 max0) (map b_vitem h).

(* the same history with every budget replaced by "none" *)
Definition no_budget (it : bitem) : bitem :=
  match it with
  | BOp (BNext ok _) => BOp (BNext ok 0)
  | BCrash (BNext ok _) n m => BCrash (BNext ok 0) n m
  | _ => it
  end.

(* "the queue is a durable exactly-once FIFO of WHOLE batches on history h", budgets and bounds being what they may:
   results, in-memory queue and records are those of the plain FIFO of batch contents (Model/Queue.v sv_run), in which
   a hand-out is the oldest accepted batch, entire *)
Definition b_fifo (max0 : N) (h : list bitem) : Prop :=
  b_outputs max0 h = sv_outputs max0 (map b_vitem h) /\
  map snd (mem (core (vr (b_final max0 h)))) = sv_final max0 (map b_vitem h) /\
  map snd (db (core (vr (b_final max0 h)))) = sv_final max0 (map b_vitem h).
