(* Model/Store.v — pkg/store/store.go, pkg/store/keys.go, pkg/store/kv.go (DefaultStore).
   Concrete machine: the key/value image with the code's key builders; every operation
   returns the ordered list of atomic writes it performs and its result.
   Histories: operations, reopen, a crash inside an operation, a transient write fault inside an operation.
   Abstract machine: a height-indexed map (the specification of C14).
   Definitions only; proofs are in Proofs/StoreProofs.v. *)
From Coq Require Import String Ascii NArith List Bool.
From Verif Require Import Base.KV Base.Keys.
Import ListNotations.
Open Scope string_scope.

(* ---- values as the harness projects them ------------------------------------------- *)
(* A signed header is identified by the harness's pool index [hid]; [hheight] and [hhash]
   are what header.Height() and header.Hash() return for it (the hash is the raw bytes). *)
Record hdr := { hid : N; hheight : N; hhash : string }.

Inductive sval :=
| VHeader (h : hdr)      (* SignedHeader.MarshalBinary *)
| VData (d : N)          (* Data.MarshalBinary, pool index *)
| VSig (s : N)           (* raw signature bytes, pool index *)
| VHeight (n : N)        (* 8-byte little-endian *)
| VState (st : N)        (* proto.Marshal(State), pool index *)
| VBytes (b : N).        (* metadata value, pool index *)

(* ---- key builders: pkg/store/keys.go ------------------------------------------------ *)
Definition header_key (n : N) : string := "/h/" ++ dec n.      (* getHeaderKey *)
Definition data_key (n : N) : string := "/d/" ++ dec n.        (* getDataKey *)
Definition sig_key (n : N) : string := "/c/" ++ dec n.         (* getSignatureKey *)
Definition index_key (h : string) : string := "/i/" ++ hex h.  (* getIndexKey: hash.String() is uppercase hex (go-header Hash) *)
Definition state_key : string := "/s".                         (* ds.NewKey("s") *)
Definition height_key : string := "/t".                        (* getHeightKey *)
Definition meta_key (k : string) : string := "/m/" ++ k.       (* getMetaKey; path.Clean is the identity on clean keys *)

(* the metadata keys for which path.Clean("/m/"+k) = "/m/"+k: non-empty, no empty / "." / ".."
   segment, no trailing slash.  Every key the node uses satisfies it (Example in Props/C14.v). *)
Fixpoint segs_ok (cur : string) (s : string) : bool :=
  match s with
  | EmptyString => negb (String.eqb cur "" || String.eqb cur "." || String.eqb cur "..")
  | String c r =>
      if Ascii.eqb c "/"%char
      then negb (String.eqb cur "" || String.eqb cur "." || String.eqb cur "..") && segs_ok "" r
      else segs_ok (cur ++ String c "") r
  end.
Definition clean_meta (k : string) : bool := segs_ok "" k.

(* ---- key normalisation ---------------------------------------------------------------------
   Every key passes through path.Clean twice before it reaches the database: pkg/store/kv.go GenerateKey
   (`key := "/" + strings.Join(fields, "/"); return path.Clean(key)`) and go-datastore key.go ds.NewKey
   (Key.Clean: `path.Clean(k.string)` on a rooted key).  path.Clean on a rooted path: the path is cut at every
   '/', empty and "." elements vanish, ".." removes the element before it (and vanishes at the root), what is left
   is joined with single slashes (the root alone is "/").  It is idempotent, so once is what twice is.
   [key_clean] is that function; the builders above are what it returns for the texts the code hands it - for
   the hash index this is a THEOREM (Proofs/StoreProofs.v index_key_normal: the hex text of a hash is ONE clean
   element, so normalisation changes nothing and identifies no two hashes), and the key pairs of the cases files
   (harness/c14 rawKeyPairs, evaluated as [keys_ok] of each case) compare [key_clean] with the real GenerateKey /
   ds.NewKey on texts with doubled slashes and dot elements. *)
Fixpoint split_slash (s : string) : list string :=                  (* strings.Split(s, "/") *)
  match s with
  | EmptyString => [EmptyString]
  | String c r =>
      if Ascii.eqb c "/"%char then EmptyString :: split_slash r
      else match split_slash r with
           | x :: t => String c x :: t
           | [] => [String c EmptyString]
           end
  end.
(* the kept elements, last one first *)
Definition clean_step (stack : list string) (c : string) : list string :=
  if String.eqb c "" || String.eqb c "." then stack
  else if String.eqb c ".." then tl stack
  else c :: stack.
Definition join_path (elems : list string) : string :=
  match elems with
  | [] => "/"
  | _ => fold_left (fun acc c => acc ++ String "/"%char c) elems EmptyString
  end.
Definition key_clean (s : string) : string :=
  join_path (rev (fold_left clean_step (split_slash s) [])).

(* the text GenerateKey([]string{indexPrefix, text}) cleans, for ANY textual form of a hash *)
Definition index_text_key (text : string) : string := key_clean ("/i/" ++ text).

(* a text that is ONE clean path element: not empty, no '/' in it, no '.' in it (hence neither "." nor "..") *)
Fixpoint plain_text (s : string) : bool :=
  match s with
  | EmptyString => true
  | String c r => negb (Ascii.eqb c "/"%char) && negb (Ascii.eqb c "."%char) && plain_text r
  end.
Definition one_element (s : string) : bool := negb (String.eqb s "") && plain_text s.

(* ---- operations ---------------------------------------------------------------------- *)
Inductive op :=
| OSetHeight (n : N) | OHeight
| OSave (h : hdr) (d s : N)
| OGetBlock (n : N) | OGetByHash (hash : string) | OGetHeader (n : N)
| OGetSig (n : N) | OGetSigByHash (hash : string)
| OUpdState (st : N) | OGetState
| OSetMeta (k : string) (v : N) | OGetMeta (k : string).

Inductive out :=
| RUnit | RErr | RHeight (n : N) | RBlock (h : hdr) (d : N) | RHeader (h : hdr)
| RSig (s : N) | RState (st : N) | RBytes (v : N).

Definition img := kv sval.
Definition wr := write sval.

(* Height: missing key reads as 0 *)
Definition c_height (m : img) : option N :=
  match kv_get m height_key with
  | None => Some 0%N
  | Some (VHeight n) => Some n
  | Some _ => None
  end.

Definition c_get_header (m : img) (n : N) : option hdr :=
  match kv_get m (header_key n) with Some (VHeader h) => Some h | _ => None end.
Definition c_get_data (m : img) (n : N) : option N :=
  match kv_get m (data_key n) with Some (VData d) => Some d | _ => None end.
Definition c_get_sig (m : img) (n : N) : option N :=
  match kv_get m (sig_key n) with Some (VSig s) => Some s | _ => None end.
Definition c_height_by_hash (m : img) (hash : string) : option N :=
  match kv_get m (index_key hash) with Some (VHeight n) => Some n | _ => None end.

Definition c_get_block (m : img) (n : N) : out :=
  match c_get_header m n with
  | None => RErr
  | Some h => match c_get_data m n with None => RErr | Some d => RBlock h d end
  end.

(* SaveBlockData: one datastore batch.  The stale index entry of a different header
   previously stored at this height is deleted in the same batch. *)
Definition save_prims (m : img) (h : hdr) (d s : N) : list (prim sval) :=
  let n := hheight h in
  let stale :=
    match c_get_header m n with
    | Some old => if String.eqb (hhash old) (hhash h) then [] else [Del (index_key (hhash old))]
    | None => []
    end in
  stale ++
  [ Put (header_key n) (VHeader h); Put (data_key n) (VData d);
    Put (sig_key n) (VSig s); Put (index_key (hhash h)) (VHeight n) ].

Definition step (m : img) (o : op) : list wr * out :=
  match o with
  | OSetHeight n =>
      match c_height m with
      | None => ([], RErr)
      | Some cur => if (n <=? cur)%N then ([], RUnit) else ([W1 (Put height_key (VHeight n))], RUnit)
      end
  | OHeight => ([], match c_height m with Some n => RHeight n | None => RErr end)
  | OSave h d s => ([WBatch (save_prims m h d s)], RUnit)
  | OGetBlock n => ([], c_get_block m n)
  | OGetByHash hash =>
      ([], match c_height_by_hash m hash with None => RErr | Some n => c_get_block m n end)
  | OGetHeader n => ([], match c_get_header m n with Some h => RHeader h | None => RErr end)
  | OGetSig n => ([], match c_get_sig m n with Some s => RSig s | None => RErr end)
  | OGetSigByHash hash =>
      ([], match c_height_by_hash m hash with
           | None => RErr
           | Some n => match c_get_sig m n with Some s => RSig s | None => RErr end
           end)
  | OUpdState st => ([W1 (Put state_key (VState st))], RUnit)
  | OGetState => ([], match kv_get m state_key with Some (VState st) => RState st | _ => RErr end)
  | OSetMeta k v => ([W1 (Put (meta_key k) (VBytes v))], RUnit)
  | OGetMeta k => ([], match kv_get m (meta_key k) with Some (VBytes v) => RBytes v | _ => RErr end)
  end.

(* ---- histories: operations, reopen, crash inside an operation ------------------------ *)
Inductive item :=
| IOp (o : op)
| IReopen                       (* close and reopen the database: DefaultStore has no volatile state *)
| ICrash (o : op) (k : nat)     (* the process dies after [k] atomic writes of [o]; its result is lost *)
| IFault (o : op) (k : nat).    (* a transient write FAULT: atomic write attempt number [k] (from 0) of [o] returns an
                                   error and does not reach the database; the store stays open and goes on being used *)

(* What an operation does when its write attempt number [k] fails: every method of DefaultStore returns at its first
   failed datastore write with that error (store.go SetHeight: `return s.db.Put(...)`; SaveBlockData: `if err :=
   batch.Commit(ctx); err != nil { return fmt.Errorf(...) }`; UpdateState: `return s.db.Put(...)`; SetMetadata: `if err
   != nil { return fmt.Errorf(...) }`), DefaultStore keeps nothing in memory, so: the writes before attempt [k] have
   happened, attempt [k] and everything after it have not, the result is an error.  An operation that makes fewer
   than [k+1] write attempts never meets the fault and runs as usual. *)
Definition fault_step (m : img) (o : op) (k : nat) : list wr * out :=
  let '(ws, r) := step m o in
  if Nat.ltb k (List.length ws) then (firstn k ws, RErr) else (ws, r).

Definition istep (m : img) (i : item) : img * option out :=
  match i with
  | IOp o => let '(ws, r) := step m o in (apply_writes m ws, Some r)
  | IReopen => (m, None)
  | ICrash o k => (crash_after k m (fst (step m o)), None)
  | IFault o k => let '(ws, r) := fault_step m o k in (apply_writes m ws, Some r)
  end.

Fixpoint run (m : img) (h : list item) : img * list (option out) :=
  match h with
  | [] => (m, [])
  | i :: r => let '(m', o) := istep m i in let '(m'', os) := run m' r in (m'', o :: os)
  end.

Definition final (h : list item) : img := fst (run [] h).
Definition outputs (h : list item) : list (option out) := snd (run [] h).

(* write-log shape of a history, compared with what the recording datastore saw *)
Inductive wshape := SPut (k : string) | SDel (k : string).
Definition prim_shape (p : prim sval) : wshape := match p with Put k _ => SPut k | Del k => SDel k end.
Definition write_shape (w : wr) : list wshape :=
  match w with W1 p => [prim_shape p] | WBatch ps => map prim_shape ps end.
Fixpoint shapes (m : img) (h : list item) : list (list wshape) :=
  match h with
  | [] => []
  | i :: r =>
      let ws := match i with
                | IOp o => fst (step m o)
                | IReopen => []
                | ICrash o k => firstn k (fst (step m o))
                | IFault o k => fst (fault_step m o k)
                end in
      map write_shape ws ++ shapes (fst (istep m i)) r
  end.

(* the write attempts that were made to fail, in order (compared with what the fault-injecting datastore refused) *)
Fixpoint fault_shapes (m : img) (h : list item) : list (list wshape) :=
  match h with
  | [] => []
  | i :: r =>
      (match i with
       | IFault o k => match nth_error (fst (step m o)) k with Some w => [write_shape w] | None => [] end
       | _ => []
       end) ++ fault_shapes (fst (istep m i)) r
  end.

(* ---- the specification: a height-indexed map ------------------------------------------ *)
Record blk := { b_hdr : hdr; b_data : N; b_sig : N }.

Record spec := {
  a_height : N;
  a_blocks : list (N * blk);          (* one entry per height, latest save *)
  a_state : option N;
  a_meta : list (string * N)          (* latest value first *)
}.

Definition a_init : spec := {| a_height := 0; a_blocks := []; a_state := None; a_meta := [] |}.

Fixpoint a_lookup (l : list (N * blk)) (n : N) : option blk :=
  match l with
  | [] => None
  | (n', b) :: r => if (n =? n')%N then Some b else a_lookup r n
  end.

Definition a_remove (l : list (N * blk)) (n : N) : list (N * blk) :=
  filter (fun e => negb (fst e =? n)%N) l.

Definition a_by_hash (l : list (N * blk)) (hash : string) : option blk :=
  match find (fun e => String.eqb (hhash (b_hdr (snd e))) hash) l with
  | Some (_, b) => Some b
  | None => None
  end.

Fixpoint a_meta_get (l : list (string * N)) (k : string) : option N :=
  match l with
  | [] => None
  | (k', v) :: r => if String.eqb k k' then Some v else a_meta_get r k
  end.

Definition a_step (a : spec) (o : op) : spec * out :=
  match o with
  | OSetHeight n =>
      ({| a_height := N.max (a_height a) n; a_blocks := a_blocks a; a_state := a_state a; a_meta := a_meta a |}, RUnit)
  | OHeight => (a, RHeight (a_height a))
  | OSave h d s =>
      ({| a_height := a_height a;
          a_blocks := (hheight h, {| b_hdr := h; b_data := d; b_sig := s |}) :: a_remove (a_blocks a) (hheight h);
          a_state := a_state a; a_meta := a_meta a |}, RUnit)
  | OGetBlock n => (a, match a_lookup (a_blocks a) n with Some b => RBlock (b_hdr b) (b_data b) | None => RErr end)
  | OGetByHash hash => (a, match a_by_hash (a_blocks a) hash with Some b => RBlock (b_hdr b) (b_data b) | None => RErr end)
  | OGetHeader n => (a, match a_lookup (a_blocks a) n with Some b => RHeader (b_hdr b) | None => RErr end)
  | OGetSig n => (a, match a_lookup (a_blocks a) n with Some b => RSig (b_sig b) | None => RErr end)
  | OGetSigByHash hash => (a, match a_by_hash (a_blocks a) hash with Some b => RSig (b_sig b) | None => RErr end)
  | OUpdState st => ({| a_height := a_height a; a_blocks := a_blocks a; a_state := Some st; a_meta := a_meta a |}, RUnit)
  | OGetState => (a, match a_state a with Some st => RState st | None => RErr end)
  | OSetMeta k v => ({| a_height := a_height a; a_blocks := a_blocks a; a_state := a_state a; a_meta := (k, v) :: a_meta a |}, RUnit)
  | OGetMeta k => (a, match a_meta_get (a_meta a) k with Some v => RBytes v | None => RErr end)
  end.

(* the number of atomic writes the specification charges an operation with *)
Definition a_writes (a : spec) (o : op) : nat :=
  match o with
  | OSetHeight n => if (n <=? a_height a)%N then 0 else 1
  | OSave _ _ _ | OUpdState _ | OSetMeta _ _ => 1
  | _ => 0
  end.

(* a write fault for the specification: an operation whose write attempt [k] exists FAILS - it returns an error and
   the map is exactly what it was (nothing of a failed operation is ever visible, now or after a reopen); otherwise
   the operation is an ordinary one *)
Definition a_fault_step (a : spec) (o : op) (k : nat) : spec * out :=
  if Nat.ltb k (a_writes a o) then (a, RErr) else a_step a o.

(* what a history means for the specification: a crash is "happened entirely or not at all",
   resolved by a boolean oracle per crash item; a write fault is deterministic (a_fault_step) *)
Fixpoint a_run (a : spec) (h : list item) (happened : list bool) : spec * list (option out) :=
  match h with
  | [] => (a, [])
  | IOp o :: r => let '(a', x) := a_step a o in let '(a'', os) := a_run a' r happened in (a'', Some x :: os)
  | IReopen :: r => let '(a'', os) := a_run a r happened in (a'', None :: os)
  | ICrash o k :: r =>
      match happened with
      | b :: hs => let a' := if b then fst (a_step a o) else a in
                   let '(a'', os) := a_run a' r hs in (a'', None :: os)
      | [] => let '(a'', os) := a_run a r [] in (a'', None :: os)
      end
  | IFault o k :: r =>
      let '(a', x) := a_fault_step a o k in let '(a'', os) := a_run a' r happened in (a'', Some x :: os)
  end.

(* well-formed histories: saved headers carry their own height, equal hashes mean equal heights
   (SHA-256 over a header that contains the height), metadata keys are clean *)
Definition op_saves (o : op) : list hdr := match o with OSave h _ _ => [h] | _ => [] end.
Definition item_op (i : item) : option op := match i with IOp o => Some o | ICrash o _ => Some o | IFault o _ => Some o | IReopen => None end.
Definition saves (h : list item) : list hdr :=
  flat_map (fun i => match item_op i with Some o => op_saves o | None => [] end) h.
Definition hash_consistentb (l : list hdr) : bool :=
  forallb (fun a => forallb (fun b => negb (String.eqb (hhash a) (hhash b)) || (hheight a =? hheight b)%N) l) l.
Definition op_meta_ok (o : op) : bool :=
  match o with OSetMeta k _ => clean_meta k | OGetMeta k => clean_meta k | _ => true end.
Definition wf_history (h : list item) : bool :=
  hash_consistentb (saves h) &&
  forallb (fun i => match item_op i with Some o => op_meta_ok o | None => true end) h.

(* ---- the height record as bytes: pkg/store/store.go encodeHeight / decodeHeight -------------------- *)
(* encodeHeight: heightBytes := make([]byte, 8); binary.LittleEndian.PutUint64(heightBytes, height) - the LOW byte
   first.  decodeHeight: a record that is not 8 bytes long is an error, else binary.LittleEndian.Uint64.
   [VHeight n] in an image stands for the record [enc_height n]; Check/StoreCheck.v compares the raw bytes of the
   /t record the real store left behind with [enc_height] of the model's height. *)
Fixpoint le_bytes (k : nat) (n : N) : list N :=
  match k with
  | O => []
  | S k' => (n mod 256)%N :: le_bytes k' (n / 256)%N
  end.
Fixpoint le_value (l : list N) : N :=
  match l with
  | [] => 0%N
  | b :: r => (b + 256 * le_value r)%N
  end.
Definition height_length : nat := 8.                                   (* heightLength *)
Definition enc_height (n : N) : list N := le_bytes height_length n.     (* encodeHeight *)
Definition dec_height (l : list N) : option N :=                        (* decodeHeight *)
  if Nat.eqb (List.length l) height_length then Some (le_value l) else None.

(* SetHeight compares NUMBERS: `currentHeight, err := s.Height(ctx)` decodes the record, then `if height <=
   currentHeight { return nil }` ([step], OSetHeight: [n <=? cur]).  The order of the encoded records as byte strings
   (bytes.Compare: lexicographic, first byte = LOW byte of the height) is a different order - Props/C14.v has the
   witnesses (255 / 256 in both directions) - so it must not be used in its place. *)
Fixpoint lex_leb (a b : list N) : bool :=
  match a, b with
  | [], _ => true
  | _ :: _, [] => false
  | x :: a', y :: b' => if (x <? y)%N then true else if (y <? x)%N then false else lex_leb a' b'
  end.
