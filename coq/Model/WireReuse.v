(* Model/WireReuse.v — decoding into a receiver that is NOT fresh, and what happens to the values that
   were decoded earlier (property C12).  Definitions ONLY.

   Model/Wire.v describes T.UnmarshalBinary on a fresh receiver ([dec_T]).  A Go caller may decode a second
   message into the SAME receiver, after having copied the first decoded value out by value
   ([kept := *r], append to a []SignedHeader, a channel event, ...).  Two questions then belong to C12
   ("encoding and then decoding ... yields an equal value with the same hash ... whichever path it
   travelled", "hashes are stable"):
     (a) is the value the receiver holds after [r.UnmarshalBinary(bs)] the one a fresh receiver would hold?
     (b) is a value that was decoded and copied out EARLIER still the same value afterwards?
   (a) is [into_T r bs] below: what /repo/types/serialization.go does with an arbitrary receiver [r]
   (the receiver afterwards, and whether no error was returned).  (b) is the history machine [rrun]: a
   receiver, the list of values copied out so far, and one decode per step.

   Go values are modelled as mathematical values, so a copy can only change through storage it SHARES with
   the receiver.  On the pinned tree FromProto stores freshly allocated slices in every byte field
   (serialization.go:178-217 Header, :236-240 Metadata, :95-114 SignedHeader, :300-309 State, :389-407
   SignedData, :272 byteSlicesToTxs), so a value copy shares nothing that a later decode writes to —
   with ONE exception, which is modelled: types.Data embeds *Metadata, and Data.FromProto (serialization.go
   :264-270) writes THROUGH a non-nil receiver pointer instead of allocating a new Metadata.  A plain
   [kept := *r] of a Data / SignedData therefore shares that one Metadata struct with the receiver
   (Go's shallow-copy semantics) and sees the next decode's metadata; a copy that also copies the struct
   behind the pointer ([m := *r.Metadata; kept.Metadata = &m]) shares nothing.  Both kinds of copy are
   tracked: [rs_kept] (struct-level copies: nothing shared) and [rs_shallow] (plain copies, with the flag
   "still shares the receiver's Metadata struct"). *)
From Coq Require Import NArith ZArith List Bool.
From Verif Require Import Model.Wire.
Import ListNotations.
Open Scope N_scope.

(* ---------------------------------------------------------------------------------------------- *)
(* r.UnmarshalBinary(bs) for an arbitrary receiver r: (receiver afterwards, returned no error)      *)

(* Header (serialization.go:35-43, 167-219): proto.Unmarshal into a fresh pb.Header; on error the receiver
   is untouched; FromProto assigns all twelve fields *)
Definition into_header (r : wheader) (bs : bytes) : wheader * bool :=
  match dec_msg header_step header0 bs with Some h => (h, true) | None => (r, false) end.

(* Metadata (serialization.go:20-27, 231-245): all four fields assigned *)
Definition into_metadata (r : wmetadata) (bs : bytes) : wmetadata * bool :=
  match dec_msg metadata_step metadata0 bs with Some m => (m, true) | None => (r, false) end.

(* Data (serialization.go:51-59, 259-275): Metadata set (through the old pointer, or a new one) or cleared,
   Txs replaced.  The VALUE does not depend on the receiver; the pointer reuse is [reshare] below. *)
Definition into_data (r : wdata) (bs : bytes) : wdata * bool :=
  match dec_msg data_step data0 bs with Some d => (d, true) | None => (r, false) end.

(* State as the block store reads it (pkg/store/store.go GetState: proto.Unmarshal into a fresh pb.State,
   then State.FromProto, serialization.go:295-327: all eight fields assigned) *)
Definition into_state (r : wstate) (bs : bytes) : wstate * bool :=
  match dec_msg pstate_step pstate0 bs with Some p => (state_from_pb p, true) | None => (r, false) end.

Section WithPubKeys.
Variable pk_canon : bytes -> option bytes.

(* SignedHeader (serialization.go:87-118, 130-141).  proto error or absent Header: receiver untouched.
   Otherwise Header and Signature are stored FIRST; a public key that does not parse then returns the error
   with the receiver already half-written (its Signer is the old one). *)
Definition into_signed_header (r : wsigned_header) (bs : bytes) : wsigned_header * bool :=
  match dec_msg psh_step psh0 bs with
  | None => (r, false)
  | Some p => match psh_header p with
              | None => (r, false)
              | Some h => match signer_from_pb pk_canon (psh_signer p) with
                          | Some sg => ({| sh_header := h; sh_sig := psh_sig p; sh_signer := sg |}, true)
                          | None => ({| sh_header := h; sh_sig := psh_sig p; sh_signer := sh_signer r |}, false)
                          end
              end
  end.

(* SignedData (serialization.go:379-409, 421-428).  An absent Data field leaves the receiver's Data as it
   is ([if other.Data != nil]); Signature is stored before the public key is parsed. *)
Definition into_signed_data (r : wsigned_data) (bs : bytes) : wsigned_data * bool :=
  match dec_msg psd_step psd0 bs with
  | None => (r, false)
  | Some p => let d := match psd_data p with Some d => d | None => sd_data r end in
              match signer_from_pb pk_canon (psd_signer p) with
              | Some sg => ({| sd_data := d; sd_sig := psd_sig p; sd_signer := sg |}, true)
              | None => ({| sd_data := d; sd_sig := psd_sig p; sd_signer := sd_signer r |}, false)
              end
  end.
End WithPubKeys.

(* the bytes carry a Data field (field 1 of SignedData) — every encoding of a value does *)
Definition sd_data_present (bs : bytes) : bool :=
  match dec_msg psd_step psd0 bs with
  | Some p => match psd_data p with Some _ => true | None => false end
  | None => false
  end.

(* ---------------------------------------------------------------------------------------------- *)
(* histories: one receiver, many decodes, the values copied out so far                             *)

(* what the machine needs to know about a wire type: its decode-into-receiver, the struct behind its one
   pointer field (None: the type has no pointer field, or the pointer is nil), storing that struct, and the
   value with the pointer cleared *)
Record reuse_ops (T : Type) := {
  op_into : T -> bytes -> T * bool;
  op_meta : T -> option wmetadata;
  op_set_meta : T -> wmetadata -> T;
  op_strip : T -> T }.
Arguments op_into {T}. Arguments op_meta {T}. Arguments op_set_meta {T}. Arguments op_strip {T}.

Definition no_pointer {T} (into : T -> bytes -> T * bool) : reuse_ops T :=
  {| op_into := into; op_meta := fun _ => None; op_set_meta := fun v _ => v; op_strip := fun v => v |}.
Definition ops_header : reuse_ops wheader := no_pointer into_header.
Definition ops_metadata : reuse_ops wmetadata := no_pointer into_metadata.
Definition ops_state : reuse_ops wstate := no_pointer into_state.
Definition ops_signed_header pk : reuse_ops wsigned_header := no_pointer (into_signed_header pk).
Definition ops_data : reuse_ops wdata :=
  {| op_into := into_data; op_meta := d_meta;
     op_set_meta := fun d m => {| d_meta := Some m; d_txs := d_txs d |};
     op_strip := fun d => {| d_meta := None; d_txs := d_txs d |} |}.
Definition sd_with_data (s : wsigned_data) (d : wdata) : wsigned_data :=
  {| sd_data := d; sd_sig := sd_sig s; sd_signer := sd_signer s |}.
Definition ops_signed_data pk : reuse_ops wsigned_data :=
  {| op_into := into_signed_data pk; op_meta := fun s => d_meta (sd_data s);
     op_set_meta := fun s m => sd_with_data s (op_set_meta ops_data (sd_data s) m);
     op_strip := fun s => sd_with_data s (op_strip ops_data (sd_data s)) |}.

Record rstate (T : Type) := {
  rs_recv : T;                     (* the receiver *)
  rs_kept : list T;                (* struct-level copies of the values obtained so far, oldest first *)
  rs_shallow : list (T * bool) }.  (* plain value copies of the same; true = shares the receiver's Metadata struct *)
Arguments rs_recv {T}. Arguments rs_kept {T}. Arguments rs_shallow {T}.

Definition is_some {A} (o : option A) : bool := match o with Some _ => true | None => false end.

(* a plain copy after the receiver became [r']: a sharer sees the metadata written through the shared
   pointer (serialization.go:268), or stops sharing when the receiver's pointer was cleared (:272); by the
   invariant "a sharer's metadata is the receiver's" this also covers a decode that did not reach
   Data.FromProto *)
Definition reshare {T} (ops : reuse_ops T) (r' : T) (k : T * bool) : T * bool :=
  if snd k then match op_meta ops r' with
                | Some m => (op_set_meta ops (fst k) m, true)
                | None => (fst k, false)
                end
  else k.

(* one step: r.UnmarshalBinary(bs); when it succeeded the caller copies the value out (both ways) *)
Definition rstep {T} (ops : reuse_ops T) (st : rstate T) (bs : bytes) : rstate T * bool :=
  let '(r', ok) := op_into ops (rs_recv st) bs in
  ({| rs_recv := r';
      rs_kept := rs_kept st ++ (if ok then [r'] else []);
      rs_shallow := map (reshare ops r') (rs_shallow st) ++ (if ok then [(r', is_some (op_meta ops r'))] else []) |}, ok).

(* observable after a step: no error?, the receiver, every struct-level copy, every plain copy *)
Definition robs (T : Type) : Type := bool * T * list T * list T.
Definition observe {T} (st : rstate T) (ok : bool) : robs T := (ok, rs_recv st, rs_kept st, map fst (rs_shallow st)).
Definition obs_ok {T} (o : robs T) : bool := fst (fst (fst o)).
Definition obs_recv {T} (o : robs T) : T := snd (fst (fst o)).
Definition obs_kept {T} (o : robs T) : list T := snd (fst o).
Definition obs_shallow {T} (o : robs T) : list T := snd o.

Fixpoint rrun {T} (ops : reuse_ops T) (st : rstate T) (steps : list bytes) : list (robs T) :=
  match steps with
  | [] => []
  | bs :: rest => let '(st', ok) := rstep ops st bs in observe st' ok :: rrun ops st' rest
  end.

(* the receiver before the first step: any value [r0]; [live] = it is itself a plain value copy of a value
   [r0] that somebody still holds (then that value is the first of the kept ones) *)
Definition rinit {T} (ops : reuse_ops T) (r0 : T) (live : bool) : rstate T :=
  {| rs_recv := r0;
     rs_kept := if live then [r0] else [];
     rs_shallow := if live then [(r0, is_some (op_meta ops r0))] else [] |}.
Definition reuse_history {T} (ops : reuse_ops T) (r0 : T) (live : bool) (steps : list bytes) : list (robs T) :=
  rrun ops (rinit ops r0 live) steps.

(* what a run over the encodings of [vs] must look like for C12: every decode succeeds, the receiver holds
   the encoded value, and the kept list is the list of the values so far — each one unchanged *)
Fixpoint value_obs {T} (kept : list T) (vs : list T) : list (bool * T * list T) :=
  match vs with
  | [] => []
  | v :: rest => (true, v, kept ++ [v]) :: value_obs (kept ++ [v]) rest
  end.
Definition obs_deep {T} (o : robs T) : bool * T * list T := (obs_ok o, obs_recv o, obs_kept o).
