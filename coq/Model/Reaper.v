(* Model/Reaper.v — the path of a transaction from the execution layer's mempool into the chain (C11):
     block/reaper.go            Reaper.SubmitTxs (GetTxs, filter by the persistent seen-set, SubmitBatchTxs,
                                mark seen one key at a time)                                    [reap_acts]
     sequencers/single          SubmitBatchTxs / AddBatch (bound, one Put), GetNextBatch / Next (one Delete),
                                Load at start-up — as the durable FIFO that Props/C10.v (C10_fifo_full) proves
                                the queue to be: the queue IS the list of its records in acceptance order,
                                before and after a restart                                      [queue, WQPut, WQDel]
     block/manager.go           NewManager / getInitialState (start-up) and publishBlockInternal + retrieveBatch
                                (pending block of the next height is re-used; else take a batch, cursor write,
                                early save, ExecuteTxs, final save, state, store height)        [boot_acts, produce_acts]
   composed as node/full.go and apps/*/cmd/run.go wire them on ONE datastore.  The code modelled is the tree
   with the repairs f2d48c0 (sequence-number queue keys), 46e0134 (state before store height), a489023 (an EMPTY
   batch older than the last block is skipped) and the reaper repair of this property (the same bytes listed
   twice by GetTxs are handed off once).  Initial height 1, signer = genesis proposer, no DA, no pending limit,
   a deterministic execution layer whose ExecuteTxs succeeds or — item IExecFail — returns an error once.  The reaper
   loop and the aggregation loop are two goroutines: item IMid is a produce step with a complete SubmitTxs in its
   middle (after any number of the step's acts).

   Every action returns the ordered list of its atomic datastore writes, interleaved with the one external
   effect (ExecuteTxs reaching the execution layer); a crash keeps a prefix (DESIGN 2.5); a transient write
   FAULT ([fault]: the k-th write attempt of the action returns an error once, the process lives on) either is
   swallowed by the code (logged / printed: the queue delete, the cursor write, a seen mark) and the action goes
   on, or ends the action with the error.
   Definitions only; proofs are in Proofs/ReaperProofs.v. *)
From Coq Require Import NArith ZArith List Bool Arith.
Import ListNotations.

Definition tx := N.                 (* a transaction = its bytes (pool id: equal ids = equal bytes) *)
Definition batch := list tx.

(* what SaveBlockData stores at a height, projected: transactions, header time, is the signature record non-empty *)
Record blk := { b_txs : list tx; b_time : Z; b_signed : bool }.

Record st := {
  up : bool;                 (* a node process is running *)
  mem : list tx;             (* the execution layer's mempool, arrival order (another process: survives crashes) *)
  seen : list tx;            (* durable: the reaper's seen-set, keys /0/<sha256(tx)> *)
  queue : list batch;        (* the sequencer's queue: in a running node the in-memory queue, each batch with its record
                                under /batches/...; in a stopped node the records that are not [stale] *)
  stale : list batch;        (* durable: records under /batches/ of batches the running process has already handed out
                                (their Delete failed, queue.go:107-111); older than every record of [queue]; the next
                                start-up loads them again, in front (queue.go Load, key order) *)
  blocks : list blk;         (* durable: the block records of heights 1, 2, ... *)
  sh : nat;                  (* durable: LastBlockHeight of the state record /0/s (0 = no record) *)
  th : nat;                  (* durable: the store height /0/t *)
  taken : list tx;           (* ghost: every transaction GetTxs has returned to the reaper, in order *)
  released : list batch      (* ghost: every batch whose queue record was deleted (GetNextBatch), in order *)
}.

Definition st0 : st :=
  {| up := false; mem := []; seen := []; queue := []; stale := []; blocks := []; sh := 0; th := 0; taken := []; released := [] |}.

Definition set_up (v : bool) (s : st) : st :=
  {| up := v; mem := mem s; seen := seen s; queue := queue s; stale := stale s; blocks := blocks s; sh := sh s; th := th s; taken := taken s; released := released s |}.
Definition set_mem (v : list tx) (s : st) : st :=
  {| up := up s; mem := v; seen := seen s; queue := queue s; stale := stale s; blocks := blocks s; sh := sh s; th := th s; taken := taken s; released := released s |}.
Definition set_seen (v : list tx) (s : st) : st :=
  {| up := up s; mem := mem s; seen := v; queue := queue s; stale := stale s; blocks := blocks s; sh := sh s; th := th s; taken := taken s; released := released s |}.
Definition set_queue (v : list batch) (s : st) : st :=
  {| up := up s; mem := mem s; seen := seen s; queue := v; stale := stale s; blocks := blocks s; sh := sh s; th := th s; taken := taken s; released := released s |}.
Definition set_stale (v : list batch) (s : st) : st :=
  {| up := up s; mem := mem s; seen := seen s; queue := queue s; stale := v; blocks := blocks s; sh := sh s; th := th s; taken := taken s; released := released s |}.
Definition set_blocks (v : list blk) (s : st) : st :=
  {| up := up s; mem := mem s; seen := seen s; queue := queue s; stale := stale s; blocks := v; sh := sh s; th := th s; taken := taken s; released := released s |}.
Definition set_sh (v : nat) (s : st) : st :=
  {| up := up s; mem := mem s; seen := seen s; queue := queue s; stale := stale s; blocks := blocks s; sh := v; th := th s; taken := taken s; released := released s |}.
Definition set_th (v : nat) (s : st) : st :=
  {| up := up s; mem := mem s; seen := seen s; queue := queue s; stale := stale s; blocks := blocks s; sh := sh s; th := v; taken := taken s; released := released s |}.
Definition set_taken (v : list tx) (s : st) : st :=
  {| up := up s; mem := mem s; seen := seen s; queue := queue s; stale := stale s; blocks := blocks s; sh := sh s; th := th s; taken := v; released := released s |}.
Definition set_released (v : list batch) (s : st) : st :=
  {| up := up s; mem := mem s; seen := seen s; queue := queue s; stale := stale s; blocks := blocks s; sh := sh s; th := th s; taken := taken s; released := v |}.

Definition memb (t : tx) (l : list tx) : bool := existsb (N.eqb t) l.

(* ---- atomic datastore writes ------------------------------------------------------------------------- *)
Inductive wr :=
| WQPut (b : batch)          (* queue.go AddBatch: db.Put(batchKey(nextSeq, hash), batch) *)
| WQDel (b : batch)          (* queue.go Next: db.Delete(key of the head) *)
| WMeta                      (* manager.go retrieveBatch: SetMetadata(LastBatchDataKey, ...) *)
| WBlock (n : nat) (txs : list tx) (t : Z) (signed : bool)   (* store.SaveBlockData: one datastore batch *)
| WState (n : nat)           (* store.UpdateState *)
| WHeight (n : nat)          (* store.SetHeight (only issued when the height grows) *)
| WSeen (t : tx)             (* reaper.go: seenStore.Put(hash(tx), 1) *)
| WOther                     (* never produced by the model; lets the harness print an unexpected write *)
| WFail (w : wr).            (* the attempt of write [w] that returned an error: nothing reached the datastore *)

(* the record of height n is index n-1; a Put at an existing height replaces, else it is the next record *)
Fixpoint set_nth {A} (n : nat) (x : A) (l : list A) : list A :=
  match l, n with
  | [], _ => [x]
  | _ :: r, O => x :: r
  | y :: r, S n' => y :: set_nth n' x r
  end.

Definition apply_wr (s : st) (w : wr) : st :=
  match w with
  | WQPut b => set_queue (queue s ++ [b]) s
  | WQDel b => set_released (released s ++ [b]) (set_queue (tl (queue s)) s)
  (* queue.go:100-111: Next takes the head off the in-memory queue BEFORE the Delete and only prints a Delete error:
     the batch is handed out, its record stays *)
  | WFail (WQDel b) => set_released (released s ++ [b]) (set_queue (tl (queue s)) (set_stale (stale s ++ [b]) s))
  | WFail _ => s
  | WMeta | WOther => s
  | WBlock n txs t sg => set_blocks (set_nth (pred n) {| b_txs := txs; b_time := t; b_signed := sg |} (blocks s)) s
  | WState n => set_sh n s
  | WHeight n => set_th n s
  | WSeen t => set_seen (t :: seen s) s
  end.

(* an action = its writes in order, interleaved with the ExecuteTxs call (the only effect outside the datastore:
   the double of the execution layer drops executed transactions from its mempool) *)
Inductive act := AW (w : wr) | AExec (txs : list tx).

Definition apply_act (s : st) (a : act) : st :=
  match a with
  | AW w => apply_wr s w
  | AExec txs => set_mem (filter (fun t => negb (memb t txs)) (mem s)) s
  end.

Definition apply_acts (s : st) (l : list act) : st := fold_left apply_act l s.

Fixpoint writes_of (l : list act) : list wr :=
  match l with [] => [] | AW w :: r => w :: writes_of r | AExec _ :: r => writes_of r end.

(* the process dies right after k writes of the action became durable; [e]: an ExecuteTxs call that follows
   the k-th write directly still reaches the execution layer *)
Fixpoint cut (k : nat) (e : bool) (l : list act) : list act :=
  match l with
  | [] => []
  | AExec x :: r => match k with
                    | O => if e then AExec x :: cut k e r else []
                    | S _ => AExec x :: cut k e r
                    end
  | AW w :: r => match k with O => [] | S k' => AW w :: cut k' e r end
  end.

(* ---- a transient write fault: the k-th write attempt of the action returns an error, once -------------------------- *)
(* which errors the code swallows and goes on: queue.go:107-111 (Delete of the handed-out record: printed),
   manager.go:585-587 (SetMetadata(LastBatchDataKey): logged), reaper.go:113-115 (seenStore.Put: logged).
   Every other write error is returned: queue.go:85-87 -> sequencer.go SubmitBatchTxs -> reaper.go:105-108 (nothing
   is marked); manager.go:699-701, 739-742 (SaveBlockData), 749-751 (updateState), 755-757 (SetHeight);
   NewManager / getInitialState (the node does not start). *)
Definition swallowed (w : wr) : bool :=
  match w with WQDel _ | WMeta | WSeen _ => true | _ => false end.

(* the acts that take effect, and whether the action ended with the store error; an ExecuteTxs call placed before
   the failing write has happened *)
Fixpoint fault (k : nat) (l : list act) : list act * bool :=
  match l with
  | [] => ([], false)
  | AExec x :: r => let '(r', e) := fault k r in (AExec x :: r', e)
  | AW w :: r => match k with
                 | S k' => let '(r', e) := fault k' r in (AW w :: r', e)
                 | O => if swallowed w then (AW (WFail w) :: r, false) else ([AW (WFail w)], true)
                 end
  end.

(* ---- start-up: NewSequencer (Load) + NewManager + NewReaper ---------------------------------------------- *)
(* manager.go:176-249: no state record -> InitChain, save the genesis block at the initial height (1);
   manager.go:316 + store.go SetHeight: raise the store height to the state's height (a write only if it grows) *)
Definition boot_acts (gt : Z) (s : st) : list act :=
  (if sh s =? 0 then [AW (WBlock 1 [] gt true)] else []) ++
  (if th s <? sh s then [AW (WHeight (sh s))] else []).

(* ---- Reaper.SubmitTxs, reaper.go:73-128 -------------------------------------------------------------------- *)
(* reaper.go:79-96: keep a transaction that is neither marked seen nor already in this batch *)
Fixpoint select (sn : list tx) (inb : list tx) (l : list tx) : list tx :=
  match l with
  | [] => []
  | t :: r => if memb t inb then select sn inb r
              else if memb t sn then select sn inb r
              else t :: select sn (t :: inb) r
  end.
Definition new_txs (s : st) : list tx := select (seen s) [] (mem s).

(* queue.go:63 *)
Definition full (max : N) (q : list batch) : bool := (0 <? max)%N && (max <=? N.of_nat (length q))%N.

(* reaper.go:98-120: nothing new -> return; SubmitBatchTxs fails (queue full) -> return WITHOUT marking;
   else the batch is stored (one Put) and then each transaction is marked seen (one Put each) *)
Definition reap_acts (max : N) (s : st) : list act :=
  match new_txs s with
  | [] => []
  | n => if full max (queue s) then [] else AW (WQPut n) :: map (fun t => AW (WSeen t)) n
  end.

(* ---- Manager.publishBlockInternal, manager.go:598-765 --------------------------------------------------------- *)
Inductive outcome := OCommitted | OSkipped | OErrTime | OErrLoad | OErrValidate.

(* batchData.Before(lastHeaderTime), manager.go:667/679; below the initial height there is no last header *)
Definition before (ts : Z) (lt : option Z) : bool := match lt with Some l => (ts <? l)%Z | None => false end.

Definition commit_tail (n : nat) (txs : list tx) (t : Z) : list act :=
  [AExec txs; AW (WBlock n txs t true); AW (WState n); AW (WHeight n)].

Definition produce_acts (ts : Z) (s : st) : list act * outcome :=
  let h := th s in
  match (match h with
         | O => Some None                                       (* manager.go:629-631 *)
         | S k => match nth_error (blocks s) k with             (* manager.go:633-643 *)
                  | Some b => Some (Some (b_time b))
                  | None => None
                  end
         end) with
  | None => ([], OErrLoad)
  | Some lt =>
      match nth_error (blocks s) h with
      | Some pb =>                                               (* manager.go:654-658 "using pending block" *)
          (* m.lastState is the state record (sync.go updateState writes both, start-up loads it); when its height
             is above the store height (the SetHeight of the last step failed, the process lived on) the pending
             block is executed and then fails manager.go:727 Validate -> execValidate "invalid height" *)
          if sh s =? h then (commit_tail (S h) (b_txs pb) (b_time pb), OCommitted)
          else ([AExec (b_txs pb)], OErrValidate)
      | None =>
          match queue s with                                     (* retrieveBatch, manager.go:554-589 *)
          | [] =>                                                (* queue.go:100-102: a batch without transactions, no delete *)
              if before ts lt then ([AW WMeta], OSkipped)        (* manager.go:667-672 *)
              else (AW WMeta :: AW (WBlock (S h) [] ts false) :: commit_tail (S h) [] ts, OCommitted)
          | b :: _ =>                                            (* queue.go:104-112: the head, its record deleted *)
              if before ts lt then ([AW (WQDel b); AW WMeta], OErrTime)        (* manager.go:679-681 *)
              else (AW (WQDel b) :: AW WMeta :: AW (WBlock (S h) b ts false) :: commit_tail (S h) b ts, OCommitted)
          end
      end
  end.

(* ---- histories ------------------------------------------------------------------------------------------------ *)
Inductive action := ABoot | AReap | AProduce (ts : Z).
Inductive item :=
| IArrive (t : tx)                              (* a transaction enters the mempool (node up or down) *)
| IRun (a : action)                             (* the action runs to completion *)
| ICrash (a : action) (k : nat) (e : bool)      (* the process dies inside the action after k of its writes *)
| IFault (a : action) (k : nat)                 (* write attempt number k (from 0) of the action returns an error;
                                                   the process lives on (a start-up that fails leaves no process) *)
| IExecFail (ts : Z)                            (* a produce step whose ExecuteTxs call returns an error (a transient
                                                   failure of the execution layer, manager.go:703-706); the process lives on *)
| IMid (ts : Z) (p : nat).                      (* a produce step DURING which the reaper's SubmitTxs runs to completion
                                                   (reaper loop and aggregation loop are two goroutines; the sequencer's
                                                   calls are atomic): right after the first [S p] acts of the step *)

(* result codes as the harness prints them: 1 boot-ok 2 reaped 3 committed 4 skipped 5 e-time 6 not-running
   7 crashed 8 e-load 9 e-store (the step returned the injected write error) 10 e-validate 11 boot-failed
   12 e-exec (the step returned the error of ExecuteTxs) *)
Definition code_of (o : outcome) : N :=
  match o with OCommitted => 3 | OSkipped => 4 | OErrTime => 5 | OErrLoad => 8 | OErrValidate => 10 end%N.

Definition acts_of (max : N) (gt : Z) (s : st) (a : action) : list act * N :=
  match a with
  | ABoot => (boot_acts gt s, 1%N)
  | AReap => if up s then (reap_acts max s, 2%N) else ([], 6%N)
  | AProduce ts => if up s then (let '(l, o) := produce_acts ts s in (l, code_of o)) else ([], 6%N)
  end.

(* the same under a write fault; SubmitTxs returns nothing, so a reap has the same result whatever failed *)
Definition fault_acts_of (max : N) (gt : Z) (s : st) (a : action) (k : nat) : list act * N :=
  let '(l, c) := acts_of max gt s a in
  let '(l', e) := fault k l in
  (l', if e then match a with ABoot => 11%N | AReap => 2%N | AProduce _ => 9%N end else c).

(* ---- ExecuteTxs returns an error: manager.go:703-706 applyBlock fails, publishBlockInternal returns "error applying
   block"; everything before the call has happened (on the code as it is: the batch is taken and the block built from
   it is saved — the next step finds it as the pending block), nothing after it ------------------------------------ *)
Fixpoint until_exec (l : list act) : list act * bool :=
  match l with
  | [] => ([], false)
  | AExec _ :: _ => ([], true)
  | AW w :: r => let '(r', e) := until_exec r in (AW w :: r', e)
  end.

Definition execfail_acts_of (s : st) (ts : Z) : list act * N :=
  if up s then
    let '(l, o) := produce_acts ts s in
    let '(l', e) := until_exec l in (l', if e then 12%N else code_of o)
  else ([], 6%N).

(* ---- a reap in the middle of a produce step.  The reaper (block/reaper.go Start: its own goroutine and ticker) and
   the aggregation loop run concurrently; SubmitBatchTxs / GetNextBatch are serialised by the queue's mutex and the
   datastore's writes are atomic, so an interleaving is: the first acts of the produce step, a complete SubmitTxs,
   the remaining acts.  What the produce step does after GetNextBatch has answered depends on the batch in hand,
   the last state and the block records only — not on the queue, the seen-set or the mempool listing — so its acts
   are those of the undisturbed step; the reap sees the state reached by the acts before it (the queue without the
   batch just taken; the mempool without the executed transactions once ExecuteTxs has run). ------------------------ *)
Definition mid_before (s : st) (ts : Z) (p : nat) : list act := firstn (S p) (fst (produce_acts ts s)).
Definition mid_after (s : st) (ts : Z) (p : nat) : list act := skipn (S p) (fst (produce_acts ts s)).
Definition mid_reap (max : N) (s : st) (ts : Z) (p : nat) : list act := reap_acts max (apply_acts s (mid_before s ts p)).
Definition take_all (s : st) : st := set_taken (taken s ++ mem s) s.      (* reaper.go:74 GetTxs *)

(* reaper.go:74: GetTxs — what it returns has been "taken from the mempool";
   sequencer.go NewSequencer -> queue.go Load: every record under /batches, in key order = acceptance order *)
Definition pre (s : st) (a : action) : st :=
  match a with
  | AReap => if up s then set_taken (taken s ++ mem s) s else s
  | ABoot => set_queue (stale s ++ queue s) (set_stale [] s)
  | _ => s
  end.

(* the acts of an item that take effect *)
Definition item_acts (max : N) (gt : Z) (s : st) (it : item) : list act :=
  match it with
  | IArrive _ => []
  | IRun a => fst (acts_of max gt s a)
  | ICrash a k e => cut k e (fst (acts_of max gt s a))
  | IFault a k => fst (fault_acts_of max gt s a k)
  | IExecFail ts => fst (execfail_acts_of s ts)
  | IMid ts p => if up s then mid_before s ts p ++ mid_reap max s ts p ++ mid_after s ts p else []
  end.

Definition step (max : N) (gt : Z) (s : st) (it : item) : st :=
  match it with
  | IArrive t => set_mem (mem s ++ [t]) s
  | IRun a =>
      let s' := apply_acts (pre s a) (item_acts max gt s it) in
      match a with ABoot => set_up true s' | _ => s' end
  | ICrash a k e => set_up false (apply_acts (pre s a) (item_acts max gt s it))
  | IFault a k =>
      let s' := apply_acts (pre s a) (item_acts max gt s it) in
      match a with ABoot => set_up (negb (snd (fault k (boot_acts gt s)))) s' | _ => s' end
  | IExecFail ts => apply_acts s (item_acts max gt s it)
  | IMid ts p =>
      if up s then
        apply_acts (apply_acts (take_all (apply_acts s (mid_before s ts p))) (mid_reap max s ts p)) (mid_after s ts p)
      else s
  end.

(* what the harness observes of an item: result code, writes that reached the datastore *)
Definition observe (max : N) (gt : Z) (s : st) (it : item) : N * list wr :=
  match it with
  | IArrive _ => (0%N, [])
  | IRun a => (snd (acts_of max gt s a), writes_of (item_acts max gt s it))
  | ICrash a k e => ((if (snd (acts_of max gt s a) =? 6)%N then 6%N else 7%N), writes_of (item_acts max gt s it))
  | IFault a k => (snd (fault_acts_of max gt s a k), writes_of (item_acts max gt s it))
  | IExecFail ts => (snd (execfail_acts_of s ts), writes_of (item_acts max gt s it))
  | IMid ts p => (snd (acts_of max gt s (AProduce ts)), writes_of (item_acts max gt s it))
  end.

Fixpoint run (max : N) (gt : Z) (s : st) (h : list item) : st :=
  match h with [] => s | it :: r => run max gt (step max gt s it) r end.

Fixpoint observations (max : N) (gt : Z) (s : st) (h : list item) : list (N * list wr) :=
  match h with [] => [] | it :: r => observe max gt s it :: observations max gt (step max gt s it) r end.

Definition final (max : N) (gt : Z) (h : list item) : st := run max gt st0 h.

(* ---- what the property speaks about ---------------------------------------------------------------------------- *)
Definition block_txs (s : st) : list (list tx) := map b_txs (blocks s).
(* the committed chain: the block records up to the store height *)
Definition committed (s : st) : list (list tx) := firstn (th s) (block_txs s).
(* nothing is in flight: node up, queue empty, no block saved above the store height, nothing unseen in the mempool *)
Definition quiescedb (s : st) : bool :=
  up s && (match queue s with [] => true | _ => false end) &&
  (match nth_error (blocks s) (th s) with None => true | Some _ => false end) &&
  (match new_txs s with [] => true | _ => false end).

(* ---- the guard of the _partial theorem: no batch is handed out without its block being saved in the same action
        (F12: the action ends with an error after the delete; F13: the process dies after the delete and before
        the early save; and the write fault in the same window: the early save itself fails) ------------------------ *)
Definition is_del (a : act) : bool :=
  match a with AW (WQDel _) | AW (WFail (WQDel _)) => true | _ => false end.
Definition has_del (l : list act) : bool := existsb is_del l.
Definition has_block (l : list act) : bool := existsb (fun a => match a with AW (WBlock _ _ _ _) => true | _ => false end) l.
Definition lossy (l : list act) : bool := has_del l && negb (has_block l).

Fixpoint safe_hist (max : N) (gt : Z) (s : st) (h : list item) : bool :=
  match h with
  | [] => true
  | it :: r => negb (lossy (item_acts max gt s it)) && safe_hist max gt (step max gt s it) r
  end.

Definition is_crash (it : item) : bool := match it with ICrash _ _ _ => true | _ => false end.
Definition crash_free (h : list item) : bool := forallb (fun it => negb (is_crash it)) h.
Definition is_fault (it : item) : bool := match it with IFault _ _ => true | _ => false end.
Definition fault_free (h : list item) : bool := forallb (fun it => negb (is_fault it)) h.

(* the two causes, separately (for the witnesses of the _refuted theorem) *)
Fixpoint clock_monotone (max : N) (gt : Z) (s : st) (h : list item) : bool :=
  match h with
  | [] => true
  | it :: r =>
      (match it with
       | IRun (AProduce ts) | ICrash (AProduce ts) _ _ | IFault (AProduce ts) _ | IExecFail ts | IMid ts _ =>
           negb (up s && before ts (match th s with O => None | S k => option_map b_time (nth_error (blocks s) k) end))
       | _ => true
       end) && clock_monotone max gt (step max gt s it) r
  end.

(* the drain the harness appends: produce at an instant not before any used so far, then reap *)
Fixpoint drain (max : N) (gt : Z) (ts : Z) (n : nat) (s : st) : st :=
  match n with
  | O => s
  | S n' => drain max gt ts n' (step max gt (step max gt s (IRun (AProduce ts))) (IRun AReap))
  end.
