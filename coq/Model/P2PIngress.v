(* Model/P2PIngress.v — the P2P ingress of the full node: block/store.go HeaderStoreRetrieveLoop (11-62)
   and DataStoreRetrieveLoop (65-114), getHeadersFromHeaderStore / getDataFromDataStore (116-145).
   Each loop keeps a cursor (lastHeaderStoreHeight / lastDataStoreHeight, initialised with the node's own
   store height when the loop starts) and, per signal on headerStoreCh / dataStoreCh, reads the height of
   the go-header P2P store, fetches the heights (cursor, store height] and hands them to SyncLoop through
   headerInCh / dataInCh, tagged with the current DA scan position.  Only heights matter here: WHICH block
   sits at a height of the P2P store is the subject of C03 (admission); for C02 the stores serve the
   proposer's chain.  Code state: after the repair 2ae5bf0 (the cursor only moves forward, after the range
   (cursor, store height] was read and handed to SyncLoop); the step of the code before it is kept as
   loop_step_before_the_repair for the Examples of Props/C02.v.
   Definitions only; proofs are in Proofs/P2PIngressProofs.v. *)
From Coq Require Import String NArith ZArith List Bool.
From Verif Require Import Base.KV Base.Keys Model.Types Model.Syncer.
Import ListNotations.
Open Scope list_scope.
Open Scope N_scope.

(* the heights a+1, a+2, ..., a+n *)
Fixpoint seq_from (a : N) (n : nat) : list N :=
  match n with O => [] | S k => (a + 1) :: seq_from (a + 1) k end.
(* getHeadersFromHeaderStore(ctx, cur+1, sh) / getDataFromDataStore: store.go:116-145 — the heights
   cur+1 .. sh, in increasing order (empty when sh <= cur) *)
Definition heights_between (cur sh : N) : list N := seq_from cur (N.to_nat (sh - cur)).

(* what one loop sees when it wakes up *)
Record psignal := {
  ps_store : N;          (* m.headerStore.Height() / m.dataStore.Height(): store.go:25, 80 (0 = the store is empty) *)
  ps_tail : N;           (* the lowest height the store holds: GetByHeight below it is an error (go-header ErrNotFound) *)
  ps_gap : option N;     (* a further height at which GetByHeight returns an error at this moment (store.go:119-122) *)
  ps_da : N              (* m.daHeight.Load(): store.go:32, 86 *)
}.

(* the first height in (cur, store] whose read fails, if any: reads go upwards from cur+1 and stop at the
   first error *)
Definition first_fail (cur : N) (s : psignal) : option N :=
  if cur + 1 <? ps_tail s then Some (cur + 1)
  else match ps_gap s with
       | Some f => if (cur <? f) && (f <=? ps_store s) then Some f else None
       | None => None
       end.

(* the batch read fails: some height in (cur, store] is not retrievable *)
Definition gap_hit (cur : N) (s : psignal) : bool :=
  match first_fail cur s with Some _ => true | None => false end.

(* GetByHeight calls made for one signal, in order (the failing one is the last) *)
Definition loop_reads (cur : N) (s : psignal) : list N :=
  if cur <? ps_store s then
    match first_fail cur s with
    | Some f => heights_between cur f
    | None => heights_between cur (ps_store s)
    end
  else [].

(* one iteration of the loop body after a signal: (events handed to SyncLoop as (height, DA tag), new cursor).
   [accept]: the junk filter of the header loop (isUsingExpectedSingleSequencer, store.go:47-49); the data
   loop has none.
   store.go:26-31: store height above the cursor -> fetch (cursor, store height]; on an error: log and
   `continue` (nothing is sent, the cursor stays).  store.go:33-58: send every fetched item, in order.
   store.go:59 / 112 (since 2ae5bf0): then, inside that branch, the cursor takes the store height.  A store
   height at or below the cursor (an empty store = 0, a store that lags the node) changes nothing. *)
Definition loop_step (accept : N -> bool) (cur : N) (s : psignal) : list (N * N) * N :=
  if cur <? ps_store s then
    if gap_hit cur s then ([], cur)
    else (map (fun n => (n, ps_da s)) (filter accept (heights_between cur (ps_store s))), ps_store s)
  else ([], cur).

(* the code BEFORE 2ae5bf0: the cursor took the store height at the bottom of the loop, unconditionally — also
   when the store height was below it (finding p2p-wedged-after-signal-on-empty-store-initial-gt-1, fixed) *)
Definition loop_step_before_the_repair (accept : N -> bool) (cur : N) (s : psignal) : list (N * N) * N :=
  if cur <? ps_store s then
    if gap_hit cur s then ([], cur)
    else (map (fun n => (n, ps_da s)) (filter accept (heights_between cur (ps_store s))), ps_store s)
  else ([], ps_store s).
Fixpoint loop_run_before_the_repair (accept : N -> bool) (cur : N) (sigs : list psignal) : list (list (N * N)) * N :=
  match sigs with
  | [] => ([], cur)
  | s :: r =>
      let '(em, cur') := loop_step_before_the_repair accept cur s in
      let '(ems, fin) := loop_run_before_the_repair accept cur' r in
      (em :: ems, fin)
  end.

(* a run of the loop over a sequence of signals: the emissions per signal, and the final cursor *)
Fixpoint loop_run (accept : N -> bool) (cur : N) (sigs : list psignal) : list (list (N * N)) * N :=
  match sigs with
  | [] => ([], cur)
  | s :: r =>
      let '(em, cur') := loop_step accept cur s in
      let '(ems, fin) := loop_run accept cur' r in
      (em :: ems, fin)
  end.
Definition cursor_after (accept : N -> bool) (cur : N) (sigs : list psignal) : N := snd (loop_run accept cur sigs).
Definition emissions (accept : N -> bool) (cur : N) (sigs : list psignal) : list (N * N) :=
  concat (fst (loop_run accept cur sigs)).
(* the heights handed to SyncLoop, in the order they were sent *)
Definition emitted (accept : N -> bool) (cur : N) (sigs : list psignal) : list N := map fst (emissions accept cur sigs).

(* the reads per signal *)
Fixpoint reads_run (accept : N -> bool) (cur : N) (sigs : list psignal) : list (list N) :=
  match sigs with
  | [] => []
  | s :: r => loop_reads cur s :: reads_run accept (snd (loop_step accept cur s)) r
  end.

(* a store that holds every height from t up to its head and never fails a read of a height it holds
   (no condition on the sequence of its head heights: it may be empty, jump, go down) *)
Definition never_fails (t : N) (s : psignal) : bool :=
  (ps_tail s <=? t) && match ps_gap s with None => true | Some _ => false end.
(* the highest store height among the signals, or the initial cursor *)
Definition max_store (cur : N) (sigs : list psignal) : N := fold_left (fun m s => N.max m (ps_store s)) sigs cur.

(* ---- composition with the syncer: the P2P stores serve the proposer's chain C ------------------------- *)
Definition block_at (g : config) (C : list block) (n : N) : option block :=
  if n <? g_initial g then None else nth_error C (N.to_nat (n - g_initial g)).

(* the SyncLoop events that the header loop's / data loop's emissions are: store.go:56, 108 *)
Definition hdr_events (g : config) (C : list block) (em : list (N * N)) : list item :=
  flat_map (fun e => match block_at g C (fst e) with
                     | Some b => [IEv (EvHeader (fst b) (snd e))]
                     | None => []
                     end) em.
Definition data_events (g : config) (C : list block) (em : list (N * N)) : list item :=
  flat_map (fun e => match block_at g C (fst e) with
                     | Some b => [IEv (EvData (snd b) (snd e))]
                     | None => []
                     end) em.
