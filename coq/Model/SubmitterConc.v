(* Model/SubmitterConc.v — two extensions of Model/Submitter.v (property C06).  Definitions only, no proofs
   (Proofs/SubmitterConcProofs.v).  Nothing of Model/Submitter.v is changed.

   1. BLOCKS COMMITTED WHILE A DA CALL IS IN FLIGHT.  The aggregation loop commits blocks all the time; a
      SubmitWithOptions call takes up to 60 s.  In Model/Submitter.v the chain is frozen during one iteration of
      a submission loop.  Here every DA answer of an iteration carries the blocks that are committed between the
      moment the call is made and the moment its answer is processed ([pscript]), and the chain is threaded
      through the attempt loop of submitToDA ([submit_p]): what the code reads BEFORE the first call (the pending
      range, block/pending_base.go:42-63; the signed data, block/submitter.go:231-269) is taken from the chain as
      it was then; what it does AFTER an answer (the postSubmit closures, block/submitter.go:187-201 / 212-226:
      mark, raise the watermark to the height of the last ACCEPTED item) does not look at the store, so the grown
      chain does not enter it — that is the point: the watermark must not step over a block that was committed
      after the batch was built.

   2. WHAT THE LOOP LEAVES OF ITS SCRIPT.  [loop_side_rest] is [loop_side] returning also the DA answers the loop
      did not ask for.  The loop goes round until its context ends (script used up) or nothing is pending; a
      DA answer "cancelled" (context.Canceled / the DA sentinel, produced by a DA node or proxy that aborted the
      request) ends the ITERATION only (block/submitter.go:154-156 returns nil, the loop waits for the next
      tick). *)
From Coq Require Import NArith List Bool.
From Verif Require Import Model.Submitter.
Import ListNotations.
Open Scope N_scope.

(* ---- 1. blocks committed while a call is in flight ---------------------------------------------------------- *)

(* one DA answer and the blocks (has transactions?) committed while that call is in flight *)
Definition pscript := list (outcome * list bool).

(* block/submitter.go:76-174 submitToDA with the chain threaded.  Same recursion as Submitter.submit; [ch] is the
   committed chain.  The call is logged with the watermarks of the moment it is made; then the blocks of the
   answer are committed; then the answer is processed. *)
Fixpoint submit_p (c : cfg) (fuel : nat) (b : N) (rem : list N) (scp : pscript) (sd : side) (ch : list bool) (el : N)
  : side * list bool * pscript * result * N :=
  match fuel with
  | O => (sd, ch, scp, RExhausted, el)
  | S f =>
    let el := el + b in
    match scp with
    | [] => (sd, ch, [], RCancelled, el)
    | (o, pubs) :: scp' =>
      let n := N.of_nat (length rem) in
      let sd1 := log_call rem o sd in                                   (* :120 the DA call is made *)
      let ch1 := ch ++ pubs in                                          (* blocks committed while it is in flight *)
      let el := el + call_cost o in
      match helper_status o n with
      | (SSuccess, cnt) =>
          let submitted := firstn (N.to_nat cnt) rem in
          let sd2 := set_last (last_height submitted) sd1 in            (* :136 postSubmit: height of the last ACCEPTED item; ch1 not read *)
          if cnt =? n then (sd2, ch1, scp', RDone, el)
          else submit_p c f 0 (skipn (N.to_nat cnt) rem) scp' sd2 ch1 el
      | (SNotIncluded, _) | (SInMempool, _) =>
          submit_p c f (c_bt c * c_ttl c) rem scp' sd1 ch1 el
      | (SCanceled, _) => (sd1, ch1, scp', RCancelled, el)
      | _ => submit_p c f (exp_backoff c b) rem scp' sd1 ch1 el
      end
    end
  end.

Definition with_chain (s : state) (ch : list bool) : state :=
  {| s_init := s_init s; s_chain := ch; s_h := s_h s; s_d := s_d s |}.

(* one iteration of the k submission loop (submitter.go:24-38 / 53-69): the pending range and — for data — the
   elision of empty blocks are computed from the chain at the START of the iteration *)
Definition tick_p (c : cfg) (k : kind) (scp : pscript) (s : state) : state * pscript * result * N :=
  let sd := get_side k s in
  if vol sd =? height s then (s, scp, RIdle, 0)
  else match pending_range (s_init s) (height s) (vol sd) with
       | None => (s, scp, RGetErr, 0)
       | Some r =>
           let items := match rel_of k s with Some f => filter f r | None => r end in
           match items with
           | [] => (s, scp, RNothing, 0)
           | _ => let '(sd', ch', scp', res, el) := submit_p c max_attempts 0 items scp sd (s_chain s) 0 in
                  (set_side k (with_chain s ch') sd', scp', res, el)
           end
       end.

(* histories of the case files: run-length items (Submitter.hitem) and iterations with in-flight commits *)
Inductive citem :=
| CH (h : hitem)
| CTickP (k : kind) (scp : pscript).

Definition cstep_state (c : cfg) (s : state) (ci : citem) : state :=
  match ci with
  | CH h => run_from c s (expand h)
  | CTickP k scp => fst (fst (fst (tick_p c k scp s)))
  end.

Definition crun_from (c : cfg) (s : state) (h : list citem) : state := fold_left (cstep_state c) h s.
Definition crun (c : cfg) (init : N) (h : list citem) : state := crun_from c (boot init) h.

(* the sequential history with the same effect: the iteration on the frozen chain, then the blocks of the answers
   it consumed (Proofs/SubmitterConcProofs.v: crun_is_run) *)
Definition consumed_pubs (scp rest : pscript) : list bool :=
  concat (map snd (firstn (length scp - length rest) scp)).

Definition cexpand_item (c : cfg) (s : state) (ci : citem) : list item :=
  match ci with
  | CH h => expand h
  | CTickP k scp => ITick k (map fst scp) :: map IPublish (consumed_pubs scp (snd (fst (fst (tick_p c k scp s)))))
  end.

Fixpoint cexpand (c : cfg) (s : state) (h : list citem) : list item :=
  match h with
  | [] => []
  | ci :: h' => cexpand_item c s ci ++ cexpand c (cstep_state c s ci) h'
  end.

(* ---- 2. the loop and what it leaves of its script ------------------------------------------------------------- *)

Fixpoint loop_side_rest (c : cfg) (rel : option (N -> bool)) (init height : N) (fuel : nat) (sc : list outcome) (sd : side)
  : side * list outcome :=
  match fuel with
  | O => (sd, sc)
  | S f => match sc with
           | [] => (sd, [])
           | _ => let '(sd', sc', r, _) := tick_side c rel init height sc sd in
                  if made_call r then loop_side_rest c rel init height f sc' sd' else (sd', sc')
           end
  end.

(* the DA answers an ILoop item leaves unasked *)
Definition loop_left (c : cfg) (s : state) (k : kind) (sc : list outcome) : list outcome :=
  snd (loop_side_rest c (rel_of k s) (s_init s) (height s) (S (length sc)) sc (get_side k s)).
