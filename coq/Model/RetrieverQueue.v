(* C09: the hand-off of the retriever to the sync loop through the BOUNDED event channels.
   block/retriever.go handlePotentialHeader:158-163 / handlePotentialData:203-208:
       select { case <-ctx.Done(): return ...; case m.headerInCh <- NewHeaderEvent{...}: }      (resp. m.dataInCh)
   block/manager.go:50-51,386-387: both channels have eventInChLength = 10000 slots.
   ctx is the context of RetrieveLoop: done only at shutdown (not during the histories considered here, see the
   assumptions of C09), so the hand-off WAITS until the consumer (SyncLoop) has made room: HWait.
   Definitions only.  Events are counted, not named: a DA height is given by the runs of genuine unseen headers /
   data among its blobs in DA order (what Model/Retriever.v genuine_events yields; everything else is handed to
   nobody); a Go channel is FIFO, so the k-th header taken is the k-th header handed over. *)
From Coq Require Import NArith List Bool.
Import ListNotations.
Open Scope N_scope.

Definition qrun_t := (bool * N)%type.            (* (true, n): n consecutive header events; (false, n): n data events *)

(* what the hand-off does when the channel stays full:
   HWait          = the code: the send waits for room (ctx.Done fires at shutdown only)
   HDeadline ms   = NOT the code: the select's ctx carries a deadline of ms counted from the moment the
                    iteration began on the height; when it fires, the hand-off returns without sending, the
                    remaining blobs of the height meet a done context as well, processNextDAHeaderAndData
                    returns nil and RetrieveLoop advances the cursor *)
Inductive handoff := HWait | HDeadline (ms : N).

Fixpoint count (hd : bool) (l : list qrun_t) : N :=
  match l with
  | [] => 0
  | (k, n) :: tl => (if Bool.eqb k hd then n else 0) + count hd tl
  end.

(* retriever.go:95-104 over the events of one height: hand over until one does not fit.
   Result: fill of both channels, and the events still to be handed over ([] = the height is done) *)
Fixpoint push_runs (capH capD lh ld : N) (l : list qrun_t) : N * N * list qrun_t :=
  match l with
  | [] => (lh, ld, [])
  | (true, n) :: tl =>
      let room := capH - lh in
      if n <=? room then push_runs capH capD (lh + n) ld tl
      else (capH, ld, (true, n - room) :: tl)
  | (false, n) :: tl =>
      let room := capD - ld in
      if n <=? room then push_runs capH capD lh (ld + n) tl
      else (lh, capD, (false, n - room) :: tl)
  end.

Record qstate := { q_cursor : N;                      (* m.daHeight *)
                   q_pend : option (list qrun_t);     (* Some l: an iteration is inside height q_cursor, l still to hand over *)
                   q_rest : list (list qrun_t);       (* the heights after it that the DA serves *)
                   q_lh : N; q_ld : N;                (* len(headerInCh), len(dataInCh) *)
                   q_th : N; q_td : N;                (* events the consumer has taken so far *)
                   q_lost_h : N; q_lost_d : N;        (* events given up (HDeadline only) *)
                   q_elapsed : N }.                   (* ms since the iteration on q_cursor began *)

(* RetrieveLoop:29-52 with the continuation token: after a height has been handed over completely the cursor
   moves and the next height is examined at once; beyond the served heights the DA answers from-the-future and
   the loop waits.  Runs until a hand-off does not fit or the DA has nothing more. *)
Fixpoint scanq (capH capD cur lh ld th td xh xd : N) (pend : list qrun_t) (rest : list (list qrun_t)) : qstate :=
  let '(lh', ld', lft) := push_runs capH capD lh ld pend in
  match lft with
  | _ :: _ => {| q_cursor := cur; q_pend := Some lft; q_rest := rest; q_lh := lh'; q_ld := ld';
                 q_th := th; q_td := td; q_lost_h := xh; q_lost_d := xd; q_elapsed := 0 |}
  | [] => match rest with
          | [] => {| q_cursor := cur + 1; q_pend := None; q_rest := []; q_lh := lh'; q_ld := ld';
                     q_th := th; q_td := td; q_lost_h := xh; q_lost_d := xd; q_elapsed := 0 |}
          | nxt :: rest' => scanq capH capD (cur + 1) lh' ld' th td xh xd nxt rest'
          end
  end.

(* the loop continues from where it was blocked (or is woken for the first time) *)
Definition resume (capH capD : N) (s : qstate) (elapsed : N) : qstate :=
  match q_pend s with
  | Some l =>
      let s' := scanq capH capD (q_cursor s) (q_lh s) (q_ld s) (q_th s) (q_td s) (q_lost_h s) (q_lost_d s) l (q_rest s) in
      (* still inside the same height: its clock runs on *)
      if (q_cursor s' =? q_cursor s) && (match q_pend s' with Some _ => true | None => false end)
      then {| q_cursor := q_cursor s'; q_pend := q_pend s'; q_rest := q_rest s'; q_lh := q_lh s'; q_ld := q_ld s';
              q_th := q_th s'; q_td := q_td s'; q_lost_h := q_lost_h s'; q_lost_d := q_lost_d s'; q_elapsed := elapsed |}
      else s'
  | None =>
      match q_rest s with
      | [] => s
      | nxt :: rest' => scanq capH capD (q_cursor s) (q_lh s) (q_ld s) (q_th s) (q_td s) (q_lost_h s) (q_lost_d s) nxt rest'
      end
  end.

Definition qinit (boot : N) (heights : list (list qrun_t)) : qstate :=
  {| q_cursor := boot; q_pend := None; q_rest := heights; q_lh := 0; q_ld := 0; q_th := 0; q_td := 0;
     q_lost_h := 0; q_lost_d := 0; q_elapsed := 0 |}.

(* the wake-up on retrieveCh *)
Definition qstart (capH capD boot : N) (heights : list (list qrun_t)) : qstate := resume capH capD (qinit boot heights) 0.

(* one round of the consumer: away for stall ms, then takes up to a headers and up to b data *)
Definition qround := (N * N * N)%type.
Definition qobs_t := (N * N * N)%type.       (* cursor, len(headerInCh), len(dataInCh) with the loop quiescent *)
Definition observe (s : qstate) : qobs_t := (q_cursor s, q_lh s, q_ld s).

Definition take (s : qstate) (a b : N) : qstate :=
  let a' := N.min a (q_lh s) in let b' := N.min b (q_ld s) in
  {| q_cursor := q_cursor s; q_pend := q_pend s; q_rest := q_rest s; q_lh := q_lh s - a'; q_ld := q_ld s - b';
     q_th := q_th s + a'; q_td := q_td s + b'; q_lost_h := q_lost_h s; q_lost_d := q_lost_d s; q_elapsed := q_elapsed s |}.

(* HDeadline: the blocked hand-off gives up; everything of the height still to be handed over is lost and the
   iteration ends with nil: the cursor moves (NOT the code) *)
Definition give_up (s : qstate) : qstate :=
  match q_pend s with
  | Some l => {| q_cursor := q_cursor s + 1; q_pend := None; q_rest := q_rest s; q_lh := q_lh s; q_ld := q_ld s;
                 q_th := q_th s; q_td := q_td s; q_lost_h := q_lost_h s + count true l; q_lost_d := q_lost_d s + count false l;
                 q_elapsed := 0 |}
  | None => s
  end.

(* Some t: the deadline fires while the consumer is away, t ms before the consumer comes back *)
Definition expired (m : handoff) (s : qstate) (stall : N) : option N :=
  match m, q_pend s with
  | HDeadline ms, Some _ => if ms <=? q_elapsed s + stall then Some (q_elapsed s + stall - ms) else None
  | _, _ => None
  end.

(* while the consumer is away the loop stays blocked (HWait) or gives up and goes on as far as it gets
   (HDeadline; at most one give-up per round is modelled); then the consumer takes, and the loop continues *)
Definition qstep (m : handoff) (capH capD : N) (s : qstate) (r : qround) : qobs_t * qstate :=
  let '(stall, a, b) := r in
  let '(s1, e) := match expired m s stall with
                  | Some t => (resume capH capD (give_up s) 0, t)
                  | None => (s, q_elapsed s + stall)
                  end in
  (observe s1, resume capH capD (take s1 a b) e).

Fixpoint qrun (m : handoff) (capH capD : N) (s : qstate) (rs : list qround) : list qobs_t * qstate :=
  match rs with
  | [] => ([], s)
  | r :: tl => let '(o, s') := qstep m capH capD s r in
               let '(os, s'') := qrun m capH capD s' tl in (o :: os, s'')
  end.

(* what is still to be handed over *)
Definition remaining (s : qstate) : list qrun_t :=
  match q_pend s with Some l => l | None => [] end ++ concat (q_rest s).
Definition handed_h (s : qstate) : N := q_th s + q_lh s.      (* handed over so far = taken + waiting in the channel *)
Definition handed_d (s : qstate) : N := q_td s + q_ld s.
